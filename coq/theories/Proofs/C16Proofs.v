(* C16 proofs: invariants of the interleaved run (Model/Conc.v) and the audit of
   the source-derived effects (Gen/Effects.v). *)
From Errdef Require Import Base.Str Base.Outcome Model.Core Model.GoErrors Model.Prog Model.Conc Gen.Effects Spec.EffectsAudit Check.C16.
Local Open Scope string_scope.
Local Open Scope list_scope.

(* ================= generic facts about the interleaving ================= *)
Lemma run_sched_inv fs base (P : world -> Prop) :
  (forall w t, P w -> P (tick fs base w t)) -> forall sched w0, P w0 -> P (run_sched fs base w0 sched).
Proof.
  intros Hs sched. induction sched as [|t r IH]; simpl; intros w0 H0; auto.
Qed.

Lemma run_sched_app fs base w s1 s2 :
  run_sched fs base w (s1 ++ s2) = run_sched fs base (run_sched fs base w s1) s2.
Proof. unfold run_sched. apply fold_left_app. Qed.

Lemma nth_error_replace_nth {A} (x : A) l : forall n k,
  nth_error (replace_nth n x l) k
  = if Nat.eqb k n then match nth_error l n with Some _ => Some x | None => None end else nth_error l k.
Proof.
  induction l as [|y r IH]; intros n k; simpl.
  - destruct n, k; simpl; try reflexivity; destruct (Nat.eqb k n); reflexivity.
  - destruct n as [|n], k as [|k]; simpl; try reflexivity. apply IH.
Qed.

Section Lift.
  Variables (fs : fsys) (base : N).
  Variable Pm : memo -> Prop.
  Variable Pt : nat -> thread -> Prop.
  Variable Pe : event -> Prop.
  Hypothesis Hstep : forall tid m th m' th' acc,
    Pm m -> Pt tid th -> tstep fs tid base m th = (m', th', acc) ->
    Pm m' /\ Pt tid th' /\ Forall (fun a => Pe (tid, a)) acc.

  Definition winv (w : world) : Prop :=
    Pm (w_memo w) /\ (forall tid th, nth_error (w_threads w) tid = Some th -> Pt tid th) /\ Forall Pe (w_trace w).

  Lemma tick_winv : forall w t, winv w -> winv (tick fs base w t).
  Proof.
    intros w t (Hm & Ht & He). unfold tick.
    destruct (nth_error (w_threads w) t) as [th|] eqn:E; [|now repeat split].
    destruct (tstep fs t base (w_memo w) th) as [[m' th'] acc] eqn:S.
    destruct (Hstep t _ _ _ _ _ Hm (Ht _ _ E) S) as (Hm' & Ht' & Ha).
    repeat split; simpl; auto.
    - intros tid th0 H. rewrite nth_error_replace_nth in H.
      destruct (Nat.eqb tid t) eqn:Q.
      + apply Nat.eqb_eq in Q. subst tid. rewrite E in H. now inversion H; subst.
      + now apply Ht.
    - apply Forall_app. split; auto. apply Forall_forall. intros e Hin.
      apply in_map_iff in Hin as (a & <- & Hin). rewrite Forall_forall in Ha. now apply Ha.
  Qed.

  Lemma run_winv : forall sched w, winv w -> winv (run_sched fs base w sched).
  Proof. apply run_sched_inv. apply tick_winv. Qed.
End Lift.

(* every step changes the memo by at most one mark or one put *)
Lemma tstep_memo fs tid base m th m' th' acc :
  tstep fs tid base m th = (m', th', acc) ->
  m' = m \/ (exists b, m' = mark m b) \/ (exists p ls, m' = put m p ls).
Proof.
  unfold tstep. intros H.
  destruct (th_rs th) as [rs|].
  - destruct (r_reqs rs) as [|rq rest]; [inversion H; auto|].
    destruct (r_pc rs).
    + destruct (m_avail m) as [[|]|]; inversion H; auto.
    + destruct (cache_get _ _); inversion H; auto.
    + destruct (fs _); inversion H; auto.
    + inversion H. right. left. eauto.
    + destruct (fs _); inversion H; auto.
    + inversion H. right. right. eauto.
  - destruct (th_ops th) as [|[x|q|e rs] r]; inversion H; auto.
Qed.

(* ================= 1. no conflicting accesses ================= *)
Definition ev_ok (e : event) : Prop :=
  match ac_addr (snd e) with
  | APriv t' _ => t' = fst e
  | AShared _ => ac_rw (snd e) = Rd
  | AAvail => ac_locks (snd e) = [{| lk_mu := "sourceAvailableMu"; lk_excl := true |}]
  | ACache => exists x, ac_locks (snd e) = [{| lk_mu := "sourceFileCacheMu"; lk_excl := x |}]
                        /\ (ac_rw (snd e) = Wr -> x = true)
  end.

(* the lock tags srcgen extracted from stack.go protect every micro-step *)
Lemma mstep_ok t ms : Forall (fun a => ev_ok (t, a)) (mstep_accesses ms).
Proof.
  destruct ms; vm_compute; repeat constructor; try (eexists; split; [reflexivity|]); try discriminate; auto.
Qed.

Local Opaque mstep_accesses.

Lemma reads_ok t base l : Forall (fun a => ev_ok (t, a)) (reads t base l).
Proof.
  apply Forall_forall. intros a H. apply in_map_iff in H as (x & <- & _).
  unfold ev_ok, cls; simpl. destruct (N.ltb x base); reflexivity.
Qed.

Lemma writes_ok t base l :
  (forall a, In a l -> (base <= a)%N) -> Forall (fun a => ev_ok (t, a)) (writes t base l).
Proof.
  intros Hl. apply Forall_forall. intros a H. apply in_map_iff in H as (x & <- & Hin).
  unfold ev_ok, cls; simpl. apply Hl in Hin. apply N.ltb_ge in Hin. now rewrite Hin.
Qed.

Lemma fresh_addrs_ge from upto a : In a (fresh_addrs from upto) -> (from <= a)%N.
Proof. unfold fresh_addrs. intros H. apply in_map_iff in H as (k & <- & _). lia. Qed.

Lemma step_next_mono s x : (s_next s <= s_next (step s x))%N.
Proof.
  destruct x; simpl; unfold add_def, add_err, add_ctx; simpl; try lia;
    repeat match goal with |- context [match ?e with _ => _ end] => destruct e end; simpl; lia.
Qed.

Lemma tstep_no_conflict fs base tid m th m' th' acc :
  True -> (base <= s_next (th_st th))%N -> tstep fs tid base m th = (m', th', acc) ->
  True /\ (base <= s_next (th_st th'))%N /\ Forall (fun a => ev_ok (tid, a)) acc.
Proof.
  intros _ Hb. unfold tstep.
  assert (N0 : Forall (fun a => ev_ok (tid, a)) []) by constructor.
  destruct (th_rs th) as [rs|].
  - destruct (r_reqs rs) as [|rq rest].
    + intros H; inversion H; subst. split; [exact I|split; [simpl; auto|auto]].
    + destruct (r_pc rs);
        repeat match goal with |- context [match ?e with _ => _ end] => destruct e end;
        intros H; inversion H; subst; (split; [exact I|split; [simpl; auto|apply mstep_ok]]).
  - destruct (th_ops th) as [|[x|q|e rs] r]; intros H; inversion H; subst;
      (split; [exact I|split; [simpl; auto|]]); auto.
    + pose proof (step_next_mono (th_st th) x). lia.
    + apply Forall_app. split; [apply reads_ok|]. apply writes_ok.
      intros a Ha. apply fresh_addrs_ge in Ha. lia.
    + apply reads_ok.
    + apply reads_ok.
Qed.

Lemma init_threads sh progs tid th :
  nth_error (w_threads (init_world sh memo0 progs)) tid = Some th ->
  exists p, nth_error progs tid = Some p /\ th = init_thread sh p.
Proof.
  simpl. intros H. rewrite nth_error_map in H. destruct (nth_error progs tid); inversion H; eauto.
Qed.

Lemma init_threads_m sh m0 progs tid th :
  nth_error (w_threads (init_world sh m0 progs)) tid = Some th ->
  exists p, nth_error progs tid = Some p /\ th = init_thread sh p.
Proof.
  simpl. intros H. rewrite nth_error_map in H. destruct (nth_error progs tid); inversion H; eauto.
Qed.

Lemma trace_ev_ok fs sh m0 progs sched :
  Forall ev_ok (w_trace (conc_run fs sh m0 progs sched)).
Proof.
  unfold conc_run.
  pose proof (run_winv fs (s_next sh) (fun _ => True) (fun _ th => (s_next sh <= s_next (th_st th))%N) ev_ok
                (fun tid m th m' th' acc => tstep_no_conflict fs (s_next sh) tid m th m' th' acc)) as H.
  apply H. repeat split; simpl; auto.
  intros tid th E. apply (init_threads_m sh m0) in E as (p & _ & ->). simpl. lia.
Qed.

Lemma ev_ok_protected t1 a1 t2 a2 :
  ev_ok (t1, a1) -> ev_ok (t2, a2) -> t1 <> t2 -> ac_addr a1 = ac_addr a2 ->
  ac_rw a1 = Wr \/ ac_rw a2 = Wr ->
  exists k1 k2, In k1 (ac_locks a1) /\ In k2 (ac_locks a2) /\ lk_mu k1 = lk_mu k2
                /\ (lk_excl k1 = true \/ lk_excl k2 = true).
Proof.
  unfold ev_ok; simpl. intros H1 H2 Hne Ha Hw. rewrite <- Ha in H2.
  destruct (ac_addr a1).
  - destruct Hw as [Hw|Hw]; congruence.
  - congruence.
  - rewrite H1, H2.
    exists {| lk_mu := "sourceAvailableMu"; lk_excl := true |}, {| lk_mu := "sourceAvailableMu"; lk_excl := true |}.
    split; [now left|]. split; [now left|]. split; [reflexivity|]. now left.
  - destruct H1 as (x1 & L1 & W1), H2 as (x2 & L2 & W2). rewrite L1, L2.
    exists {| lk_mu := "sourceFileCacheMu"; lk_excl := x1 |}, {| lk_mu := "sourceFileCacheMu"; lk_excl := x2 |}.
    split; [now left|]. split; [now left|]. split; [reflexivity|]. simpl.
    destruct Hw as [Hw|Hw]; [left|right]; auto.
Qed.

Theorem no_conflict : forall fs sh m0 progs sched t1 a1 t2 a2,
  let tr := w_trace (conc_run fs sh m0 progs sched) in
  In (t1, a1) tr -> In (t2, a2) tr ->
  t1 <> t2 -> ac_addr a1 = ac_addr a2 -> (ac_rw a1 = Wr \/ ac_rw a2 = Wr) ->
  exists k1 k2, In k1 (ac_locks a1) /\ In k2 (ac_locks a2) /\ lk_mu k1 = lk_mu k2
                /\ (lk_excl k1 = true \/ lk_excl k2 = true).
Proof.
  intros fs sh m0 progs sched t1 a1 t2 a2 tr H1 H2.
  pose proof (trace_ev_ok fs sh m0 progs sched) as F. rewrite Forall_forall in F.
  apply ev_ok_protected; now apply F.
Qed.

Lemma addr_eqb_eq a b : addr_eqb a b = true -> a = b.
Proof.
  destruct a, b; simpl; try discriminate; intros H; auto.
  - apply N.eqb_eq in H. now subst.
  - apply andb_true_iff in H as [H1 H2]. apply Nat.eqb_eq in H1. apply N.eqb_eq in H2. now subst.
Qed.

Lemma ev_ok_conflictb e1 e2 : ev_ok e1 -> ev_ok e2 -> conflictb e1 e2 = false.
Proof.
  destruct e1 as [t1 a1], e2 as [t2 a2]. intros H1 H2. unfold conflictb; simpl.
  destruct (Nat.eqb t1 t2) eqn:T; [reflexivity|simpl]. apply Nat.eqb_neq in T.
  destruct (addr_eqb (ac_addr a1) (ac_addr a2)) eqn:A; [simpl|reflexivity]. apply addr_eqb_eq in A.
  destruct (rw_eqb (ac_rw a1) Wr || rw_eqb (ac_rw a2) Wr) eqn:W; [simpl|reflexivity].
  assert (Hw : ac_rw a1 = Wr \/ ac_rw a2 = Wr).
  { apply orb_true_iff in W as [W|W]; [left|right]; destruct (ac_rw _); auto; discriminate. }
  destruct (ev_ok_protected _ _ _ _ H1 H2 T A Hw) as (k1 & k2 & I1 & I2 & M & X).
  apply negb_false_iff. unfold protectedb. apply existsb_exists. exists k1. split; auto.
  apply existsb_exists. exists k2. split; auto. unfold protects. rewrite M, str_eqb_refl. simpl.
  destruct X as [-> | ->]; [reflexivity | apply orb_true_r].
Qed.

Theorem no_conflict_b : forall fs sh m0 progs sched,
  conflicts (w_trace (conc_run fs sh m0 progs sched)) = [].
Proof.
  intros. unfold conflicts.
  pose proof (trace_ev_ok fs sh m0 progs sched) as F. rewrite Forall_forall in F.
  set (tr := w_trace _) in *.
  assert (G : forall l, (forall p, In p l -> In (fst p) tr /\ In (snd p) tr) ->
                        filter (fun p => conflictb (fst p) (snd p)) l = []).
  { induction l as [|p r IH]; simpl; intros Hl; auto.
    destruct (Hl p (or_introl eq_refl)) as [P1 P2].
    rewrite (ev_ok_conflictb _ _ (F _ P1) (F _ P2)). apply IH. intros q Hq. apply Hl. now right. }
  apply G. intros [x y] Hp. apply in_prod_iff in Hp. exact Hp.
Qed.

(* ================= 2. results do not depend on the schedule ================= *)
Lemma run_alone_length : forall ops s, List.length (run_alone s ops) = List.length ops.
Proof. induction ops as [|[x|q|e rs] r IH]; intros s; simpl; auto. Qed.

Lemma run_alone_app : forall a b s,
  run_alone s (a ++ b) = run_alone s a ++ run_alone (fold_left op_step a s) b.
Proof. induction a as [|[x|q|e rs] r IH]; intros b s; simpl; auto; now rewrite IH. Qed.

Lemma stmt_result_not_snips s x : is_snips (stmt_result s x) = false.
Proof. destruct x; reflexivity. Qed.
Lemma eval_query_not_snips s q : is_snips (eval_query s q) = false.
Proof. destruct q; simpl; unfold with_err; try reflexivity; destruct (get_err s (Some e)); reflexivity. Qed.

Definition entry_ok (sh : st) (done : list op) (ir : nat * result) : Prop :=
  fst ir < List.length done
  /\ (is_snips (snd ir) = false -> nth_error (run_alone sh done) (fst ir) = Some (Some (snd ir)))
  /\ (forall l, snd ir = RSnips l -> exists e rs, nth_error done (fst ir) = Some (ORender e rs) /\ map fst l = rs).

Definition th_inv (sh : st) (prog : list op) (th : thread) : Prop :=
  exists done, prog = done ++ th_ops th /\ th_idx th = List.length done
    /\ th_st th = fold_left op_step done sh
    /\ (forall ir, In ir (th_log th) -> entry_ok sh done ir)
    /\ match th_rs th with
       | Some rs => exists e rs0 rest, th_ops th = ORender e rs0 :: rest /\ map fst (r_done rs) ++ r_reqs rs = rs0
       | None => True
       end.

Lemma entry_ok_grow sh done o ir : entry_ok sh done ir -> entry_ok sh (done ++ [o]) ir.
Proof.
  intros (L & A & B). unfold entry_ok. rewrite app_length. simpl. repeat split.
  - lia.
  - intros H. rewrite run_alone_app, nth_error_app1; [auto|rewrite run_alone_length; lia].
  - intros l H. destruct (B l H) as (e & rs & N1 & M). exists e, rs. split; auto.
    rewrite nth_error_app1; auto.
Qed.

Lemma nth_error_app_len {A} (a b : list A) : nth_error (a ++ b) (List.length a) = nth_error b 0.
Proof. rewrite nth_error_app2; [|lia]. now rewrite Nat.sub_diag. Qed.

Ltac spl5 := split; [|split; [|split; [|split]]].

Lemma tstep_th_inv fs base sh prog tid m th m' th' acc :
  th_inv sh prog th -> tstep fs tid base m th = (m', th', acc) -> th_inv sh prog th'.
Proof.
  intros (done & Hp & Hi & Hs & Hl & Hr). unfold tstep.
  destruct (th_rs th) as [rs|] eqn:RS.
  - destruct Hr as (e & rs0 & rest & Ho & Hm).
    assert (Keep : forall rs', map fst (r_done rs') ++ r_reqs rs' = rs0 -> th_inv sh prog (set_rs th rs')).
    { intros rs' Hm'. exists done. simpl. spl5; auto. exists e, rs0, rest. auto. }
    assert (Fin : forall rq rest' snip, r_reqs rs = rq :: rest' -> th_inv sh prog (finish_req th rs rq snip)).
    { intros rq rest' snip Hq. apply Keep. simpl. rewrite Hq in *. simpl.
      rewrite map_app, <- app_assoc. simpl. exact Hm. }
    assert (Pc : forall p, th_inv sh prog (set_pc th rs p)).
    { intros p. apply Keep. simpl. exact Hm. }
    destruct (r_reqs rs) as [|rq rest'] eqn:RQ.
    + intros [= <- <- <-].
      exists (done ++ [ORender e rs0]). unfold complete; simpl. rewrite Ho. simpl.
      spl5; auto.
      * rewrite <- app_assoc. simpl. now rewrite <- Ho.
      * rewrite app_length. simpl. lia.
      * rewrite fold_left_app. simpl. exact Hs.
      * intros ir Hin. apply in_app_iff in Hin as [Hin|[<-|[]]].
        -- apply entry_ok_grow. now apply Hl.
        -- unfold entry_ok; simpl. rewrite app_length; simpl. split; [lia|split; [discriminate|]].
           intros l El. inversion El; subst l. exists e, rs0. rewrite Hi, nth_error_app_len. simpl.
           split; auto. rewrite app_nil_r in Hm. exact Hm.
    + destruct (r_pc rs);
        repeat match goal with |- context [match ?e with _ => _ end] => destruct e end;
        intros [= <- <- <-]; eauto.
  - destruct (th_ops th) as [|[x|q|e rs] r] eqn:OPS; intros [= <- <- <-].
    + exists done. rewrite RS, OPS. spl5; auto.
    + exists (done ++ [OStmt x]). unfold complete; simpl. rewrite OPS. simpl. spl5; auto.
      * now rewrite <- app_assoc.
      * rewrite app_length. simpl. lia.
      * rewrite fold_left_app. simpl. now rewrite Hs.
      * intros ir Hin. apply in_app_iff in Hin as [Hin|[<-|[]]].
        -- apply entry_ok_grow. now apply Hl.
        -- unfold entry_ok; simpl. rewrite app_length; simpl. split; [lia|split].
           ++ intros _. rewrite run_alone_app, Hi, <- (run_alone_length done sh), nth_error_app_len. simpl.
              now rewrite Hs.
           ++ intros l El. pose proof (stmt_result_not_snips (step (th_st th) x) x) as N1.
              rewrite El in N1. discriminate.
    + exists (done ++ [OQuery q]). unfold complete; simpl. rewrite OPS. simpl. spl5; auto.
      * now rewrite <- app_assoc.
      * rewrite app_length. simpl. lia.
      * rewrite fold_left_app. simpl. exact Hs.
      * intros ir Hin. apply in_app_iff in Hin as [Hin|[<-|[]]].
        -- apply entry_ok_grow. now apply Hl.
        -- unfold entry_ok; simpl. rewrite app_length; simpl. split; [lia|split].
           ++ intros _. rewrite run_alone_app, Hi, <- (run_alone_length done sh), nth_error_app_len. simpl.
              now rewrite Hs.
           ++ intros l El. pose proof (eval_query_not_snips (th_st th) q) as N1.
              rewrite El in N1. discriminate.
    + exists done. simpl. rewrite OPS. spl5; auto. exists e, rs, r. auto.
Qed.

Lemma threads_inv fs sh m0 progs sched tid th :
  nth_error (w_threads (conc_run fs sh m0 progs sched)) tid = Some th ->
  th_inv sh (nth tid progs []) th.
Proof.
  unfold conc_run.
  pose proof (run_winv fs (s_next sh) (fun _ => True) (fun tid th => th_inv sh (nth tid progs []) th) (fun _ => True)) as H.
  assert (Hstep : forall tid m th m' th' acc, True -> th_inv sh (nth tid progs []) th ->
            tstep fs tid (s_next sh) m th = (m', th', acc) ->
            True /\ th_inv sh (nth tid progs []) th' /\ Forall (fun a => True) acc).
  { intros t m t0 m' t' acc _ I S. repeat split; [eapply tstep_th_inv; eauto|]. apply Forall_forall. auto. }
  specialize (H Hstep sched (init_world sh m0 progs)).
  intros E. apply H; auto. repeat split; simpl; auto.
  intros t t0 E0. apply (init_threads_m sh m0) in E0 as (p & Np & ->).
  exists []. simpl. spl5; auto.
  - now apply nth_error_nth.
  - intros ir [].
Qed.

Theorem results_schedule_independent : forall fs sh m0 progs sched tid th i r,
  nth_error (w_threads (conc_run fs sh m0 progs sched)) tid = Some th ->
  In (i, r) (th_log th) -> is_snips r = false ->
  nth_error (run_alone sh (nth tid progs [])) i = Some (Some r).
Proof.
  intros fs sh m0 progs sched tid th i r E Hin Hs.
  destruct (threads_inv _ _ _ _ _ _ _ E) as (done & Hp & _ & _ & Hl & _).
  destruct (Hl _ Hin) as (L & A & _). simpl in *.
  rewrite Hp, run_alone_app, nth_error_app1; [auto|rewrite run_alone_length; lia].
Qed.

Theorem render_results_match_requests : forall fs sh m0 progs sched tid th i l,
  nth_error (w_threads (conc_run fs sh m0 progs sched)) tid = Some th ->
  In (i, RSnips l) (th_log th) ->
  exists e rs, nth_error (nth tid progs []) i = Some (ORender e rs) /\ map fst l = rs.
Proof.
  intros fs sh m0 progs sched tid th i l E Hin.
  destruct (threads_inv _ _ _ _ _ _ _ E) as (done & Hp & _ & _ & Hl & _).
  destruct (Hl _ Hin) as (L & _ & B). simpl in *. destruct (B l eq_refl) as (e & rs & N1 & M).
  exists e, rs. split; auto. rewrite Hp, nth_error_app1; auto.
Qed.

(* ================= 3. the source memo ================= *)
Definition avail_inv (m0 m : memo) : Prop :=
  (m_writes m = m_writes m0 /\ m_avail m = m_avail m0)
  \/ (m_writes m = S (m_writes m0) /\ m_avail m0 = None /\ exists b, m_avail m = Some b).

Definition rs_ok (fs : fsys) (rs : rstate) : Prop :=
  (forall rq s, In (rq, s) (r_done rs) -> snip_ok fs rq s)
  /\ (forall ls, r_pc rs = PPut ls -> match r_reqs rs with rq :: _ => fs (rq_path rq) = Present ls | [] => True end).

Definition th_cache_inv (fs : fsys) (th : thread) : Prop :=
  (forall i l rq s, In (i, RSnips l) (th_log th) -> In (rq, s) l -> snip_ok fs rq s)
  /\ match th_rs th with Some rs => rs_ok fs rs | None => True end.

Lemma mark_avail_inv m0 m b : avail_inv m0 m -> avail_inv m0 (mark m b).
Proof.
  unfold mark. intros H. destruct (m_avail m) eqn:A; auto.
  destruct H as [[W E]|(W & E & b' & S)].
  - right. simpl. repeat split; [now rewrite W|congruence|eauto].
  - congruence.
Qed.

Lemma cache_get_put fs m p ls : memo_ok fs m -> fs p = Present ls -> memo_ok fs (put m p ls).
Proof.
  unfold memo_ok, put, cache_get; simpl. intros H F p' ls'.
  destruct (str_eqb p p') eqn:Q.
  - apply str_eqb_eq in Q. subst p'. simpl. intros E. inversion E. now subst.
  - apply H.
Qed.

Ltac spl4 := split; [split|split].

Lemma tstep_cache fs base m0 tid m th m' th' acc :
  (memo_ok fs m /\ avail_inv m0 m) -> th_cache_inv fs th -> tstep fs tid base m th = (m', th', acc) ->
  (memo_ok fs m' /\ avail_inv m0 m') /\ th_cache_inv fs th' /\ Forall (fun a => True) acc.
Proof.
  intros [Hm Ha] [Hl Hr] S.
  assert (T : Forall (fun _ : access => True) acc) by (apply Forall_forall; auto).
  revert S T. unfold tstep.
  destruct (th_rs th) as [rs|] eqn:RS.
  - destruct Hr as [Hd Hp].
    assert (Fin : forall rq rest snip, r_reqs rs = rq :: rest -> snip_ok fs rq snip ->
                    th_cache_inv fs (finish_req th rs rq snip)).
    { intros rq rest snip Hq Hs. split; simpl; auto. split; simpl; [|discriminate].
      intros rq' s' Hin. apply in_app_iff in Hin as [Hin|[Hin|[]]]; auto. now inversion Hin; subst. }
    assert (Pc : forall p, (forall ls, p = PPut ls ->
                    match r_reqs rs with rq :: _ => fs (rq_path rq) = Present ls | [] => True end) ->
                    th_cache_inv fs (set_pc th rs p)).
    { intros p Hpp. split; simpl; auto. split; simpl; auto. }
    destruct (r_reqs rs) as [|rq rest] eqn:RQ.
    + intros [= <- <- <-] T. spl4; auto. split; simpl; auto.
      intros i l rq s Hin Hin2. apply in_app_iff in Hin as [Hin|[Hin|[]]]; [eapply Hl; eauto|].
      inversion Hin; subst. now apply Hd.
    + destruct (r_pc rs) as [| | |b| |ls] eqn:PC.
      * destruct (m_avail m) as [[|]|]; intros [= <- <- <-] T; spl4; auto;
          try (apply Pc; discriminate); eapply Fin; eauto; now left.
      * destruct (cache_get (rq_path rq) (m_cache m)) as [ls|] eqn:G; intros [= <- <- <-] T; spl4; auto.
        -- eapply Fin; eauto. right. exists ls. split; auto.
        -- apply Pc; discriminate.
      * destruct (fs (rq_path rq)); intros [= <- <- <-] T; spl4; auto; apply Pc; discriminate.
      * intros [= <- <- <-] T. spl4; auto.
        -- unfold memo_ok, mark. destruct (m_avail m); auto.
        -- now apply mark_avail_inv.
        -- destruct b; [apply Pc; discriminate|eapply Fin; eauto; now left].
      * destruct (fs (rq_path rq)) as [ls| | |] eqn:F; intros [= <- <- <-] T; spl4; auto;
          try (eapply Fin; eauto; now left).
        apply Pc. intros ls' E. inversion E; subst. reflexivity.
      * intros [= <- <- <-] T. specialize (Hp ls eq_refl). simpl in Hp. spl4; auto.
        -- now apply cache_get_put.
        -- eapply Fin; eauto. right. exists ls. auto.
  - destruct (th_ops th) as [|[x|q|e rs] r] eqn:OPS; intros [= <- <- <-] T; spl4; auto.
    + split; auto. now rewrite RS.
    + split; simpl; auto.
      intros i l rq s Hin Hin2. apply in_app_iff in Hin as [Hin|[Hin|[]]]; [eapply Hl; eauto|].
      inversion Hin as [[E1 E2]]. pose proof (stmt_result_not_snips (step (th_st th) x) x) as N1.
      rewrite E2 in N1. discriminate.
    + split; simpl; auto.
      intros i l rq s Hin Hin2. apply in_app_iff in Hin as [Hin|[Hin|[]]]; [eapply Hl; eauto|].
      inversion Hin as [[E1 E2]]. pose proof (eval_query_not_snips (th_st th) q) as N1.
      rewrite E2 in N1. discriminate.
    + split; simpl; auto. split; simpl; [intros ? ? []|discriminate].
Qed.

Lemma cache_winv fs sh m0 progs sched :
  memo_ok fs m0 ->
  winv (fun m => memo_ok fs m /\ avail_inv m0 m) (fun _ th => th_cache_inv fs th) (fun _ => True)
       (conc_run fs sh m0 progs sched).
Proof.
  intros H0. unfold conc_run. apply run_winv.
  - intros tid m th m' th' acc Pm Pt S.
    destruct (tstep_cache fs (s_next sh) m0 tid m th m' th' acc Pm Pt S) as (A & B & C).
    repeat split; try apply A; try apply B. apply Forall_forall. auto.
  - repeat split; simpl; auto.
    + left. auto.
    + apply (init_threads_m sh m0) in H as (p & _ & ->). simpl. intros ? ? ? ? [].
    + apply (init_threads_m sh m0) in H as (p & _ & ->). simpl. auto.
Qed.

Lemma tick_avail_some fs base w t b :
  m_avail (w_memo w) = Some b -> m_avail (w_memo (tick fs base w t)) = Some b.
Proof.
  unfold tick. intros H. destruct (nth_error (w_threads w) t) as [th|]; auto.
  destruct (tstep fs t base (w_memo w) th) as [[m' th'] acc] eqn:S. simpl.
  apply tstep_memo in S as [->|[(b' & ->)|(p & ls & ->)]]; auto.
  unfold mark. now rewrite H.
Qed.

Theorem cache_atomic : forall fs sh m0 progs sched,
  memo_ok fs m0 ->
  let w := conc_run fs sh m0 progs sched in
  (forall tid th i l rq s, nth_error (w_threads w) tid = Some th ->
      In (i, RSnips l) (th_log th) -> In (rq, s) l -> snip_ok fs rq s)
  /\ memo_ok fs (w_memo w)
  /\ (m_writes (w_memo w) <= S (m_writes m0))
  /\ (m_avail m0 <> None -> m_writes (w_memo w) = m_writes m0 /\ m_avail (w_memo w) = m_avail m0)
  /\ (forall s1 s2 b, sched = s1 ++ s2 ->
        m_avail (w_memo (conc_run fs sh m0 progs s1)) = Some b -> m_avail (w_memo w) = Some b).
Proof.
  intros fs sh m0 progs sched H0 w.
  destruct (cache_winv fs sh m0 progs sched H0) as ((Hm & Ha) & Ht & _). fold w in Hm, Ha, Ht.
  repeat split.
  - intros tid th i l rq s E. destruct (Ht _ _ E) as [Hl _]. apply Hl.
  - exact Hm.
  - destruct Ha as [[W _]|(W & _)]; lia.
  - destruct Ha as [[W _]|(_ & E & _)]; [auto|congruence].
  - destruct Ha as [[_ A]|(_ & E & _)]; [auto|congruence].
  - intros s1 s2 b -> Hb. unfold w, conc_run in *. rewrite run_sched_app.
    apply run_sched_inv; auto. intros w0 t. apply tick_avail_some.
Qed.

(* ================= 4. the effects read from the source ================= *)
(* Audited by hand against /repo (see the comments); C16_effects_audited states that
   what srcgen extracts now is exactly this. *)

(* checks on the generated tables themselves *)
Definition acc_locked (a : string * string * string * bool * string) : bool := let '(_, _, _, h, _) := a in h.
Definition acc_var (a : string * string * string * bool * string) : string := let '(_, v, _, _, _) := a in v.
Definition acc_mu (a : string * string * string * bool * string) : string := let '(_, _, _, _, m) := a in m.
(* one mutex per variable *)
Definition guards_consistent (l : list (string * string * string * bool * string)) : bool :=
  forallb (fun a => forallb (fun b => negb (str_eqb (acc_var a) (acc_var b)) || str_eqb (acc_mu a) (acc_mu b)) l) l.
(* a write holds Lock(), a read Lock() or RLock(), as recorded in lock_sites *)
Definition acc_lock_mode_ok (a : string * string * string * bool * string) : bool :=
  let '(f, v, m, _, _) := a in
  match gen_lock f v m with
  | [k] => if str_eqb m "W" then lk_excl k else true
  | _ => false
  end.
Definition released (l : string * string * string * string) : bool :=
  let '(_, _, _, how) := l in str_eqb how "defer" || str_eqb how "explicit".

Theorem effects_audited :
  effects_matched = true
  /\ write_sites = audited_write_sites
  /\ mutator_calls = audited_mutator_calls
  /\ fresh_sources = audited_fresh_sources
  /\ pkgvar_accesses = audited_pkgvar_accesses
  /\ lock_sites = audited_lock_sites
  /\ pkgvar_init_only = audited_pkgvar_init_only
  /\ sync_typed = audited_sync_typed
  /\ forallb acc_locked pkgvar_accesses = true
  /\ guards_consistent pkgvar_accesses = true
  /\ forallb acc_lock_mode_ok pkgvar_accesses = true
  /\ forallb released lock_sites = true.
Proof. repeat split; vm_compute; reflexivity. Qed.

(* ================= 5. link to the check ================= *)
Lemma corr_implies_ok : forall c, C16.corr c = true -> C16.ok c = true.
Proof. intros c H. exact H. Qed.

Lemma corr_iff_ok : forall c, C16.corr c = C16.ok c.
Proof. reflexivity. Qed.
