(* Facts about sort_fields (Model/Unmarshal.v): the name order in which unmarshal visits
   the decoded fields as of the fix for F12. *)
From Coq Require Import Sorting.Permutation Sorting.Sorted.
From Errdef Require Import Base.Str Base.StrOrd Base.Outcome Model.Core Model.Convert Model.Unmarshal.

Definition fld := (string * dval)%type.
Definition name_le (a b : fld) : Prop := String.leb (fst a) (fst b) = true.

Lemma sf_leb_asym a b : a <> b -> String.leb a b = true -> String.leb b a = false.
Proof. intros N A. destruct (String.leb b a) eqn:B; [|reflexivity]. exfalso. apply N. now apply String.leb_antisym. Qed.

Lemma ins_field_perm x l : Permutation (ins_field x l) (x :: l).
Proof.
  induction l as [|y r IH]; cbn; [apply Permutation_refl|].
  destruct (String.leb _ _); [apply Permutation_refl|].
  eapply Permutation_trans; [apply perm_skip; exact IH|apply perm_swap].
Qed.

Lemma sort_fields_perm l : Permutation (sort_fields l) l.
Proof.
  induction l as [|x r IH]; cbn; [constructor|].
  eapply Permutation_trans; [apply ins_field_perm|now apply perm_skip].
Qed.

Lemma sort_fields_in l x : In x (sort_fields l) <-> In x l.
Proof.
  split; apply Permutation_in; [apply sort_fields_perm|apply Permutation_sym, sort_fields_perm].
Qed.

Lemma sort_fields_names_perm l : Permutation (map fst (sort_fields l)) (map fst l).
Proof. apply Permutation_map, sort_fields_perm. Qed.

(* the result is sorted: every element is name-<= all later ones *)
Lemma ins_field_sorted x l : StronglySorted name_le l -> StronglySorted name_le (ins_field x l).
Proof.
  induction l as [|y r IH]; intros S; cbn.
  - constructor; constructor.
  - inversion S as [|? ? Sr Hy]; subst. destruct (String.leb (fst x) (fst y)) eqn:A.
    + constructor; [exact S|]. constructor; [exact A|].
      eapply Forall_impl; [|exact Hy]. intros z Hz. unfold name_le in *. now apply (leb_trans _ _ _ A).
    + constructor; [now apply IH|].
      assert (P := ins_field_perm x r).
      apply Forall_forall. intros z Hz. apply (Permutation_in _ P) in Hz. destruct Hz as [<-|Hz].
      * now apply leb_false_flip.
      * rewrite Forall_forall in Hy. now apply Hy.
Qed.

Lemma sort_fields_sorted l : StronglySorted name_le (sort_fields l).
Proof. induction l as [|x r IH]; cbn; [constructor|now apply ins_field_sorted]. Qed.

(* with distinct names the result does not depend on the order of the input: Go's map
   iteration order over decoded.Fields no longer matters *)
Lemma ins_field_comm x y l : fst x <> fst y -> ins_field x (ins_field y l) = ins_field y (ins_field x l).
Proof.
  intros Hne. assert (Hne' : fst y <> fst x) by congruence.
  induction l as [|z r IH]; cbn.
  - destruct (String.leb (fst x) (fst y)) eqn:A.
    + now rewrite (sf_leb_asym _ _ Hne A).
    + now rewrite (leb_false_flip _ _ A).
  - destruct (String.leb (fst y) (fst z)) eqn:YZ; destruct (String.leb (fst x) (fst z)) eqn:XZ; cbn; rewrite ?YZ, ?XZ.
    + destruct (String.leb (fst x) (fst y)) eqn:A.
      * now rewrite (sf_leb_asym _ _ Hne A).
      * now rewrite (leb_false_flip _ _ A).
    + destruct (String.leb (fst x) (fst y)) eqn:A.
      * rewrite (leb_trans _ _ _ A YZ) in XZ. discriminate.
      * reflexivity.
    + destruct (String.leb (fst y) (fst x)) eqn:B.
      * rewrite (leb_trans _ _ _ B XZ) in YZ. discriminate.
      * reflexivity.
    + now rewrite IH.
Qed.

Theorem sort_fields_perm_invariant l l' :
  Permutation l l' -> NoDup (map fst l) -> sort_fields l = sort_fields l'.
Proof.
  unfold sort_fields. intros P. induction P as [|x l l' P IH|x y l|l l' l'' P1 IH1 P2 IH2]; intros N; cbn.
  - reflexivity.
  - inversion N; subst. now rewrite IH.
  - apply ins_field_comm. inversion N; subst. cbn in H1. intros E. apply H1. left. now symmetry.
  - rewrite IH1 by assumption. apply IH2. eapply Permutation_NoDup; [|exact N]. now apply Permutation_map.
Qed.

(* sorting twice changes nothing *)
Lemma ins_field_head x l : Forall (name_le x) l -> ins_field x l = x :: l.
Proof. destruct l as [|y r]; [reflexivity|]. intros H. inversion H; subst. cbn. unfold name_le in H2. now rewrite H2. Qed.

Lemma sort_fields_of_sorted l : StronglySorted name_le l -> sort_fields l = l.
Proof.
  induction 1 as [|x l S IH Hx]; [reflexivity|]. cbn [sort_fields fold_right]. fold (sort_fields l). rewrite IH. now apply ins_field_head.
Qed.

Lemma sort_fields_idem l : sort_fields (sort_fields l) = sort_fields l.
Proof. apply sort_fields_of_sorted, sort_fields_sorted. Qed.
