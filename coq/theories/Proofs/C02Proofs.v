From Errdef Require Import Base.Str Model.Core Model.GoErrors Model.Prog Check.C02.

(* ---------- nil in, nil out ---------- *)
Lemma wrap_nil a d stk : c_wrap a d None stk = None.
Proof. reflexivity. Qed.
Lemma wrapf_nil a d ref stk : c_wrapf a d None ref stk = None.
Proof. reflexivity. Qed.
Lemma wrap_some a d c stk : c_wrap a d (Some c) stk <> None.
Proof. discriminate. Qed.
Lemma wrapf_some a d c ref stk : c_wrapf a d (Some c) ref stk <> None.
Proof. discriminate. Qed.

Lemma somes_nil_iff {A} (l : list (option A)) : somes l = [] <-> forall x, In x l -> x = None.
Proof.
  induction l as [|[y|] r IH]; cbn; split; intros H; try reflexivity; try discriminate.
  - intros x [].
  - exfalso. specialize (H (Some y) (or_introl eq_refl)). discriminate.
  - intros x [<-|Hin]; [reflexivity|]. now apply IH.
  - apply IH. intros x Hin. apply H. now right.
Qed.

Lemma join_nil_iff a d cs stk : c_join a d cs stk = None <-> forall x, In x cs -> x = None.
Proof.
  rewrite <- somes_nil_iff. unfold c_join. destruct (somes cs) as [|c1 [|c2 r]]; split; intros H;
    try reflexivity; try discriminate.
Qed.

Lemma recover_nil_iff s f c stk :
  fst (c_recover s f c stk) = None <-> exists n, eval_cb s c (s_next s) = (Normal None, n).
Proof.
  unfold c_recover. destruct (eval_cb s c (s_next s)) as [[r|v] n]; cbn; split.
  - intros ->. now exists n.
  - intros [n' E]. now inversion E.
  - discriminate.
  - intros [n' E]. discriminate.
Qed.

(* ---------- Unwrap() yields exactly the causes given ---------- *)
Lemma unwrap_wrap a d c stk e : c_wrap a d (Some c) stk = Some e -> def_unwrap e = [c] /\ def_cause e = Some c.
Proof. unfold c_wrap, new_error. intros E. inversion E; subst. split; reflexivity. Qed.

Lemma unwrap_wrapf a d c ref stk e : c_wrapf a d (Some c) ref stk = Some e -> def_unwrap e = [c] /\ def_cause e = Some c.
Proof. unfold c_wrapf, new_error. intros E. inversion E; subst. split; reflexivity. Qed.

Lemma unwrap_join a d cs stk e : c_join a d cs stk = Some e -> def_unwrap e = somes cs.
Proof.
  unfold c_join, new_error. destruct (somes cs) as [|c1 [|c2 r]]; intros E; inversion E; subst; reflexivity.
Qed.

(* ---------- messages ---------- *)
Lemma msg_new a d m stk e : c_new a d m stk = Some e -> err_msg e = m.
Proof. intros E. inversion E. reflexivity. Qed.
Lemma msg_errorf a d f n ref stk e : c_errorf a d f n ref stk = Some e ->
  err_msg e = match n with O => f | _ => ref end.
Proof. intros E. inversion E. reflexivity. Qed.
Lemma msg_wrap a d c stk e : c_wrap a d (Some c) stk = Some e -> err_msg e = err_msg c.
Proof. intros E. inversion E. reflexivity. Qed.
Lemma msg_wrapf a d c ref stk e : c_wrapf a d (Some c) ref stk = Some e ->
  err_msg e = (ref ++ ": " ++ err_msg c)%string.
Proof. intros E. inversion E. reflexivity. Qed.
Lemma msg_join a d cs stk e : c_join a d cs stk = Some e -> err_msg e = join nl (map err_msg (somes cs)).
Proof.
  unfold c_join, new_error. destruct (somes cs) as [|c1 [|c2 r]]; intros E; inversion E; subst; reflexivity.
Qed.
Lemma msg_recover a d v stk : err_msg (recovered a d v stk) = ("panic: " ++ pv_msg v)%string.
Proof. reflexivity. Qed.

(* ---------- errors.Is / errors.As reach every cause and everything beneath it ---------- *)
Definition reach_sub (c r : err) : Prop := forall n, In n (reach c) -> In n (reach r).

Lemma errors_is_mono c r t : reach_sub c r -> errors_is c t = true -> errors_is r t = true.
Proof.
  unfold errors_is. intros H E. apply existsb_exists in E as [n [Hin Hp]].
  apply existsb_exists. exists n. split; [now apply H|exact Hp].
Qed.

Lemma as_first_mono p c r : reach_sub c r -> as_first p c <> None -> as_first p r <> None.
Proof.
  unfold as_first. intros H E. destruct (find p (reach c)) as [n|] eqn:F; [|congruence].
  apply find_some in F as [Hin Hp]. intros N. eapply find_none in N; [|apply H; exact Hin]. congruence.
Qed.

Lemma same_refl e : same e e = true.
Proof. unfold same. rewrite N.eqb_refl. destruct (is_defn_val e); reflexivity. Qed.

Lemma reach_head e : In e (reach e).
Proof. destruct e; cbn; now left. Qed.

Lemma errors_is_self e : errors_is e e = true.
Proof. unfold errors_is. apply existsb_exists. exists e. split; [apply reach_head|]. now rewrite same_refl. Qed.

Lemma reach_sub_def a d m c stk : reach_sub c (EDef a d m (Some c) false stk).
Proof. intros n Hin. cbn [reach]. right. exact Hin. Qed.

Lemma reach_sub_joined a a' d m es stk c : In c es -> reach_sub c (EDef a d m (Some (EJoin a' es)) true stk).
Proof.
  intros Hc n Hin. cbn [reach andb is_multi tl]. right. apply in_flat_map. exists c. split; assumption.
Qed.

(* every statement that creates an errdef error over causes: the causes and
   everything reachable from them are reachable from the result *)
Theorem join_reaches a d cs stk e c : c_join a d cs stk = Some e -> In (Some c) cs -> reach_sub c e.
Proof.
  unfold c_join, new_error. intros E Hin.
  assert (Hs : In c (somes cs)).
  { clear E. induction cs as [|[y|] r IH]; cbn in *; [contradiction| |].
    - destruct Hin as [E|Hin]; [left; now inversion E|right; now apply IH].
    - destruct Hin as [E|Hin]; [discriminate|now apply IH]. }
  destruct (somes cs) as [|c1 [|c2 r]]; [contradiction| |]; inversion E; subst.
  - destruct Hs as [<-|[]]. apply reach_sub_def.
  - now apply reach_sub_joined.
Qed.

Theorem wrap_reaches a d c stk e : c_wrap a d (Some c) stk = Some e -> reach_sub c e.
Proof. intros E. inversion E. apply reach_sub_def. Qed.
Theorem wrapf_reaches a d c ref stk e : c_wrapf a d (Some c) ref stk = Some e -> reach_sub c e.
Proof. intros E. inversion E. apply reach_sub_def. Qed.

Theorem reach_all c r t : reach_sub c r ->
  errors_is r c = true /\ (errors_is c t = true -> errors_is r t = true).
Proof.
  intros H. split; [|now apply errors_is_mono].
  apply (errors_is_mono c r c H). apply errors_is_self.
Qed.

(* the result a statement appends to the error pool *)
Definition result_of (s : st) (x : stmt) : option err := last (s_errs (step s x)) None.

Lemma last_app1 {A} (l : list A) x d : last (l ++ [x]) d = x.
Proof. induction l as [|y r IH]; [reflexivity|]. cbn. destruct (r ++ [x]) eqn:E; [destruct r; discriminate|exact IH]. Qed.

Lemma in_somes2 {A} (x : A) l : In x (somes l) -> In (Some x) l.
Proof.
  induction l as [|[y|] r IH]; cbn; [tauto| |].
  - intros [<-|H]; [now left|right; now apply IH].
  - intros H. right. now apply IH.
Qed.

(* The contract evaluated by the oracle is met by the modelled constructor, in every state *)
Theorem contract_sound s x isnil msg causes :
  contract s x = Some (isnil, msg, causes) ->
  match result_of s x with
  | None => isnil = true
  | Some e => isnil = false /\ err_msg e = msg /\ def_unwrap e = causes /\
              forall c, In c causes -> reach_sub c e
  end.
Proof.
  unfold result_of. destruct x; cbn [contract step]; try discriminate; intros E;
    unfold add_err; cbn [s_errs]; rewrite last_app1.
  - inversion E; subst. cbn. repeat split. intros c [].
  - inversion E; subst. cbn. repeat split. intros c [].
  - destruct (get_err s c) as [e|]; inversion E; subst; cbn; [|reflexivity].
    repeat split. intros c0 [<-|[]]. apply reach_sub_def.
  - destruct (get_err s c) as [e|]; inversion E; subst; cbn; [|reflexivity].
    repeat split. intros c0 [<-|[]]. apply reach_sub_def.
  - unfold c_join. destruct (somes (map (get_err s) cs)) as [|c1 [|c2 r]] eqn:S; inversion E; subst; cbn [new_error].
    + reflexivity.
    + repeat split. intros c0 [<-|[]]. apply reach_sub_def.
    + repeat split. intros c0 Hin. now apply reach_sub_joined.
Qed.
