From Coq Require Import Sorting.Sorted Sorting.Permutation.
From Errdef Require Import Base.Str Model.Core Model.GoErrors Model.Prog Check.C03 Check.C20 Proofs.C03Proofs.

Definition entry := (key * (fval * nat))%type.
Definition e_id (e : entry) : N := k_id (fst e).
Definition e_idx (e : entry) : nat := snd (snd e).

(* the invariant of every native fields value *)
Definition wf_fields (f : fields) : Prop :=
  NoDup (map e_id (f_data f)) /\
  StronglySorted lt (map e_idx (f_data f)) /\
  Forall (fun e => e_idx e <= f_last f) (f_data f).

Lemma wf_empty : wf_fields fields_empty.
Proof. repeat split; constructor. Qed.

Lemma remove_in k l e : In e (f_remove k l) -> In e l /\ e_id e <> k_id k.
Proof.
  unfold f_remove. rewrite filter_In. intros [H1 H2]. split; [exact H1|].
  unfold key_eqb in H2. apply negb_true_iff in H2. now apply N.eqb_neq in H2.
Qed.

Lemma NoDup_map_filter {A B} (g : A -> B) p l : NoDup (map g l) -> NoDup (map g (filter p l)).
Proof.
  induction l as [|x r IH]; cbn; intros H; [constructor|]. inversion H; subst.
  destruct (p x); cbn; [constructor|]; auto.
  intros Hin. apply H2. apply in_map_iff in Hin as [y [E Hy]]. apply filter_In in Hy as [Hy _].
  apply in_map_iff. now exists y.
Qed.

Lemma SSorted_map_filter {A} (g : A -> nat) p l :
  StronglySorted lt (map g l) -> StronglySorted lt (map g (filter p l)).
Proof.
  induction l as [|x r IH]; cbn; intros H; [constructor|]. inversion H; subst.
  destruct (p x); cbn; [constructor|]; auto.
  apply Forall_forall. intros y Hy. apply in_map_iff in Hy as [z [E Hz]]. apply filter_In in Hz as [Hz _].
  rewrite Forall_forall in H3. apply H3. apply in_map_iff. now exists z.
Qed.

Lemma SSorted_app_last l x : StronglySorted lt l -> Forall (fun y => y < x) l -> StronglySorted lt (l ++ [x]).
Proof.
  induction l as [|y r IH]; cbn; intros H F; [repeat constructor|].
  inversion H; subst. inversion F; subst. constructor; [now apply IH|].
  apply Forall_app. split; [assumption|now constructor].
Qed.

Lemma NoDup_app_single {A} (l : list A) x : NoDup l -> ~ In x l -> NoDup (l ++ [x]).
Proof.
  induction l as [|y r IH]; cbn; intros N1 N2.
  - constructor; [intros []|constructor].
  - inversion N1; subst. constructor.
    + intros Hin. apply in_app_or in Hin as [Hin|[E|[]]]; [contradiction|]. apply N2. now left.
    + apply IH; [assumption|]. intros Hin. apply N2. now right.
Qed.

Lemma wf_set k v f : wf_fields f -> wf_fields (f_set k v f).
Proof.
  intros [Hn [Hs Hb]]. unfold f_set. repeat split; cbn [f_data f_last].
  - rewrite map_app. cbn [map]. change (e_id (k, (v, S (f_last f)))) with (k_id k).
    assert (N1 : NoDup (map e_id (f_remove k (f_data f)))) by now apply NoDup_map_filter.
    assert (N2 : ~ In (k_id k) (map e_id (f_remove k (f_data f)))).
    { intros Hin. apply in_map_iff in Hin as [e [E He]]. apply remove_in in He as [_ Hne]. congruence. }
    now apply NoDup_app_single.
  - rewrite map_app. cbn. apply SSorted_app_last; [now apply SSorted_map_filter|].
    apply Forall_forall. intros y Hy. apply in_map_iff in Hy as [e [E He]]. apply remove_in in He as [He _].
    rewrite Forall_forall in Hb. specialize (Hb e He). subst y. lia.
  - apply Forall_app. split.
    + apply Forall_forall. intros e He. apply remove_in in He as [He _].
      rewrite Forall_forall in Hb. specialize (Hb e He). lia.
    + constructor; [cbn; lia|constructor].
Qed.

Lemma wf_apply_opt d o : wf_fields (d_fields d) -> wf_fields (d_fields (apply_opt d o)).
Proof. destruct o; cbn; try tauto. apply wf_set. Qed.

Lemma wf_apply_opts os : forall d, wf_fields (d_fields d) -> wf_fields (d_fields (apply_opts d os)).
Proof. unfold apply_opts. induction os as [|o r IH]; intros d H; cbn; [exact H|]. apply IH. now apply wf_apply_opt. Qed.

(* sorting a list that is already in index order changes nothing *)
Lemma ins_sorted e l : Forall (fun x => e_idx x < e_idx e) l -> ins_by_idx e l = l ++ [e].
Proof.
  induction l as [|x r IH]; intros F; [reflexivity|]. inversion F; subst. cbn.
  fold (e_idx e) (e_idx x). destruct (Nat.leb_spec (e_idx e) (e_idx x)); [lia|]. now rewrite IH.
Qed.

Lemma sort_sorted_rev l : StronglySorted lt (map e_idx l) -> sort_by_idx l = l.
Proof.
  unfold sort_by_idx. induction l as [|x r IH]; intros H; [reflexivity|]. cbn in *. inversion H; subst.
  rewrite IH by assumption. destruct r as [|y r']; [reflexivity|]. cbn.
  fold (e_idx x) (e_idx y). inversion H3; subst. destruct (Nat.leb_spec (e_idx x) (e_idx y)); [reflexivity|lia].
Qed.

Lemma all_is_data f : wf_fields f -> f_all f = map (fun e : entry => (fst e, fst (snd e))) (f_data f).
Proof. intros [_ [Hs _]]. unfold f_all. now rewrite sort_sorted_rev. Qed.

(* ---------- coherence of the accessors ---------- *)
Lemma find_nodup (l : list entry) e :
  NoDup (map e_id l) -> In e l -> find (fun x => key_eqb (fst x) (fst e)) l = Some e.
Proof.
  induction l as [|x r IH]; intros N Hin; [contradiction|]. cbn in *. inversion N; subst.
  destruct Hin as [->|Hin].
  - now rewrite key_eqb_refl.
  - destruct (key_eqb (fst x) (fst e)) eqn:E; [|now apply IH].
    exfalso. apply H1. unfold key_eqb in E. apply N.eqb_eq in E. apply in_map_iff. exists e. split; [now symmetry|exact Hin].
Qed.

Theorem native_coherent f : wf_fields f ->
  f_len f = List.length (f_all f) /\
  (f_is_zero f = true <-> f_len f = 0) /\
  (forall k v, In (k, v) (f_all f) -> f_get f k = Some v /\ In k (f_find_keys f (k_name k))) /\
  (forall n k, In k (f_find_keys f n) -> k_name k = n /\ exists v, In (k, v) (f_all f)) /\
  (forall k, ~ In (k_id k) (map (fun kv : key * fval => k_id (fst kv)) (f_all f)) -> f_get f k = None).
Proof.
  intros Hwf. pose proof Hwf as [Hn [Hs Hb]]. rewrite (all_is_data f Hwf). repeat split.
  - unfold f_len. now rewrite map_length.
  - unfold f_is_zero, f_len. intros H. now apply Nat.eqb_eq in H.
  - unfold f_is_zero, f_len. intros H. now apply Nat.eqb_eq.
  - apply in_map_iff in H as [e [E He]]. inversion E; subst. unfold f_get.
    rewrite (find_nodup _ e Hn He). reflexivity.
  - apply in_map_iff in H as [e [E He]]. inversion E; subst. unfold f_find_keys.
    apply in_map_iff. exists e. split; [reflexivity|]. apply filter_In. split; [exact He|apply str_eqb_refl].
  - unfold f_find_keys in H. apply in_map_iff in H as [e [E He]]. apply filter_In in He as [_ Hm].
    subst k. now apply str_eqb_eq in Hm.
  - unfold f_find_keys in H. apply in_map_iff in H as [e [E He]]. apply filter_In in He as [He _].
    exists (fst (snd e)). apply in_map_iff. exists e. split; [subst k; reflexivity|exact He].
  - intros k Hno. unfold f_get. destruct (find _ (f_data f)) as [e|] eqn:F; [|reflexivity].
    apply find_some in F as [He Hk]. exfalso. apply Hno. rewrite map_map. apply in_map_iff. exists e.
    split; [|exact He]. cbn. unfold key_eqb in Hk. now apply N.eqb_eq in Hk.
Qed.

(* ---------- All() lists the keys in the order they were last written ---------- *)
Definition proj (e : entry) : N * string := (k_id (fst e), fv_repr (fst (snd e))).

Definition set_opt (f : fields) (o : opt) : fields :=
  match o with OField k v => f_set k v f | _ => f end.

Lemma fields_apply_opts os : forall d, d_fields (apply_opts d os) = fold_left set_opt os (d_fields d).
Proof.
  unfold apply_opts. induction os as [|o r IH]; intros d; cbn; [reflexivity|]. rewrite IH. destruct o; reflexivity.
Qed.

Lemma filter_filter {A} (p q : A -> bool) l : filter p (filter q l) = filter (fun x => q x && p x) l.
Proof. induction l as [|x r IH]; cbn; [reflexivity|]. destruct (q x); cbn; [destruct (p x); cbn; now rewrite IH|exact IH]. Qed.

Lemma data_fold os : forall f,
  map proj (f_data (fold_left set_opt os f))
  = map proj (filter (fun e => negb (existsb (writes_key (e_id e)) os)) (f_data f)) ++ write_order os.
Proof.
  induction os as [|o r IH]; intros f.
  - cbn. rewrite app_nil_r. f_equal. induction (f_data f) as [|x l IHl]; cbn; [reflexivity|now rewrite IHl at 1].
  - cbn [fold_left]. rewrite IH. destruct o as [k v| | | | | | | |]; cbn [set_opt existsb writes_key write_order orb];
      try reflexivity.
    unfold f_set at 1. cbn [f_data]. rewrite filter_app, map_app. unfold f_remove. rewrite filter_filter. cbn [filter].
    change (e_id (k, (v, S (f_last f)))) with (k_id k).
    assert (E : filter (fun x : key * (fval * nat) => negb (key_eqb (fst x) k) && negb (existsb (writes_key (e_id x)) r)) (f_data f)
              = filter (fun e : entry => negb ((k_id k =? e_id e)%N || existsb (writes_key (e_id e)) r)) (f_data f)).
    { apply filter_ext. intros e. unfold key_eqb, e_id. rewrite negb_orb. f_equal. f_equal. apply N.eqb_sym. }
    rewrite E. destruct (existsb (writes_key (k_id k)) r); cbn; [now rewrite app_nil_r|].
    rewrite <- app_assoc. reflexivity.
Qed.

Theorem all_is_write_order a org kind os :
  map (fun kv => (k_id (fst kv), fv_repr (snd kv))) (f_all (d_fields (define a org kind os))) = write_order os.
Proof.
  assert (W : wf_fields (d_fields (define a org kind os))) by (apply wf_apply_opts, wf_empty).
  rewrite (all_is_data _ W), map_map. unfold define. rewrite fields_apply_opts.
  change (fun x : entry => (k_id (fst (fst x, fst (snd x))), fv_repr (snd (fst x, fst (snd x))))) with proj.
  rewrite data_fold. reflexivity.
Qed.

(* ---------- the order does not depend on how the map is iterated ---------- *)
Lemma ins_comm e e' l : e_idx e <> e_idx e' ->
  ins_by_idx e (ins_by_idx e' l) = ins_by_idx e' (ins_by_idx e l).
Proof.
  intros H. unfold e_idx in H. induction l as [|x r IH]; cbn.
  - destruct (Nat.leb_spec (snd (snd e)) (snd (snd e'))); destruct (Nat.leb_spec (snd (snd e')) (snd (snd e)));
      try reflexivity; lia.
  - destruct (Nat.leb_spec (snd (snd e')) (snd (snd x))); destruct (Nat.leb_spec (snd (snd e)) (snd (snd x))); cbn;
      repeat match goal with |- context [Nat.leb ?a ?b] => destruct (Nat.leb_spec a b) end;
      try reflexivity; try lia. now rewrite IH.
Qed.

Theorem order_independent_of_iteration l l' :
  Permutation l l' -> NoDup (map e_idx l) -> sort_by_idx l = sort_by_idx l'.
Proof.
  unfold sort_by_idx. intros P. induction P as [|x l l' P IH|x y l|l l' l'' P1 IH1 P2 IH2]; intros N; cbn.
  - reflexivity.
  - inversion N; subst. now rewrite IH.
  - apply ins_comm. inversion N; subst. cbn in H1. intros E. apply H1. left. now symmetry.
  - rewrite IH1 by assumption. apply IH2.
    eapply Permutation_NoDup; [|exact N]. now apply Permutation_map.
Qed.

Lemma wf_nodup_idx f : wf_fields f -> NoDup (map e_idx (f_data f)).
Proof.
  intros [_ [Hs _]]. induction Hs as [|a l Hs IH F]; constructor; [|exact IH].
  intros Hin. rewrite Forall_forall in F. specialize (F a Hin). lia.
Qed.

(* ---------- every fields value a program can produce satisfies the invariant ---------- *)
Definition wf_all (s : st) : Prop := forall d, In d (s_defs s) -> wf_fields (d_fields d).

Lemma wf_get_def s i : wf_all s -> wf_fields (d_fields (get_def s i)).
Proof.
  intros H. unfold get_def. destruct (Nat.lt_ge_cases i (List.length (s_defs s))) as [L|L].
  - apply H. now apply nth_In.
  - rewrite nth_overflow by exact L. apply wf_apply_opts, wf_empty.
Qed.

Lemma wf_all_step s x : wf_all s -> wf_all (step s x).
Proof.
  intros H. destruct x; cbn [step]; try exact H;
    try (intros d0 Hd; cbn [add_def s_defs] in Hd; apply in_app_or in Hd as [Hd|[<-|[]]]; [now apply H|]).
  - apply wf_apply_opts, wf_empty.
  - unfold with_. destruct (get_ctx s ctx); [destruct os|]; try exact (wf_get_def s d H);
      repeat apply wf_apply_opts; exact (wf_get_def s d H).
  - unfold with_options. destruct os; [exact (wf_get_def s d H)|]. apply wf_apply_opts. exact (wf_get_def s d H).
  - now destruct (c_recover s f c stk).
  - now destruct (get_err s (Some c)).
Qed.

Theorem native_inv p : wf_all (run p).
Proof.
  unfold run. assert (H : wf_all st0) by (intros d []).
  revert H. generalize st0. induction p as [|x r IH]; intros s H; [exact H|]. cbn. apply IH. now apply wf_all_step.
Qed.
