(* The JSON step on typed scalar field values (Model/JsonVal.v) composed with the binding rules
   (Model/Convert.v): what C09 ("same values through the original typed extractors") and C12
   ("n is a fixpoint") need per field.  The only stdlib behaviour assumed is the strconv contract
   on float32 stated as the Section hypothesis [reparse32_ok]; everything else is computed/proved
   with Flocq. *)
From Coq Require Import ZArith Reals Bool Lia Eqdep_dec.
From Flocq Require Import Core IEEE754.BinarySingleNaN.
From Flocq Require IEEE754.Binary IEEE754.Bits.
From Errdef Require Import Base.Str Base.Outcome Model.Convert Model.JsonVal Check.C11 Proofs.C11Proofs.
Local Open Scope Z_scope.

Lemma bool_proof_irr (b : bool) (p q : b = true) : p = q.
Proof. apply UIP_dec. apply Bool.bool_dec. Qed.

Lemma fdec_of_inj {p e} emin (g g' : binary_float p e) : fdec_of emin g = fdec_of emin g' -> g = g'.
Proof.
  destruct g as [s|s| |s m ex H], g' as [s'|s'| |s' m' ex' H']; cbn; intros E; try discriminate; try (inversion E; subst; reflexivity).
  inversion E; subst. f_equal. apply bool_proof_irr.
Qed.

Lemma f64_of_bits_of_f64 (g : b64) : f64_of_bits (bits_of_f64 g) = g.
Proof. apply (fdec_of_inj (-1074)). rewrite <- dec64_spec. apply dec64_bits_of_f64. Qed.
Lemma f32_of_bits_of_f32 (g : b32) : f32_of_bits (bits_of_f32 g) = g.
Proof. apply (fdec_of_inj (-149)). rewrite <- dec32_spec. apply dec32_bits_of_f32. Qed.

Lemma two64_bpow : IZR two64 = bpow radix2 64.
Proof. rewrite bpow_IZR by lia. reflexivity. Qed.

(* the float64 nearest to an integer of at most 64 bits (encoding/json parses the decimal text
   of an int64 / uint64 with strconv.ParseFloat: correctly rounded) *)
Lemma int_to_f64_correct z : Z.abs z <= two64 ->
  is_finite (i64_to_f64 z) = true /\
  B2R (i64_to_f64 z) = round radix2 fexp64 ZnearestE (IZR z).
Proof.
  intros Hz. unfold i64_to_f64.
  pose proof (binary_normalize_correct 53 1024 eq_refl eq_refl mode_NE z 0 false) as H. cbv zeta in H.
  rewrite F2R_int in H.
  change (SpecFloat.fexp 53 1024) with fexp64 in H. change (round_mode mode_NE) with ZnearestE in H.
  rewrite Rlt_bool_true in H.
  - destruct H as [H1 [H2 H3]]. split; assumption.
  - apply Rle_lt_trans with (bpow radix2 64); [|apply bpow_lt; lia].
    apply abs_round_le_generic; auto with typeclass_instances.
    + apply FLT_exp_valid. reflexivity.
    + apply generic_format_FLT_bpow; [reflexivity|lia].
    + rewrite <- two64_bpow, <- abs_IZR. apply IZR_le. lia.
Qed.

Lemma int_kind_bounds k : is_int_kind k = true -> - two64 <= int_min k /\ int_max k <= two64.
Proof. destruct k; try discriminate; intros _; cbn; unfold two64, two63, two7, two8, two15, two16, two31, two32; lia. Qed.


(* an integer that is a float64 value binds, after the JSON step, to itself *)
Lemma int_rebinds k z : is_int_kind k = true -> int_min k <= z <= int_max k ->
  generic_format radix2 fexp64 (IZR z) ->
  conv_f64 k (bits_of_f64 (i64_to_f64 z)) = Some (SInt z).
Proof.
  intros Hk Hr Hf. destruct (int_kind_bounds k Hk) as [B1 B2].
  destruct (int_to_f64_correct z ltac:(lia)) as [Hfin Hv].
  apply f64_to_int_complete; try assumption; rewrite f64_of_bits_of_f64; [exact Hfin|].
  rewrite Hv. apply round_generic; auto with typeclass_instances.
Qed.

Lemma format_two63 : generic_format radix2 fexp64 (IZR two63).
Proof. rewrite two63_bpow. apply generic_format_FLT_bpow; [reflexivity|lia]. Qed.

(* C12 direction: whatever integer a JSON number was bound to, the number that integer marshals to
   binds to the same integer again - including the two boundary values of K6 *)
Lemma int_binding_idempotent k bits z : is_int_kind k = true ->
  conv_f64 k bits = Some (SInt z) -> conv_f64 k (bits_of_f64 (i64_to_f64 z)) = Some (SInt z).
Proof.
  intros Hk H. rewrite (conv_f64_int_spec k bits Hk) in H. cbv zeta in H.
  set (f := f64_of_bits bits) in *.
  destruct (is_integral f) eqn:Hi; [|discriminate]. cbn [andb] in H.
  destruct (Z.leb_spec (int_min k) (to_Z f)) as [Hlo|]; [|discriminate].
  destruct (Z.leb_spec (to_Z f) (fmax k)) as [Hhi|]; [|discriminate]. cbn [andb] in H.
  inversion H as [Hz]. clear H.
  destruct (Z_le_gt_dec (to_Z f) (int_max k)) as [Hin|Hout].
  - rewrite amd64_in_range by (auto; lia).
    apply int_rebinds; [assumption|lia|].
    rewrite <- (to_Z_correct f Hi). apply generic_format_B2R.
  - (* the K6 boundary: to_Z f = int_max k + 1 for a 64-bit kind *)
    rewrite (fmax_slack k Hk) in Hhi.
    assert (E : to_Z f = int_max k + 1) by (destruct k; try discriminate; cbn [slack] in Hhi; lia).
    rewrite E.
    destruct k; try discriminate; cbn [slack] in Hhi; try lia; vm_compute; reflexivity.
Qed.

Lemma int_small_rebinds k z : is_int_kind k = true -> int_min k <= z <= int_max k -> Z.abs z <= two53 ->
  conv_f64 k (bits_of_f64 (i64_to_f64 z)) = Some (SInt z).
Proof.
  intros Hk Hr Hs. apply int_rebinds; try assumption.
  apply (small_int_format 53 (-1074) ltac:(lia)); [lia|]. change (2 ^ 53) with two53. exact Hs.
Qed.

(* a float64 above MaxFloat32 in magnitude that still rounds to a finite float32 rounds to +-MaxFloat32 *)
Lemma f64_to_f32_big (f : b64) : is_finite f = true -> (IZR max_float32_Z < Rabs (B2R f))%R ->
  is_finite (f64_to_f32 f) = true -> (IZR max_float32_Z <= Rabs (B2R (f64_to_f32 f)))%R.
Proof.
  destruct f as [s| s | | s m e He]; try discriminate; intros _ Hgt Hfin.
  - exfalso. cbn in Hgt. rewrite Rabs_R0 in Hgt. apply (Rlt_irrefl 0). apply Rle_lt_trans with (2 := Hgt).
    apply IZR_le. unfold max_float32_Z. lia.
  - unfold f64_to_f32 in *.
    pose proof (binary_normalize_correct 24 128 eq_refl eq_refl mode_NE (if s then Z.neg m else Z.pos m) e s) as H.
    cbv zeta in H.
    assert (Hx : F2R (Float radix2 (if s then Z.neg m else Z.pos m) e) = B2R (B754_finite s m e He)).
    { unfold B2R. destruct s; reflexivity. }
    rewrite Hx in H.
    change (SpecFloat.fexp 24 128) with fexp32 in H. change (round_mode mode_NE) with ZnearestE in H.
    destruct (Rlt_bool (Rabs (round radix2 fexp32 ZnearestE (B2R (B754_finite s m e He)))) (bpow radix2 128)).
    + destruct H as [H1 _]. rewrite H1.
      apply abs_round_ge_generic; auto with typeclass_instances.
      * apply FLT_exp_valid. reflexivity.
      * apply max32_format.
      * apply Rlt_le. exact Hgt.
    + exfalso. set (z := binary_normalize 24 128 eq_refl eq_refl mode_NE (if s then Z.neg m else Z.pos m) e s) in *.
      destruct z; cbn in H, Hfin; try discriminate.
Qed.

Lemma bits_of_f32_of_bits b : 0 <= b < two32 -> is_nan_f (f32_of_bits b) = false -> bits_of_f32 (f32_of_bits b) = b.
Proof.
  intros Hb Hn. unfold f32_of_bits in *.
  rewrite <- (Bits.bits_of_binary_float_of_bits 23 8 eq_refl eq_refl eq_refl b) at 2 by exact Hb.
  fold (Bits.b32_of_bits b). destruct (Bits.b32_of_bits b); try reflexivity. discriminate.
Qed.
Lemma bits_of_f64_of_bits b : 0 <= b < two64 -> is_nan_f (f64_of_bits b) = false -> bits_of_f64 (f64_of_bits b) = b.
Proof.
  intros Hb Hn. unfold f64_of_bits in *.
  rewrite <- (Bits.bits_of_binary_float_of_bits 52 11 eq_refl eq_refl eq_refl b) at 2 by exact Hb.
  fold (Bits.b64_of_bits b). destruct (Bits.b64_of_bits b); try reflexivity. discriminate.
Qed.

Section Reparse.
Variable reparse32 : Z -> Z.
(* strconv contract: the shortest decimal text of a finite float32, parsed as a float64, is a finite
   float64 that rounds back to that float32 *)
Hypothesis reparse32_ok : forall b, is_finite (f32_of_bits b) = true ->
  is_finite (f64_of_bits (reparse32 b)) = true /\ f64_to_f32 (f64_of_bits (reparse32 b)) = f32_of_bits b.

Lemma f32_rebinds b : 0 <= b < two32 -> is_finite (f32_of_bits b) = true ->
  (Rabs (B2R (f32_of_bits b)) < IZR max_float32_Z)%R ->
  conv_f64 KFloat32 (reparse32 b) = Some (SF32 b).
Proof.
  intros Hb Hfin Hlt. destruct (reparse32_ok b Hfin) as [Gf Gr].
  rewrite conv_f64_f32_spec. cbv zeta. set (g := f64_of_bits (reparse32 b)) in *.
  assert (Hle : Rlt_bool (IZR max_float32_Z) (Rabs (B2R g)) = false).
  { apply Rlt_bool_false. destruct (Rle_or_lt (Rabs (B2R g)) (IZR max_float32_Z)) as [H|H]; [exact H|exfalso].
    pose proof (f64_to_f32_big g Gf H) as Hb2. rewrite Gr in Hb2. specialize (Hb2 Hfin).
    apply (Rlt_irrefl (IZR max_float32_Z)). apply Rle_lt_trans with (1 := Hb2). exact Hlt. }
  assert (Hbits : bits_of_f32 (f64_to_f32 g) = b).
  { rewrite Gr. apply bits_of_f32_of_bits; [exact Hb|]. destruct (f32_of_bits b); try discriminate; reflexivity. }
  destruct g; try discriminate; rewrite Hle, Hbits; reflexivity.
Qed.
End Reparse.

(* ---------- tryConvertFieldValue on what a JSON document decodes to ---------- *)
Lemma try_convert_f64 t b : N.eqb (s_id t) 13 = false ->
  try_convert (FScalar t) (DS ty_float64 (SF64 b)) =
  match conv_f64 (s_kind t) b with
  | Some v => Ok (Some (BScalar t v))
  | None => Ok None
  end.
Proof.
  intros Hid. unfold try_convert. cbn [dval_ty fty_id ty_float64 s_id].
  rewrite N.eqb_sym, Hid. cbn [is_f64_val ty_float64 s_id N.eqb Pos.eqb]. cbn -[conv_f64].
  destruct (conv_f64 (s_kind t) b) eqn:E; cbn [opt_bscalar option_map]; [reflexivity|].
  destruct (skind_eqb (s_kind t) KFloat64) eqn:K; [|reflexivity].
  apply skind_eqb_eq in K. rewrite K in E. discriminate.
Qed.

Lemma try_convert_same t v : try_convert (FScalar t) (DS t v) = Ok (Some (BSame (DS t v))).
Proof. unfold try_convert. cbn [dval_ty fty_id]. rewrite N.eqb_refl. reflexivity. Qed.

Lemma try_convert_samekind t vt v : N.eqb (s_id vt) (s_id t) = false ->
  is_f64_val (DS vt v) = None -> is_i64_val (DS vt v) = None -> skind_eqb (s_kind t) (s_kind vt) = true ->
  try_convert (FScalar t) (DS vt v) = Ok (Some (BScalar t v)).
Proof.
  intros Hid H1 H2 Hk. unfold try_convert. cbn [dval_ty fty_id]. rewrite Hid, H1, H2, Hk. reflexivity.
Qed.

Section RoundTrip.
Variable reparse32 : Z -> Z.
Hypothesis reparse32_ok : forall b, is_finite (f32_of_bits b) = true ->
  is_finite (f64_of_bits (reparse32 b)) = true /\ f64_to_f32 (f64_of_bits (reparse32 b)) = f32_of_bits b.

(* the domain of the round trip (C09): integers that a float64 holds exactly, and every float32
   except +-MaxFloat32 (finding K9: its shortest decimal text 3.4028235e+38 parses to a float64
   ABOVE MaxFloat32, which the binding declines) *)
Definition rt_dom (v : sval) : Prop :=
  match v with
  | SInt z => Z.abs z <= two53
  | SF32 b => (Rabs (B2R (f32_of_bits b)) < IZR max_float32_Z)%R
  | _ => True
  end.

Theorem scalar_value_roundtrip t v :
  sty_wf t = true -> val_of_type t v = true -> rt_dom v ->
  exists d b, redecode reparse32 v = Some d /\ try_convert (FScalar t) d = Ok (Some b) /\ bval_scalar b = Some v.
Proof.
  intros Hwf Hv Hd. unfold sty_wf in Hwf. apply andb_prop in Hwf. destruct Hwf as [Hwf W14].
  apply andb_prop in Hwf. destruct Hwf as [W13 W1].
  destruct t as [id k]. cbn [s_id s_kind] in *.
  unfold val_of_type in Hv. cbn [s_kind] in Hv.
  destruct v as [b|s|z|b|b].
  - (* bool *) destruct k; try discriminate. cbn [redecode].
    destruct (N.eqb id 14) eqn:E.
    + apply N.eqb_eq in E. subst id. exists (DS ty_bool (SBool b)), (BSame (DS ty_bool (SBool b))).
      split; [reflexivity|]. split; [apply (try_convert_same ty_bool)|reflexivity].
    + exists (DS ty_bool (SBool b)), (BScalar {| s_id := id; s_kind := KBool |} (SBool b)).
      split; [reflexivity|]. split; [|reflexivity].
      apply try_convert_samekind; try reflexivity. cbn [s_id ty_bool ty_string]. now rewrite N.eqb_sym.
  - (* string *) destruct k; try discriminate. cbn [redecode].
    destruct (N.eqb id 1) eqn:E.
    + apply N.eqb_eq in E. subst id. exists (DS ty_string (SStr s)), (BSame (DS ty_string (SStr s))).
      split; [reflexivity|]. split; [apply (try_convert_same ty_string)|reflexivity].
    + exists (DS ty_string (SStr s)), (BScalar {| s_id := id; s_kind := KString |} (SStr s)).
      split; [reflexivity|]. split; [|reflexivity].
      apply try_convert_samekind; try reflexivity. cbn [s_id ty_bool ty_string]. now rewrite N.eqb_sym.
  - (* integer kinds *)
    assert (Hk : is_int_kind k = true /\ int_min k <= z <= int_max k).
    { destruct k; try discriminate; cbn [is_intk is_signed is_unsigned orb andb] in Hv;
        apply andb_prop in Hv; destruct Hv as [A B]; apply Z.leb_le in A; apply Z.leb_le in B; (split; [reflexivity|lia]). }
    destruct Hk as [Hk Hr]. cbn [redecode rt_dom] in *.
    assert (E13 : N.eqb id 13 = false).
    { destruct (N.eqb id 13); [|reflexivity]. cbn [negb orb] in W13. destruct k; discriminate. }
    exists (DS ty_float64 (SF64 (bits_of_f64 (i64_to_f64 z)))), (BScalar {| s_id := id; s_kind := k |} (SInt z)).
    split; [reflexivity|]. split; [|reflexivity].
    rewrite try_convert_f64 by exact E13. cbn [s_kind].
    rewrite (int_small_rebinds k z Hk Hr Hd). reflexivity.
  - (* float32 *) destruct k; try discriminate.
    apply andb_prop in Hv. destruct Hv as [Hv Hfin]. apply andb_prop in Hv. destruct Hv as [B0 B1].
    apply Z.leb_le in B0. apply Z.ltb_lt in B1. cbn [redecode rt_dom] in *. rewrite Hfin.
    assert (E13 : N.eqb id 13 = false).
    { destruct (N.eqb id 13); [|reflexivity]. discriminate. }
    exists (DS ty_float64 (SF64 (reparse32 b))), (BScalar {| s_id := id; s_kind := KFloat32 |} (SF32 b)).
    split; [reflexivity|]. split; [|reflexivity].
    rewrite try_convert_f64 by exact E13. cbn [s_kind].
    rewrite (f32_rebinds reparse32 reparse32_ok b (conj B0 B1) Hfin Hd). reflexivity.
  - (* float64 *) destruct k; try discriminate.
    apply andb_prop in Hv. destruct Hv as [_ Hfin]. cbn [redecode]. rewrite Hfin.
    destruct (N.eqb id 13) eqn:E.
    + apply N.eqb_eq in E. subst id. exists (DS ty_float64 (SF64 b)), (BSame (DS ty_float64 (SF64 b))).
      split; [reflexivity|]. split; [apply (try_convert_same ty_float64)|reflexivity].
    + exists (DS ty_float64 (SF64 b)), (BScalar {| s_id := id; s_kind := KFloat64 |} (SF64 b)).
      split; [reflexivity|]. split; [|reflexivity].
      rewrite try_convert_f64 by exact E. reflexivity.
Qed.
End RoundTrip.

Section FixP.
Variable reparse32 : Z -> Z.
Hypothesis reparse32_ok : forall b, is_finite (f32_of_bits b) = true ->
  is_finite (f64_of_bits (reparse32 b)) = true /\ f64_to_f32 (f64_of_bits (reparse32 b)) = f32_of_bits b.

Lemma f32_rebinds_g (g : b32) : is_finite g = true -> (Rabs (B2R g) < IZR max_float32_Z)%R ->
  conv_f64 KFloat32 (reparse32 (bits_of_f32 g)) = Some (SF32 (bits_of_f32 g)).
Proof.
  intros Hfin Hlt. pose proof (reparse32_ok (bits_of_f32 g)) as H. rewrite f32_of_bits_of_f32 in H.
  destruct (H Hfin) as [Gf Gr]. clear H.
  rewrite conv_f64_f32_spec. cbv zeta. set (gg := f64_of_bits (reparse32 (bits_of_f32 g))) in *.
  assert (Hle : Rlt_bool (IZR max_float32_Z) (Rabs (B2R gg)) = false).
  { apply Rlt_bool_false. destruct (Rle_or_lt (Rabs (B2R gg)) (IZR max_float32_Z)) as [H|H]; [exact H|exfalso].
    pose proof (f64_to_f32_big gg Gf H) as Hb2. rewrite Gr in Hb2. specialize (Hb2 Hfin).
    apply (Rlt_irrefl (IZR max_float32_Z)). apply Rle_lt_trans with (1 := Hb2). exact Hlt. }
  destruct gg; try discriminate; rewrite Hle, Gr; reflexivity.
Qed.

(* what a JSON document decodes a scalar to *)
Definition json_native_scalar (d : dval) : bool :=
  match d with
  | DS t (SF64 _) => N.eqb (s_id t) 13 && skind_eqb (s_kind t) KFloat64
  | DS t (SStr _) => N.eqb (s_id t) 1 && skind_eqb (s_kind t) KString
  | DS t (SBool _) => N.eqb (s_id t) 14 && skind_eqb (s_kind t) KBool
  | _ => false
  end.

Definition not_max32 (v : sval) : Prop :=
  match v with SF32 b => (Rabs (B2R (f32_of_bits b)) < IZR max_float32_Z)%R | _ => True end.

Lemma sty_eta (t : sty) : t = {| s_id := s_id t; s_kind := s_kind t |}.
Proof. destruct t; reflexivity. Qed.

(* C12, per field: the value a JSON scalar was bound to marshals to a JSON scalar that binds to the
   same value again *)
Theorem binding_fixpoint t d b v :
  sty_wf t = true -> json_native_scalar d = true ->
  try_convert (FScalar t) d = Ok (Some b) -> bval_scalar b = Some v -> not_max32 v ->
  forall d', redecode reparse32 v = Some d' ->
  exists b', try_convert (FScalar t) d' = Ok (Some b') /\ bval_scalar b' = Some v.
Proof.
  intros Hwf Hn Hb Hv H32 d' Hd'.
  destruct d as [|vt sv| | |]; try discriminate. destruct vt as [vid vk].
  destruct sv as [bb|s|z|fb|fb]; try discriminate; cbn [json_native_scalar s_id s_kind] in Hn;
    apply andb_prop in Hn; destruct Hn as [Hid Hkd]; apply N.eqb_eq in Hid; apply skind_eqb_eq in Hkd;
    subst vid vk.
  - (* bool: the value is the decoded one *)
    change {| s_id := 14; s_kind := KBool |} with ty_bool in *.
    assert (v = SBool bb /\ d' = DS ty_bool (SBool bb)) as [-> ->].
    { unfold try_convert in Hb. cbn [dval_ty fty_id ty_bool s_id is_f64_val is_i64_val] in Hb.
      destruct (N.eqb 14 (s_id t)); [inversion Hb; subst b; inversion Hv; subst v; split; [reflexivity|cbn in Hd'; now inversion Hd']|].
      cbn in Hb. destruct (skind_eqb (s_kind t) KBool); [|discriminate].
      inversion Hb; subst b; inversion Hv; subst v. split; [reflexivity|cbn in Hd'; now inversion Hd']. }
    exists b. split; assumption.
  - change {| s_id := 1; s_kind := KString |} with ty_string in *.
    assert (v = SStr s /\ d' = DS ty_string (SStr s)) as [-> ->].
    { unfold try_convert in Hb. cbn [dval_ty fty_id ty_string s_id is_f64_val is_i64_val] in Hb.
      destruct (N.eqb 1 (s_id t)); [inversion Hb; subst b; inversion Hv; subst v; split; [reflexivity|cbn in Hd'; now inversion Hd']|].
      cbn in Hb. destruct (skind_eqb (s_kind t) KString); [|discriminate].
      inversion Hb; subst b; inversion Hv; subst v. split; [reflexivity|cbn in Hd'; now inversion Hd']. }
    exists b. split; assumption.
  - (* a JSON number *)
    change {| s_id := 13; s_kind := KFloat64 |} with ty_float64 in *.
    destruct (N.eqb (s_id t) 13) eqn:E13.
    + (* float64 itself *)
      apply N.eqb_eq in E13. unfold try_convert in Hb. cbn [dval_ty fty_id ty_float64 s_id] in Hb.
      rewrite E13 in Hb. cbn in Hb. inversion Hb; subst b. cbn in Hv. inversion Hv; subst v.
      cbn [redecode] in Hd'. destruct (is_finite (f64_of_bits fb)); [|discriminate]. inversion Hd'; subst d'.
      exists (BSame (DS ty_float64 (SF64 fb))). split; [|reflexivity].
      unfold try_convert. cbn [dval_ty fty_id ty_float64 s_id]. rewrite E13. reflexivity.
    + rewrite try_convert_f64 in Hb by exact E13.
      destruct (conv_f64 (s_kind t) fb) as [w|] eqn:Ec; [|discriminate].
      inversion Hb; subst b. cbn in Hv. inversion Hv; subst w. clear Hb Hv.
      destruct (is_int_kind (s_kind t)) eqn:Hk.
      * (* integer target *)
        assert (exists z, v = SInt z) as [z ->].
        { rewrite (conv_f64_int_spec _ _ Hk) in Ec. cbv zeta in Ec.
          destruct (_ && _ && _) in Ec; [|discriminate]. inversion Ec. eauto. }
        cbn [redecode] in Hd'. inversion Hd'; subst d'.
        exists (BScalar t (SInt z)). split; [|reflexivity].
        rewrite try_convert_f64 by exact E13. rewrite (int_binding_idempotent _ _ _ Hk Ec). reflexivity.
      * destruct (s_kind t) eqn:Ek; try discriminate.
        -- (* float32 *)
           rewrite conv_f64_f32_spec in Ec. cbv zeta in Ec.
           set (f := f64_of_bits fb) in *.
           assert (exists g : b32, v = SF32 (bits_of_f32 g) /\ (is_nan_f g = true \/ g = f64_to_f32 f)) as [g [-> Hg]].
           { destruct f as [sg|sg| |sg mm ee HH]; try discriminate.
             - destruct (Rlt_bool _ _); [discriminate|]. injection Ec as Ec.
               exists (f64_to_f32 (B754_zero sg)). split; [symmetry; exact Ec|right; reflexivity].
             - injection Ec as Ec. exists B754_nan. split; [symmetry; exact Ec|left; reflexivity].
             - destruct (Rlt_bool _ _); [discriminate|]. injection Ec as Ec.
               exists (f64_to_f32 (B754_finite sg mm ee HH)). split; [symmetry; exact Ec|right; reflexivity]. }
           cbn [redecode] in Hd'. rewrite f32_of_bits_of_f32 in Hd'.
           destruct (is_finite g) eqn:Hfin; [|discriminate]. inversion Hd'; subst d'.
           cbn [not_max32] in H32. rewrite f32_of_bits_of_f32 in H32.
           exists (BScalar t (SF32 (bits_of_f32 g))). split; [|reflexivity].
           rewrite try_convert_f64 by exact E13. rewrite Ek, (f32_rebinds_g g Hfin H32). reflexivity.
        -- (* named float64 *)
           rewrite conv_f64_gen in Ec. cbn in Ec. inversion Ec; subst v.
           cbn [redecode] in Hd'. destruct (is_finite (f64_of_bits fb)); [|discriminate]. inversion Hd'; subst d'.
           exists (BScalar t (SF64 fb)). split; [|reflexivity].
           rewrite try_convert_f64 by exact E13. rewrite Ek, conv_f64_gen. reflexivity.
Qed.
End FixP.

(* K9: float32 MaxFloat32.  encoding/json writes it as 3.4028235e+38; that text parses to the
   float64 with the bit pattern below, which is ABOVE math.MaxFloat32 (so tryConvertFloat64
   declines it) although it still rounds to MaxFloat32 (so the strconv contract holds for it). *)
Definition reparsed_max32_bits64 : Z := 5183643170655547384.
Lemma max_float32_not_rebound :
  f64_to_f32 (f64_of_bits reparsed_max32_bits64) = f32_of_bits max_float32_bits /\
  is_finite (f64_of_bits reparsed_max32_bits64) = true /\
  conv_f64 KFloat32 reparsed_max32_bits64 = None /\
  try_convert (FScalar {| s_id := 12; s_kind := KFloat32 |}) (DS ty_float64 (SF64 reparsed_max32_bits64)) = Ok None.
Proof.
  assert (E : bits_of_f32 (f64_to_f32 (f64_of_bits reparsed_max32_bits64)) = max_float32_bits) by (vm_compute; reflexivity).
  split.
  - rewrite <- (f32_of_bits_of_f32 (f64_to_f32 (f64_of_bits reparsed_max32_bits64))). now rewrite E.
  - repeat split; vm_compute; reflexivity.
Qed.
