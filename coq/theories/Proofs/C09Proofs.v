From Errdef Require Import Base.Str Base.Outcome Model.Core Model.GoErrors Model.Prog Model.Tree0 Model.Json
  Model.Convert Model.Unmarshal Model.Decode Check.UM Check.C09.

Lemma frame_roundtrip f : decode_frame (frame_json f) = f.
Proof. destruct f. reflexivity. Qed.

Lemma frames_roundtrip fs : map decode_frame (map frame_json fs) = fs.
Proof. induction fs as [|f r IH]; cbn [map]; [reflexivity|]. now rewrite frame_roundtrip, IH. Qed.

(* looking a key up in a document assembled from optional members *)
Lemma jget_cons_eq k v ms : jget k (JObj ((k, v) :: ms)) = Some v.
Proof. cbn. now rewrite str_eqb_refl. Qed.
Lemma jget_cons_ne k k' v ms : str_eqb k' k = false -> jget k (JObj ((k', v) :: ms)) = jget k (JObj ms).
Proof. intros H. cbn. now rewrite H. Qed.

Lemma decode_proj t j u :
  let d := fst (decode t j u) in
  dd_msg d = jstr (jget "message" j) /\ dd_kind d = jstr (jget "kind" j) /\ dd_ty d = jstr (jget "type" j) /\
  dd_stack d = match jget "stack" j with Some (JArr l) => map decode_frame l | _ => [] end /\
  dd_fields d = decode_fields t (jget "fields" j).
Proof.
  destruct j; cbn [decode];
    repeat match goal with |- context [let '(a, b) := ?X in _] => destruct X end; cbn; repeat split; reflexivity.
Qed.

(* the root of a marshaled errdef error decodes to its message, kind and frames *)
Theorem decode_marshal_root t unks e kids doc :
  is_errdef_error e = true -> (match e_def e with Some d => d_json d | None => None end) = None ->
  marshal_tree (T e kids) = Ok doc ->
  let d := fst (decode t doc unks) in
  dd_msg d = err_msg e /\ dd_kind d = e_kind e /\ dd_ty d = "" /\ dd_stack d = e_stack e.
Proof.
  intros He Hj. cbn [marshal_tree]. rewrite He, Hj.
  destruct (match e_fields_all e with [] => Ok None | _ => _ end) as [fj|c|w]; try discriminate;
    destruct (seq_out (map marshal_tree kids)) as [cs|c|w]; try discriminate.
  intros E. inversion E; subst doc; clear E. cbv zeta.
  set (members := (_ ++ _)%list).
  set (full := JObj (("message", JStr (err_msg e)) :: members)).
  assert (Hm : jget "message" full = Some (JStr (err_msg e))) by reflexivity.
  assert (Hk : jstr (jget "kind" full) = e_kind e).
  { unfold full, members. rewrite jget_cons_ne by reflexivity.
    destruct (str_eqb (e_kind e) "") eqn:Ek.
    - apply str_eqb_eq in Ek. rewrite Ek. cbn [app].
      destruct fj; destruct (e_stack e); destruct cs; reflexivity.
    - cbn [app]. now rewrite jget_cons_eq. }
  assert (Ht : jstr (jget "type" full) = "").
  { unfold full, members. destruct (str_eqb (e_kind e) ""); destruct fj; destruct (e_stack e); destruct cs; reflexivity. }
  assert (Hs : match jget "stack" full with Some (JArr l) => map decode_frame l | _ => [] end = e_stack e).
  { unfold full, members. destruct (str_eqb (e_kind e) ""); destruct fj; destruct (e_stack e) as [|f r] eqn:Es; destruct cs;
      try reflexivity; cbn; now rewrite frame_roundtrip, frames_roundtrip. }
  clearbody full.
  destruct (decode_proj t full unks) as [A [B [C [D _]]]]. cbv zeta in *.
  rewrite A, B, C, D, Hm, Hk, Ht, Hs. repeat split; reflexivity.
Qed.

(* ---------- the three classes the unchanged code does not restore (known findings) ---------- *)
Definition d_reg : udef := {| ud_def := define 1000 0 "k1" [ONoTrace]; ud_keys := [] |}.
Definition d_dflt : udef := {| ud_def := define 1001 1 "dflt" [ONoTrace]; ud_keys := [] |}.

(* K3: DefaultResolver + lenient: a kind-less foreign cause is restored as an error of the default definition *)
Theorem default_resolver_cause_refuted :
  let cfg := {| u_defs := [d_reg]; u_default := Some d_dflt; u_strict := false; u_custom := []; u_sentinels := [("*errors.errorString", "EOF", 0%N)] |} in
  let doc := DD "m" "k1" "" [] [] [Some (DD "EOF" "" "*errors.errorString" [] [] [] "")] "" in
  exists e, unmarshal cfg doc = UOk (RErr d_reg "m" [] [] [] [RCErr e]) /\ e = RErr d_dflt "EOF" [] [] [] [].
Proof. cbv zeta. eexists. split; vm_compute; reflexivity. Qed.

(* without a default the same document restores the registered sentinel *)
Theorem sentinel_restored_without_default :
  let cfg := {| u_defs := [d_reg]; u_default := None; u_strict := false; u_custom := []; u_sentinels := [("*errors.errorString", "EOF", 0%N)] |} in
  unmarshal cfg (DD "m" "k1" "" [] [] [Some (DD "EOF" "" "*errors.errorString" [] [] [] "")] "")
  = UOk (RErr d_reg "m" [] [] [] [RCSentinel 0]).
Proof. vm_compute. reflexivity. Qed.

(* K4: a foreign cause with an empty message gets the "<unknown: ...>" rendering, not "" *)
Theorem empty_message_cause_refuted :
  let cfg := {| u_defs := [d_reg]; u_default := None; u_strict := false; u_custom := []; u_sentinels := [] |} in
  unmarshal cfg (DD "m" "k1" "" [] [] [Some (DD "" "" "*main.leafErr" [] [] [] "<unknown: &{...}>")] "")
  = UOk (RErr d_reg "m" [] [] [] [RCUnknown "<unknown: &{...}>" "*main.leafErr" []]).
Proof. vm_compute. reflexivity. Qed.

(* K2: the JSON form "WARN" of a slog.Level field does not bind to the int-kinded key *)
Theorem textmarshaler_field_refuted :
  let lvl := {| uk_key := {| k_id := 501; k_name := "log_level"; k_ty := 130 |}; uk_ty := FScalar {| s_id := 130; s_kind := KInt |} |} in
  let cfg := {| u_defs := [d_reg]; u_default := None; u_strict := false; u_custom := [lvl]; u_sentinels := [] |} in
  let warn := DS {| s_id := 1; s_kind := KString |} (SStr "WARN") in
  unmarshal cfg (DD "m" "k1" "" [("log_level", warn)] [] [] "") = UOk (RErr d_reg "m" [] [("log_level", warn)] [] []).
Proof. vm_compute. reflexivity. Qed.
