From Errdef Require Import Base.Str Base.Outcome Model.Value Model.Resolver Model.ResolverGen Gen.ResolverSrc Proofs.ResolverProofs Check.C14.

Lemma res_eqb_eq a b : res_eqb a b = true <-> a = b.
Proof.
  destruct a, b; cbn; split; intros H; try reflexivity; try discriminate.
  - apply N.eqb_eq in H. now subst.
  - inversion H. apply N.eqb_refl.
Qed.

Lemma rd_get_in d key T v : rd_get d key = Some (T, v) -> In (key, (T, v)) (rd_fields d).
Proof.
  unfold rd_get. destruct (find _ (rd_fields d)) as [[k tv]|] eqn:F; [|discriminate].
  cbn. intros E. inversion E; subst. apply find_some in F as [Hin Hk].
  cbn in Hk. apply N.eqb_eq in Hk. now subst.
Qed.

Lemma fields_okb_defs_ok defs : forallb fields_okb defs = true -> defs_ok defs.
Proof.
  intros H d key T v Hin G. rewrite forallb_forall in H. specialize (H d Hin).
  unfold fields_okb in H. rewrite forallb_forall in H.
  apply rd_get_in in G. now specialize (H _ G).
Qed.

Lemma func_find ds key p :
  resolve_field_func ds key (fun _ v => Ok (eval_pred p v)) = Ok (spec_func ds key p).
Proof.
  unfold spec_func. induction ds as [|d r IH]; [reflexivity|].
  cbn [resolve_field_func find]. destruct (rd_get d key) as [[T v]|]; [|exact IH].
  destruct (eval_pred p v); [reflexivity|exact IH].
Qed.

(* ---------- the interpreters of the generated tables are the transcription, on the current source ---------- *)
Lemma compact_by_identity l : wf_defs l ->
  compact_by (fun a b => N.eqb (rd_id a) (rd_id b)) l = compact l.
Proof.
  induction l as [|x l IH]; intros Hwf; [reflexivity|].
  destruct l as [|y r]; [reflexivity|].
  specialize (IH (wf_tail _ _ Hwf)).
  cbn [compact_by compact_from compact] in *.
  destruct (N.eqb (rd_id x) (rd_id y)) eqn:E.
  - apply N.eqb_eq in E. assert (x = y) by (apply Hwf; [now left|right; now left|exact E]). subst y.
    exact IH.
  - rewrite IH. reflexivity.
Qed.

Lemma g_new_resolver_ref defs : wf_defs defs -> g_new_resolver defs = new_resolver defs.
Proof.
  intros Hwf. unfold g_new_resolver, new_resolver.
  change (cpred_fn new_compact_pred) with (fun a b : rdef => N.eqb (rd_id a) (rd_id b)).
  rewrite (compact_by_identity _ Hwf). reflexivity.
Qed.
Lemma g_resolve_kind_ref r k : g_resolve_kind r k = resolve_kind r k.
Proof. reflexivity. Qed.
Lemma g_resolve_field_func_ref r key eq : g_resolve_field_func r key eq = resolve_field_func (r_defs r) key eq.
Proof. reflexivity. Qed.
Lemma g_resolve_field_ref r key want : g_resolve_field r key want = resolve_field r key want.
Proof. reflexivity. Qed.
Lemma g_resolve_kind_or_default_ref r d k : g_resolve_kind_or_default r d k = resolve_kind_or_default r d k.
Proof. reflexivity. Qed.
Lemma g_resolve_field_or_default_ref r d key want :
  g_resolve_field_or_default r d key want = resolve_field_or_default r d key want.
Proof. reflexivity. Qed.
Lemma g_resolve_field_func_or_default_ref r d key eq :
  g_resolve_field_func_or_default r d key eq = or_default_out d (resolve_field_func (r_defs r) key eq).
Proof. reflexivity. Qed.
Lemma source_shape : source_shape_ok = true.
Proof. reflexivity. Qed.

(* the model computes the specification on the whole domain *)
Lemma model_is_spec c : wf_defs (c_defs c) -> in_domain c = true -> model c = spec c.
Proof.
  intros Hwf Hd. apply andb_true_iff in Hd as [Hf Hl]. apply fields_okb_defs_ok in Hf.
  unfold model, spec. rewrite (g_new_resolver_ref _ Hwf).
  destruct (c_lookup c) as [k|k|key w|key w|key p|key p]; cbn in Hl.
  - rewrite g_resolve_kind_ref. now rewrite resolve_kind_first.
  - rewrite g_resolve_kind_or_default_ref. unfold resolve_kind_or_default. rewrite resolve_kind_first by assumption.
    destruct (spec_kind (c_defs c) k); reflexivity.
  - rewrite g_resolve_field_ref. now rewrite resolve_field_first.
  - rewrite g_resolve_field_or_default_ref. unfold resolve_field_or_default. rewrite resolve_field_first by assumption.
    destruct (spec_field (c_defs c) key w); reflexivity.
  - rewrite g_resolve_field_func_ref. cbn [new_resolver r_defs]. rewrite func_find. unfold spec_func.
    now rewrite find_compact.
  - rewrite g_resolve_field_func_or_default_ref. cbn [new_resolver r_defs]. rewrite func_find. unfold spec_func.
    rewrite find_compact by assumption. cbn [or_default_out res_of_rdef].
    destruct (find _ (c_defs c)); reflexivity.
Qed.

Lemma corr_implies_ok c : wf_defs (c_defs c) -> corr c = true -> ok c = true.
Proof.
  intros Hwf Hc. unfold ok. destruct (in_domain c) eqn:D; [|reflexivity]. cbn.
  unfold corr in Hc. now rewrite <- model_is_spec.
Qed.
