From Errdef Require Import Base.Str Base.Outcome Model.Value Model.Resolver Proofs.ResolverProofs Check.C14.

Lemma res_eqb_eq a b : res_eqb a b = true <-> a = b.
Proof.
  destruct a, b; cbn; split; intros H; try reflexivity; try discriminate.
  - apply N.eqb_eq in H. now subst.
  - inversion H. apply N.eqb_refl.
Qed.

Lemma rd_get_in d key T v : rd_get d key = Some (T, v) -> In (key, (T, v)) (rd_fields d).
Proof.
  unfold rd_get. destruct (find _ (rd_fields d)) as [[k tv]|] eqn:F; [|discriminate].
  cbn. intros E. inversion E; subst. apply find_some in F as [Hin Hk].
  cbn in Hk. apply N.eqb_eq in Hk. now subst.
Qed.

Lemma fields_okb_defs_ok defs : forallb fields_okb defs = true -> defs_ok defs.
Proof.
  intros H d key T v Hin G. rewrite forallb_forall in H. specialize (H d Hin).
  unfold fields_okb in H. rewrite forallb_forall in H.
  apply rd_get_in in G. now specialize (H _ G).
Qed.

Lemma func_find ds key p :
  resolve_field_func ds key (fun _ v => Ok (eval_pred p v)) = Ok (spec_func ds key p).
Proof.
  unfold spec_func. induction ds as [|d r IH]; [reflexivity|].
  cbn [resolve_field_func find]. destruct (rd_get d key) as [[T v]|]; [|exact IH].
  destruct (eval_pred p v); [reflexivity|exact IH].
Qed.

(* the model computes the specification on the whole domain *)
Lemma model_is_spec c : wf_defs (c_defs c) -> in_domain c = true -> model c = spec c.
Proof.
  intros Hwf Hd. apply andb_true_iff in Hd as [Hf Hl]. apply fields_okb_defs_ok in Hf.
  unfold model, spec. destruct (c_lookup c) as [k|k|key w|key w|key p|key p]; cbn in Hl.
  - now rewrite resolve_kind_first.
  - unfold resolve_kind_or_default. rewrite resolve_kind_first by assumption.
    destruct (spec_kind (c_defs c) k); reflexivity.
  - now rewrite resolve_field_first.
  - unfold resolve_field_or_default. rewrite resolve_field_first by assumption.
    destruct (spec_field (c_defs c) key w); reflexivity.
  - cbn [new_resolver r_defs]. rewrite func_find. unfold spec_func.
    now rewrite find_compact.
  - cbn [new_resolver r_defs]. rewrite func_find. unfold spec_func.
    now rewrite find_compact.
Qed.

Lemma corr_implies_ok c : wf_defs (c_defs c) -> corr c = true -> ok c = true.
Proof.
  intros Hwf Hc. unfold ok. destruct (in_domain c) eqn:D; [|reflexivity]. cbn.
  unfold corr in Hc. now rewrite <- model_is_spec.
Qed.
