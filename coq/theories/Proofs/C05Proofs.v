(* C05 - lemmas.  Statements of the property are in Properties/C05.v.
   PARTIAL BY NATURE: the goroutine stack at capture time ([user], the frames
   above the library's own chain) and the symbolisers are inputs of the model;
   runtime.Callers, the inliner and symbolisation are observed by the harness,
   not proved.  What is proved: which entries of that stack an error keeps, for
   every constructor, derivation path and option list, from the GENERATED chain
   and constants (Gen/Chain.v, Gen/Consts.v), and that every view is the same
   list. *)
From Errdef Require Import Base.Str Model.Core Model.Stack Check.C05.
From Errdef Require Gen.Consts Gen.Chain.
Local Open Scope Z_scope.

(* ---------- option folding ---------- *)
Lemma sum_skips_app a b : sum_skips (a ++ b) = sum_skips a + sum_skips b.
Proof. induction a as [|o r IH]; simpl; [reflexivity|]. destruct o; rewrite ?IH; lia. Qed.

Lemma has_notrace_app a b : has_notrace (a ++ b) = has_notrace a || has_notrace b.
Proof. unfold has_notrace. apply existsb_app. Qed.

Lemma last_depth_app a b cur : last_depth (a ++ b) cur = last_depth b (last_depth a cur).
Proof. revert cur. induction a as [|o r IH]; intros cur; simpl; [reflexivity|]. destruct o; apply IH. Qed.

Definition cfg (d : defn) : Z * bool * Z := (d_skip d, d_notrace d, d_depth d).

Lemma apply_opt_cfg d o :
  cfg (apply_opt d o) = (d_skip d + sum_skips [o], d_notrace d || has_notrace [o], last_depth [o] (d_depth d)).
Proof.
  destruct o; unfold cfg; simpl; rewrite ?Z.add_0_r, ?orb_false_r, ?orb_true_r; reflexivity.
Qed.

Lemma apply_opts_cfg os : forall d,
  cfg (apply_opts d os) = (d_skip d + sum_skips os, d_notrace d || has_notrace os, last_depth os (d_depth d)).
Proof.
  induction os as [|o r IH]; intros d.
  - unfold cfg; simpl. now rewrite Z.add_0_r, orb_false_r.
  - change (apply_opts d (o :: r)) with (apply_opts (apply_opt d o) r). rewrite IH.
    pose proof (apply_opt_cfg d o) as H. unfold cfg in H. injection H as H1 H2 H3.
    rewrite H1, H2, H3.
    change (o :: r) with ([o] ++ r). rewrite sum_skips_app, has_notrace_app, last_depth_app.
    destruct o; simpl; rewrite ?Z.add_0_r, ?orb_false_r, ?orb_true_r, ?Z.add_assoc; reflexivity.
Qed.

Lemma apply_opts_cfg_ext os d d' : cfg d = cfg d' -> cfg (apply_opts d os) = cfg (apply_opts d' os).
Proof.
  intros H. rewrite !apply_opts_cfg. unfold cfg in H. injection H as -> -> ->. reflexivity.
Qed.

Lemma apply_opts_app (d : defn) a b : apply_opts d (a ++ b) = apply_opts (apply_opts d a) b.
Proof. unfold apply_opts. apply fold_left_app. Qed.

Lemma clone_cfg a d : cfg (clone a d) = cfg d.
Proof. reflexivity. Qed.

Lemma with_cfg a d ctx o : cfg (with_ a d ctx o) = cfg (apply_opts d (ctx ++ o)).
Proof.
  unfold with_. destruct ctx as [|c1 cr], o as [|o1 orr]; try reflexivity;
    rewrite apply_opts_app; apply apply_opts_cfg_ext, apply_opts_cfg_ext, clone_cfg.
Qed.

Lemma with_options_cfg a d o : cfg (with_options a d o) = cfg (apply_opts d o).
Proof. unfold with_options. destruct o; [reflexivity|]. apply apply_opts_cfg_ext, clone_cfg. Qed.

Lemma factory_cfg a0 a1 org kind dopts p :
  cfg (factory a0 a1 org kind dopts p)
  = (sum_skips (all_opts dopts p), has_notrace (all_opts dopts p), last_depth (all_opts dopts p) 0).
Proof.
  unfold factory, all_opts, define.
  destruct p as [|ctx o|o].
  - rewrite app_nil_r, apply_opts_cfg. reflexivity.
  - rewrite with_cfg, <- apply_opts_app, apply_opts_cfg. reflexivity.
  - rewrite with_options_cfg, <- apply_opts_app, apply_opts_cfg. reflexivity.
Qed.

Lemma factory_skip a0 a1 org kind dopts p :
  d_skip (factory a0 a1 org kind dopts p) = sum_skips (all_opts dopts p).
Proof. pose proof (factory_cfg a0 a1 org kind dopts p) as H. unfold cfg in H. now injection H. Qed.
Lemma factory_notrace a0 a1 org kind dopts p :
  d_notrace (factory a0 a1 org kind dopts p) = has_notrace (all_opts dopts p).
Proof. pose proof (factory_cfg a0 a1 org kind dopts p) as H. unfold cfg in H. now injection H. Qed.
Lemma factory_depth a0 a1 org kind dopts p :
  d_depth (factory a0 a1 org kind dopts p) = last_depth (all_opts dopts p) 0.
Proof. pose proof (factory_cfg a0 a1 org kind dopts p) as H. unfold cfg in H. now injection H. Qed.
(* ---------- runtime.Callers arithmetic ---------- *)
Lemma skipn_chain {A} (chain user : list A) (n : nat) :
  skipn (List.length chain + n) (chain ++ user) = skipn n user.
Proof. induction chain as [|x r IH]; simpl; [reflexivity | exact IH]. Qed.

(* how far the constructor's skip overshoots the library's own frames *)
Definition ctor_off (k : ctor) : Z := ctor_skip k - Z.of_nat (List.length (chain_of k)).

Lemma zfirstn_eq {A} n (l : list A) : zfirstn n l = firstn (Z.to_nat n) l.
Proof.
  revert n. induction l as [|x r IH]; intros n; cbn [zfirstn].
  - now rewrite firstn_nil.
  - destruct (Z.ltb_spec 0 n) as [H|H].
    + rewrite IH. replace (Z.to_nat n) with (S (Z.to_nat (n - 1))) by lia. reflexivity.
    + replace (Z.to_nat n) with 0%nat by lia. reflexivity.
Qed.
Lemma zskipn_eq {A} n (l : list A) : zskipn n l = skipn (Z.to_nat n) l.
Proof.
  revert n. induction l as [|x r IH]; intros n; cbn [zskipn].
  - now rewrite skipn_nil.
  - destruct (Z.ltb_spec 0 n) as [H|H].
    + rewrite IH. replace (Z.to_nat n) with (S (Z.to_nat (n - 1))) by lia. reflexivity.
    + replace (Z.to_nat n) with 0%nat by lia. reflexivity.
Qed.

Lemma chain_ok_off k : chain_ok k = true -> ctor_off k = 0.
Proof.
  unfold chain_ok, ctor_off. intros H. apply andb_true_iff in H as [_ H].
  apply Z.eqb_eq in H. lia.
Qed.

Lemma ctor_stack_off {A} k d (chain_pcs user : list A) :
  List.length chain_pcs = List.length (chain_of k) -> 0 <= ctor_off k -> 0 <= d_skip d ->
  ctor_stack k d chain_pcs user
  = if d_notrace d then None
    else Some (firstn (Z.to_nat (eff_depth d)) (skipn (Z.to_nat (d_skip d + ctor_off k)) user)).
Proof.
  intros L O S. unfold ctor_stack, new_error_stack, go_callers, gstack. rewrite zfirstn_eq, zskipn_eq.
  destruct (d_notrace d); [reflexivity|]. do 2 f_equal.
  replace (Z.to_nat (d_skip d + ctor_skip k))
    with (List.length chain_pcs + Z.to_nat (d_skip d + ctor_off k))%nat.
  - apply skipn_chain.
  - unfold ctor_off in *. rewrite L. lia.
Qed.

Lemma ctor_stack_ok {A} k d (chain_pcs user : list A) :
  chain_ok k = true -> List.length chain_pcs = List.length (chain_of k) -> 0 <= d_skip d ->
  ctor_stack k d chain_pcs user
  = if d_notrace d then None
    else Some (firstn (Z.to_nat (eff_depth d)) (skipn (Z.to_nat (d_skip d)) user)).
Proof.
  intros C L S. pose proof (chain_ok_off k C) as O.
  rewrite (ctor_stack_off k d chain_pcs user L); [| lia | exact S].
  now rewrite O, Z.add_0_r.
Qed.

(* the brief's [capture] is what newError computes *)
Lemma new_error_stack_capture {A} k d (gs : list A) :
  new_error_stack d (ctor_skip k) gs
  = if d_notrace d then None else Some (capture d (ctor_extra k) gs).
Proof.
  unfold new_error_stack, capture, go_callers, ctor_extra. rewrite !zfirstn_eq, !zskipn_eq. destruct (d_notrace d); [reflexivity|].
  do 3 f_equal. lia.
Qed.

Lemma callersDepth_is_32 : callersDepth = 32.
Proof. reflexivity. Qed.

Lemma eff_depth_spec a0 a1 org kind dopts p :
  eff_depth (factory a0 a1 org kind dopts p) = spec_depth (all_opts dopts p).
Proof.
  unfold eff_depth, spec_depth. rewrite factory_depth, callersDepth_is_32.
  rewrite Z.gtb_ltb. reflexivity.
Qed.

Lemma spec_depth_pos os : 0 < spec_depth os.
Proof.
  unfold spec_depth, default_depth. destruct (Z.ltb 0 (last_depth os 0)) eqn:E; [|lia].
  now apply Z.ltb_lt in E.
Qed.

Lemma chain_ok_all k : chain_ok k = true.
Proof. destruct k; reflexivity. Qed.

(* ---------- stack of an error, in terms of the options as written ---------- *)
Lemma stack_by_options {A} (lib : string -> A) k a0 a1 org kind dopts p (user : list A) :
  chain_ok k = true -> 0 <= sum_skips (all_opts dopts p) ->
  ctor_stack k (factory a0 a1 org kind dopts p) (map lib (chain_of k)) user
  = if has_notrace (all_opts dopts p) then None
    else Some (firstn (Z.to_nat (spec_depth (all_opts dopts p)))
                 (skipn (Z.to_nat (sum_skips (all_opts dopts p))) user)).
Proof.
  intros C S. rewrite ctor_stack_ok; [| exact C | apply map_length | now rewrite factory_skip].
  now rewrite factory_notrace, factory_skip, eff_depth_spec.
Qed.

Lemma hd_firstn {A} (n : nat) (l : list A) : (0 < n)%nat -> hd_error (firstn n l) = hd_error l.
Proof. destruct n; [lia|]. now destruct l. Qed.

Lemma head_frame_hd {A} (sym : A -> frame) s : head_frame sym s = hd_error (map sym (pcs_of s)).
Proof. unfold head_frame. now destruct (pcs_of s). Qed.

Lemma head_is_caller {A} (sym : A -> frame) (lib : string -> A) k a0 a1 org kind dopts p (u : A) rest :
  chain_ok k = true ->
  has_notrace (all_opts dopts p) = false -> sum_skips (all_opts dopts p) = 0 ->
  head_frame sym (ctor_stack k (factory a0 a1 org kind dopts p) (map lib (chain_of k)) (u :: rest))
  = Some (sym u).
Proof.
  intros K NT S. rewrite stack_by_options; [| exact K | lia].
  rewrite NT, S. simpl skipn. rewrite head_frame_hd. simpl pcs_of.
  pose proof (spec_depth_pos (all_opts dopts p)) as P.
  destruct (Z.to_nat (spec_depth (all_opts dopts p))) eqn:E; [lia|]. reflexivity.
Qed.

Lemma depth_keeps_min {A} (lib : string -> A) k a0 a1 org kind dopts p (user : list A) :
  chain_ok k = true -> 0 <= sum_skips (all_opts dopts p) -> has_notrace (all_opts dopts p) = false ->
  len (ctor_stack k (factory a0 a1 org kind dopts p) (map lib (chain_of k)) user)
  = Z.min (spec_depth (all_opts dopts p))
          (Z.max 0 (Z.of_nat (List.length user) - sum_skips (all_opts dopts p))).
Proof.
  intros C S NT. rewrite stack_by_options by assumption. rewrite NT. unfold len. simpl pcs_of.
  rewrite firstn_length, skipn_length. pose proof (spec_depth_pos (all_opts dopts p)). lia.
Qed.

Lemma notrace_absent {A} k d (chain_pcs user : list A) :
  d_notrace d = true ->
  ctor_stack k d chain_pcs user = None /\ stack_from (ctor_stack k d chain_pcs user) = None.
Proof. intros H. unfold ctor_stack, new_error_stack. rewrite H. split; reflexivity. Qed.

(* ---------- views ---------- *)
Lemma views_agree {A} (sym : A -> frame) (s : option (list A)) :
  let F := map sym (pcs_of s) in
  frames sym s = F /\ head_frame sym s = hd_error F /\ len s = Z.of_nat (List.length F)
  /\ frames_and_source sym s = F /\ map sym (stack_trace s) = F
  /\ json_stack sym s = (if nilb F then None else Some F)
  /\ slog_stack sym s = F /\ slog_origin sym s = hd_error F
  /\ (stack_from s = None <-> F = []).
Proof.
  intros F. subst F. unfold frames_and_source, stack_trace, json_stack, slog_stack, slog_origin,
    stack_from, is_zero, len, frames. rewrite head_frame_hd, map_length.
  destruct (pcs_of s) as [|pc r]; simpl; repeat split; try reflexivity; try discriminate.
Qed.

Lemma debug_funcforpc_agrees {A} (sym : A -> frame) (sym2 : A -> option frame) s :
  (forall pc, In pc (pcs_of s) -> sym2 pc = Some (sym pc)) ->
  debug_stack_funcforpc sym2 s = frames sym s.
Proof.
  unfold debug_stack_funcforpc, frames, stack_trace. induction (pcs_of s) as [|pc r IH]; intros H; simpl; [reflexivity|].
  rewrite (H pc) by now left. simpl. f_equal. apply IH. intros q Hq. apply H. now right.
Qed.

Lemma filter_all {B} (f : B -> bool) l : (forall x, In x l -> f x = true) -> filter f l = l.
Proof.
  induction l as [|x r IH]; intros H; simpl; [reflexivity|].
  rewrite (H x) by now left. f_equal. apply IH. intros y Hy. apply H. now right.
Qed.

Lemma debug_callersframes_agrees {A} (sym : A -> frame) s :
  (forall pc, In pc (pcs_of s) -> named (sym pc) = true) ->
  debug_stack_callersframes sym s = frames sym s.
Proof.
  intros H. unfold debug_stack_callersframes, frames, stack_trace.
  destruct Gen.Chain.debugstack_skips_unnamed; [|reflexivity].
  apply filter_all. intros f Hf. apply in_map_iff in Hf as (pc & <- & Hpc). now apply H.
Qed.

(* holds whichever symboliser DebugStack uses *)
Lemma debugstack_agrees_partial {A} (sym : A -> frame) (sym2 : A -> option frame) s :
  (forall pc, In pc (pcs_of s) -> sym2 pc = Some (sym pc)) ->
  (forall pc, In pc (pcs_of s) -> named (sym pc) = true) ->
  debug_stack sym sym2 s = frames sym s.
Proof.
  intros H N. unfold debug_stack. destruct (str_eqb _ _);
    [now apply debug_callersframes_agrees | now apply debug_funcforpc_agrees].
Qed.

(* DebugStack symbolises with runtime.CallersFrames (generated fact): no
   hypothesis about the second symboliser *)
Lemma debugstack_agrees {A} (sym : A -> frame) (sym2 : A -> option frame) s :
  (forall pc, In pc (pcs_of s) -> named (sym pc) = true) ->
  debug_stack sym sym2 s = frames sym s.
Proof.
  intros N. unfold debug_stack.
  replace (str_eqb Gen.Chain.debugstack_symboliser "runtime.CallersFrames") with true by reflexivity.
  now apply debug_callersframes_agrees.
Qed.

(* ---------- decidable equalities of the check ---------- *)
Lemma frame_eqb_eq a b : frame_eqb a b = true <-> a = b.
Proof.
  destruct a as [f1 p1 l1], b as [f2 p2 l2]. unfold frame_eqb. simpl.
  rewrite !andb_true_iff, !str_eqb_eq, Z.eqb_eq. split.
  - intros [[-> ->] ->]. reflexivity.
  - intros H. injection H as -> -> ->. auto.
Qed.
Lemma frames_eqb_eq a b : frames_eqb a b = true <-> a = b.
Proof. apply list_eqb_eq, frame_eqb_eq. Qed.
Lemma oframe_eqb_eq a b : oframe_eqb a b = true <-> a = b.
Proof. apply option_eqb_eq, frame_eqb_eq. Qed.
Lemma oframes_eqb_eq a b : oframes_eqb a b = true <-> a = b.
Proof. apply option_eqb_eq, frames_eqb_eq. Qed.

Lemma map_idf l : map idf l = l.
Proof. unfold idf. apply map_id. Qed.

Lemma in_domain_sum os : Z.leb 0 (sum_skips os) = true -> 0 <= sum_skips os.
Proof. apply Z.leb_le. Qed.

(* the model's stack is the specification's frame list *)
Lemma model_stack_spec c :
  chain_ok (c_ctor c) = true -> in_domain c = true ->
  model_stack c = (if has_notrace (opts_of c) then None else Some (spec_frames c))
  /\ pcs_of (model_stack c) = spec_frames c.
Proof.
  intros C D. unfold model_stack, model_defn, chain_frames.
  rewrite stack_by_options; [| exact C | now apply in_domain_sum].
  unfold spec_frames, opts_of. rewrite zfirstn_eq, zskipn_eq. destruct (has_notrace _); split; reflexivity.
Qed.

Lemma combine_fst {B C} (l : list B) (l2 : list C) :
  List.length l = List.length l2 -> map fst (combine l l2) = l.
Proof.
  revert l2. induction l as [|x r IH]; intros [|y r2] H; simpl in *; try reflexivity; try discriminate.
  f_equal. apply IH. now injection H.
Qed.

Lemma in_firstn {B} (x : B) n l : In x (firstn n l) -> In x l.
Proof.
  revert l. induction n as [|n IH]; intros [|y r] H; simpl in *; try tauto.
  destruct H as [H|H]; [now left | right; now apply IH].
Qed.
Lemma in_skipn {B} (x : B) n l : In x (skipn n l) -> In x l.
Proof.
  revert l. induction n as [|n IH]; intros [|y r] H; simpl in *; try tauto. right. now apply IH.
Qed.

Lemma spec_frames_in_user c f : In f (spec_frames c) -> In f (user c).
Proof.
  unfold spec_frames. destruct (has_notrace _); simpl; [tauto|].
  rewrite zfirstn_eq, zskipn_eq. intros H. eapply in_skipn, in_firstn, H.
Qed.

Lemma corr_implies_ok c :
  chain_ok (c_ctor c) = true -> user_named c = true -> corr c = true -> ok c = true.
Proof.
  intros C UN K. unfold ok. unfold corr in K. destruct (in_domain c) eqn:D; [|reflexivity].
  simpl. unfold corr_strict in K.
  repeat (apply andb_true_iff in K as [K ?]).
  destruct (model_stack_spec c C D) as [MS MP].
  pose proof (views_agree idf (model_stack c)) as V. cbv zeta in V.
  rewrite MP, map_idf in V.
  destruct V as (Vf & Vh & Vl & Vfs & Vt & Vj & Vs & Vo & Vsf).
  apply frames_eqb_eq in K. rewrite Vf in K.
  repeat match goal with
  | H : frames_eqb _ _ = true |- _ => apply frames_eqb_eq in H
  | H : oframe_eqb _ _ = true |- _ => apply oframe_eqb_eq in H
  | H : oframes_eqb _ _ = true |- _ => apply oframes_eqb_eq in H
  | H : Z.eqb _ _ = true |- _ => apply Z.eqb_eq in H
  | H : Bool.eqb _ _ = true |- _ => apply Bool.eqb_prop in H
  | H : Nat.eqb _ _ = true |- _ => apply Nat.eqb_eq in H
  end.
  rewrite !andb_true_iff. repeat split.
  - (* head is the site *)
    unfold head_is_site.
    destruct (has_notrace (opts_of c)) eqn:NT; [reflexivity|].
    destruct (Z.eqb (sum_skips (opts_of c)) 0) eqn:Z0; [|reflexivity]. simpl.
    apply oframe_eqb_eq. apply Z.eqb_eq in Z0.
    match goal with H : option_map (fr c) (o_head c) = _ |- _ => rewrite H end.
    rewrite Vh. unfold spec_frames. rewrite NT, Z0, zfirstn_eq, zskipn_eq. simpl skipn.
    apply hd_firstn. pose proof (spec_depth_pos (opts_of c)). lia.
  - (* arithmetic *)
    unfold arith_ok. rewrite K. apply andb_true_iff. split; [now apply frames_eqb_eq|].
    match goal with H : o_from c = _ |- _ => rewrite H end.
    destruct (stack_from (model_stack c)) eqn:SF.
    + destruct (spec_frames c); [|reflexivity]. destruct Vsf as [_ Vsf]. discriminate (Vsf eq_refl).
    + destruct Vsf as [Vsf _]. now rewrite (Vsf eq_refl).
  - (* views *)
    unfold views_core. rewrite K.
    repeat match goal with H : _ = _ |- _ => rewrite H; clear H end.
    rewrite !andb_true_iff. repeat split;
      try (apply frames_eqb_eq; reflexivity); try (apply oframe_eqb_eq; reflexivity);
      try (apply oframes_eqb_eq; reflexivity); try (apply Z.eqb_eq; reflexivity).
  - (* DebugStack: same symboliser; the frames all have names *)
    unfold view_debug. apply frames_eqb_eq.
    match goal with H : frs c (o_debug c) = _ |- _ => rewrite H end.
    rewrite K. unfold model_debug.
    match goal with H : List.length (o_sym2 c) = _ |- _ => rename H into L end.
    rewrite MP in L.
    assert (L2 : List.length (spec_frames c) = List.length (map (option_map (fr c)) (o_sym2 c)))
      by now rewrite map_length.
    unfold user_named in UN. rewrite forallb_forall in UN.
    rewrite debugstack_agrees.
    + unfold frames. rewrite MS. destruct (has_notrace (opts_of c)); simpl.
      * rewrite MS in MP. exact MP.
      * now apply combine_fst.
    + rewrite MS. destruct (has_notrace (opts_of c)); simpl; [tauto|].
      intros pc Hpc. apply UN, spec_frames_in_user.
      destruct pc as [f o]. now apply in_combine_l in Hpc.
Qed.

(* ---------- newStack's growing buffer (fix for F14) is one capture with a buffer of [depth] entries ---------- *)
(* pcs := make(min(depth, callersDepth)); n := Callers(skip, pcs);
   for n == len(pcs) && len(pcs) < depth { pcs = make(min(depth, 2*len(pcs))); n = Callers(skip, pcs) }
   [rest] is the goroutine stack below the skipped frames; Callers with a buffer of b entries returns zfirstn b rest. *)
Fixpoint grow {A} (fuel : nat) (b depth : Z) (rest : list A) : list A :=
  let r := zfirstn b rest in
  match fuel with
  | O => r
  | S f => if Z.eqb (Z.of_nat (List.length r)) b && Z.ltb b depth
           then grow f (Z.min depth (2 * b)) depth rest else r
  end.

Lemma zfirstn_all {A} n (l : list A) : Z.of_nat (List.length l) <= n -> zfirstn n l = l.
Proof. intros H. rewrite zfirstn_eq. apply firstn_all2. lia. Qed.

Lemma zfirstn_length {A} n (l : list A) : 0 <= n ->
  Z.of_nat (List.length (zfirstn n l)) = Z.min n (Z.of_nat (List.length l)).
Proof. intros H. rewrite zfirstn_eq, firstn_length. lia. Qed.

Theorem grow_is_single_capture {A} (rest : list A) : forall fuel b depth,
  0 < b -> b <= depth -> (List.length rest < fuel + Z.to_nat b)%nat ->
  grow fuel b depth rest = zfirstn depth rest.
Proof.
  induction fuel as [|f IH]; intros b depth Hb Hd Hf; cbn [grow].
  - rewrite !zfirstn_all by lia. reflexivity.
  - rewrite zfirstn_length by lia.
    destruct (Z.eqb_spec (Z.min b (Z.of_nat (List.length rest))) b) as [E|E]; cbn [andb].
    + destruct (Z.ltb_spec b depth) as [L|L].
      * apply IH; lia.
      * replace depth with b by lia. reflexivity.
    + (* the buffer was not filled: the whole rest fits *)
      rewrite !zfirstn_all by lia. reflexivity.
Qed.

(* ---------- addSkip (fix for F15): saturation does not change what is captured ---------- *)
Definition max_int : Z := 9223372036854775807.
Definition add_skip (a b : Z) : Z := Z.min max_int (a + b).   (* for 0 <= a, b <= max_int *)

Lemma zskipn_all {A} n (l : list A) : Z.of_nat (List.length l) <= n -> zskipn n l = [].
Proof. intros H. rewrite zskipn_eq. apply skipn_all2. lia. Qed.

Theorem saturating_skip_is_exact_sum {A} (gs : list A) a b :
  Z.of_nat (List.length gs) <= max_int ->
  zskipn (add_skip a b) gs = zskipn (a + b) gs.
Proof.
  intros H. unfold add_skip. destruct (Z.min_spec max_int (a + b)) as [[L ->]|[L ->]]; [|reflexivity].
  rewrite !zskipn_all by lia. reflexivity.
Qed.
