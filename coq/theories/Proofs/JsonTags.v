(* JSON member names and omission flags of Model/Json.v against the struct tags srcgen reads from
   jsonErrorData, jsonCauseData and Frame (Gen/Consts.v, regenerated on every run). *)
From Errdef Require Import Base.Str Base.Outcome Model.Core Model.GoErrors Model.Tree0 Model.Json.
From Errdef Require Gen.Consts.

Definition tag_json_name (t : string * string * bool * bool) : string := snd (fst (fst t)).
Definition tag_omitempty (t : string * string * bool * bool) : bool := snd (fst t).
Definition tag_names (tags : list (string * string * bool * bool)) : list string := map tag_json_name tags.

(* l is a subsequence of m *)
Fixpoint subseqb (l m : list string) : bool :=
  match l, m with
  | [], _ => true
  | _ :: _, [] => false
  | x :: l', y :: m' => if str_eqb x y then subseqb l' m' else subseqb l m'
  end.
Definition members (j : json) : list string := match j with JObj ms => map fst ms | _ => [] end.
Definition required (tags : list (string * string * bool * bool)) : list string :=
  map tag_json_name (filter (fun t => negb (tag_omitempty t)) tags).

Lemma errdef_members_follow_tags e kids doc :
  is_errdef_error e = true -> (match e_def e with Some d => d_json d | None => None end) = None ->
  marshal_tree (T e kids) = Ok doc ->
  subseqb (members doc) (tag_names Gen.Consts.jsonErrorData_tags) = true /\
  forallb (fun n => existsb (str_eqb n) (members doc)) (required Gen.Consts.jsonErrorData_tags) = true.
Proof.
  intros He Hc. cbn [marshal_tree]. rewrite He, Hc.
  destruct (match e_fields_all e with [] => Ok None | _ => _ end) as [fj|c|w]; try discriminate.
  destruct (seq_out _) as [cs|c|w]; try discriminate.
  intros H. inversion H; subst doc. clear H.
  destruct (str_eqb (e_kind e) ""), fj, (e_stack e), cs; split; reflexivity.
Qed.

Lemma foreign_members_follow_tags e kids doc :
  is_errdef_error e = false -> marshal_tree (T e kids) = Ok doc ->
  subseqb (members doc) (tag_names Gen.Consts.jsonCauseData_tags) = true /\
  forallb (fun n => existsb (str_eqb n) (members doc)) (required Gen.Consts.jsonCauseData_tags) = true.
Proof.
  intros He. cbn [marshal_tree]. rewrite He.
  destruct (seq_out _) as [cs|c|w]; try discriminate.
  intros H. inversion H; subst doc. destruct cs; split; reflexivity.
Qed.

Lemma frame_members_are_tags f : members (frame_json f) = tag_names Gen.Consts.Frame_tags.
Proof. reflexivity. Qed.
