(* Soundness of the slice-ownership analysis of Model/SliceFlow.v. *)
From Coq Require Import List Arith Bool String Lia.
Import ListNotations.
From Errdef Require Import Model.SliceFlow.

(* ---------- soundness ---------- *)
Definition fresh_or_empty (n0 : nat) (s : slice) : Prop := n0 <= sl_arr s \/ sl_cap s = 0.

Record inv (h0 : heap) (ow : string -> bool) (st : state) : Prop := {
  inv_prefix : firstn (List.length h0) (st_h st) = h0;
  inv_env : forall x, ow x = true -> fresh_or_empty (List.length h0) (st_env st x);
  inv_stored : forall s, In s (st_stored st) -> fresh_or_empty (List.length h0) s
}.

Lemma update_length {A} (l : list A) i x : List.length (update l i x) = List.length l.
Proof. revert i; induction l as [|y r IH]; intros [|j]; cbn; auto. Qed.

Lemma firstn_update_ge {A} (l : list A) n i x : n <= i -> firstn n (update l i x) = firstn n l.
Proof.
  revert n i; induction l as [|y r IH]; intros n i H; [destruct i; reflexivity|].
  destruct i as [|j]; [replace n with 0 by lia; reflexivity|].
  destruct n as [|m]; [reflexivity|]. cbn. f_equal. apply IH. lia.
Qed.

Lemma firstn_app_le {A} (l r : list A) n : n <= List.length l -> firstn n (l ++ r) = firstn n l.
Proof. intros H. rewrite firstn_app. replace (n - List.length l) with 0 by lia. cbn. apply app_nil_r. Qed.

Lemma prefix_len h0 (h : heap) : firstn (List.length h0) h = h0 -> List.length h0 <= List.length h.
Proof. intros H. rewrite <- H at 1. rewrite firstn_length. lia. Qed.

Lemma append_sound h0 h s xs extra h' s' :
  firstn (List.length h0) h = h0 -> fresh_or_empty (List.length h0) s ->
  go_append h s xs extra = (h', s') ->
  firstn (List.length h0) h' = h0 /\ fresh_or_empty (List.length h0) s'.
Proof.
  intros Hp Hs E. pose proof (prefix_len h0 h Hp) as Hl. unfold go_append in E.
  destruct xs as [|x xs]; [inversion E; subst; auto|].
  destruct (sl_len s + List.length (x :: xs) <=? sl_cap s) eqn:Q; inversion E; subst; clear E.
  - apply Nat.leb_le in Q. cbn [List.length] in Q.
    destruct Hs as [Hs|Hs]; [|lia].
    split; [rewrite firstn_update_ge by exact Hs; exact Hp|left; exact Hs].
  - split; [rewrite firstn_app_le by exact Hl; exact Hp|left; cbn; exact Hl].
Qed.

Lemma write_sound h0 h s rel xs :
  firstn (List.length h0) h = h0 -> fresh_or_empty (List.length h0) s ->
  firstn (List.length h0) (go_write h s rel xs) = h0.
Proof.
  intros Hp Hs. unfold go_write.
  destruct ((rel + List.length xs <=? sl_cap s) && negb (List.length xs =? 0)) eqn:Q; [|exact Hp].
  apply andb_prop in Q. destruct Q as [Q1 Q2]. apply Nat.leb_le in Q1.
  apply negb_true_iff in Q2. apply Nat.eqb_neq in Q2.
  destruct Hs as [Hs|Hs]; [|lia]. rewrite firstn_update_ge by exact Hs. exact Hp.
Qed.

Section Sound.
Variables params retained : string -> slice.
Variable ops : list sop.
Variable ow : string -> bool.
Hypothesis Hstable : stable ops ow = true.
Hypothesis Hsafe : forallb (op_safe ow) ops = true.

Lemma eval_sound h0 st c e h1 s :
  inv h0 ow st -> owned_sx ow e = true -> eval params retained st c e = (h1, s) ->
  firstn (List.length h0) h1 = h0 /\ fresh_or_empty (List.length h0) s.
Proof.
  intros I Ho E. destruct e; cbn in Ho, E; try discriminate; inversion E; subst; clear E.
  - split; [apply I|apply I; exact Ho].
  - split; [apply I|right; reflexivity].
  - pose proof (prefix_len h0 _ (inv_prefix _ _ _ I)) as Hl.
    split; [rewrite firstn_app_le by exact Hl; apply I|left; cbn; exact Hl].
Qed.

Lemma eval_prefix h0 st c e h1 s :
  inv h0 ow st -> eval params retained st c e = (h1, s) -> firstn (List.length h0) h1 = h0.
Proof.
  intros I E. destruct e; cbn in E; inversion E; subst; try apply I.
  pose proof (prefix_len h0 _ (inv_prefix _ _ _ I)) as Hl. rewrite firstn_app_le by exact Hl. apply I.
Qed.

Lemma stable_assign o x : In o ops -> In x (assigned o) -> ow x = true -> demotes ow o x = false.
Proof.
  intros Hin Hx Hox. unfold stable in Hstable. rewrite forallb_forall in Hstable.
  specialize (Hstable o Hin). rewrite forallb_forall in Hstable. specialize (Hstable x Hx).
  rewrite Hox in Hstable. cbn in Hstable. now apply negb_true_iff in Hstable.
Qed.

Lemma exec1_sound h0 o c st : In o ops -> inv h0 ow st -> inv h0 ow (exec1 params retained o c st).
Proof.
  intros Hin I. pose proof Hsafe as Hs. rewrite forallb_forall in Hs. specialize (Hs o Hin).
  destruct o as [x e|x b|e|p e]; cbn [exec1 op_safe] in *.
  - destruct (eval params retained st c e) as [h1 s] eqn:E.
    destruct ((c_a c <=? c_b c) && (c_b c <=? c_c c) && (c_c c <=? sl_cap s)) eqn:Q; [|exact I].
    apply andb_prop in Q. destruct Q as [Q Q3]. apply Nat.leb_le in Q3.
    constructor; cbn.
    + eapply eval_prefix; eauto.
    + intros y Hy. unfold set_env. destruct (String.eqb y x) eqn:Eyx; [|apply I; exact Hy].
      apply String.eqb_eq in Eyx. subst y.
      pose proof (stable_assign (PAssign x e) x Hin (or_introl eq_refl) Hy) as D. cbn in D.
      rewrite String.eqb_refl in D. cbn in D. apply negb_false_iff in D.
      destruct (eval_sound h0 st c e h1 s I D E) as [_ [F|F]]; [left; exact F|right; cbn; lia].
    + apply I.
  - destruct (eval params retained st c b) as [h1 s] eqn:E.
    destruct (go_append h1 s (c_xs c) (c_extra c)) as [h2 s'] eqn:A.
    destruct (eval_sound h0 st c b h1 s I Hs E) as [P1 F1].
    destruct (append_sound h0 h1 s _ _ h2 s' P1 F1 A) as [P2 F2].
    constructor; cbn; [exact P2| |apply I].
    intros y Hy. unfold set_env. destruct (String.eqb y x); [exact F2|apply I; exact Hy].
  - destruct (eval params retained st c e) as [h1 s] eqn:E.
    destruct (eval_sound h0 st c e h1 s I Hs E) as [P1 F1].
    constructor; cbn; [apply write_sound; assumption|apply I|apply I].
  - destruct (eval params retained st c e) as [h1 s] eqn:E.
    destruct (eval_sound h0 st c e h1 s I Hs E) as [P1 F1].
    constructor; cbn; [exact P1|apply I|].
    intros s0 [<-|H]; [exact F1|apply I; exact H].
Qed.

Lemma run_sound h0 sched st : inv h0 ow st -> inv h0 ow (run params retained ops sched st).
Proof.
  revert st. induction sched as [|c r IH]; intros st I; [exact I|].
  cbn. apply IH. unfold step. destruct (nth_error ops (c_op c)) as [o|] eqn:E; [|exact I].
  apply exec1_sound; [eapply nth_error_In; eauto|exact I].
Qed.
End Sound.

(* THE THEOREM: an accepted operation set, run in any order with any data on any heap with any
   slices handed in, leaves every array that existed before the call exactly as it was, and stores
   only slices of arrays it allocated itself (or empty ones) *)
Theorem accepts_sound ops : accepts ops = true ->
  forall (h0 : heap) (params retained : string -> slice) (sched : list choice),
  let st := run params retained ops sched (init_state h0) in
  firstn (List.length h0) (st_h st) = h0 /\
  forall s, In s (st_stored st) -> fresh_or_empty (List.length h0) s.
Proof.
  intros H h0 params retained sched. unfold accepts in H. apply andb_prop in H. destruct H as [H1 H2].
  assert (I0 : inv h0 (owned_vars ops) (init_state h0)).
  { constructor; cbn; [apply firstn_all|intros; right; reflexivity|intros s []]. }
  pose proof (run_sound params retained ops (owned_vars ops) H1 H2 h0 sched _ I0) as I.
  split; apply I.
Qed.
