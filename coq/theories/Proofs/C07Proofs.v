(* C07 - every renderer terminates on every cause graph: proofs.
   1. renderers over the pruned tree are structural and visit every node of the tree once
   2. json.Marshal: terminates when no cycle passes through an errdef node (rank); more fuel never
      changes a result; diverges on the 2-cycle through an errdef node (K1); out of fuel |g| means
      out of every fuel (pigeonhole on the nodes whose result still changes)
   3. %#v: terminates when the map-kinded nodes have no cycle; diverges on a map that contains
      itself (K7)
   4. the source-snippet reader and its memo
   5. / 6. the check: an observation that agrees with the model satisfies the oracle *)
From Errdef Require Import Base.Str Base.Outcome Model.Tree Spec.Unfold Check.C06 Proofs.C06Proofs Model.Render07 Check.C07.


(* ====================================================================== *)
(* 1. renderers over the pruned tree                                       *)
(* ====================================================================== *)
Lemma concat_opt_some {A} (l : list (list A)) : concat_opt (map Some l) = Some (List.concat l).
Proof. induction l as [|x r IH]; simpl; [reflexivity|]. rewrite IH. reflexivity. Qed.

Lemma fmt_node_preorder g at_ : a_cycf at_ = [] ->
  forall t d, fmt_node g at_ d t = Some (preorder d t).
Proof.
  intros Hc. induction t as [n c kids IH] using tree_ind'. intros d.
  cbn [fmt_node preorder]. unfold details_return. rewrite Hc. cbn [inb existsb negb]. rewrite andb_false_r.
  assert (E : map (fmt_node g at_ (S d)) kids = map Some (map (preorder (S d)) kids)).
  { rewrite map_map. apply map_ext_in. intros t Hin. rewrite Forall_forall in IH. apply IH. exact Hin. }
  rewrite E, concat_opt_some. rewrite <- flat_map_concat_map. reflexivity.
Qed.

Lemma fmt_nodes_preorder g at_ : a_cycf at_ = [] ->
  forall ts d, fmt_nodes g at_ d ts = Some (flat_map (preorder d) ts).
Proof.
  intros Hc ts d. unfold fmt_nodes.
  assert (E : map (fmt_node g at_ d) ts = map Some (map (preorder d) ts)).
  { rewrite map_map. apply map_ext. intros t. apply fmt_node_preorder. exact Hc. }
  rewrite E, concat_opt_some, <- flat_map_concat_map. reflexivity.
Qed.

(* Node.LogValue and Walk are the same traversal *)
Lemma node_log_preorder : forall t d, node_log d t = preorder d t.
Proof. reflexivity. Qed.

Lemma render_tree_total g at_ k recv ts : a_cycf at_ = [] ->
  render_tree g at_ k recv ts = Some (if walks k then preorder_all ts else []).
Proof.
  intros Hc. destruct k; cbn [render_tree walks]; try reflexivity.
  unfold format_plus, details_return. rewrite Hc. cbn [inb existsb negb].
  rewrite fmt_nodes_preorder by exact Hc. reflexivity.
Qed.

Lemma preorder_all_length ts : List.length (preorder_all ts) = list_sum (map tsize ts).
Proof.
  unfold preorder_all. rewrite flat_map_length. f_equal. apply map_ext. intros t. apply preorder_length.
Qed.

Lemma tree_renderers_total g at_ recv k : G g -> recv < List.length g -> a_cycf at_ = [] ->
  forall fuel, fuel_bound g <= fuel ->
  exists ts, build_cause_tree fuel g recv = Some ts /\
             render_tree g at_ k recv ts = Some (if walks k then preorder_all ts else []) /\
             (forall toks, render_tree g at_ k recv ts = Some toks ->
                List.length toks = if walks k then list_sum (map tsize ts) else 0).
Proof.
  intros HG Hr Hc fuel Hf. destruct (terminates g recv HG Hr fuel Hf) as [ts E].
  exists ts. split; [exact E|]. split; [apply render_tree_total; exact Hc|].
  intros toks H. rewrite render_tree_total in H by exact Hc. inversion H; subst.
  destruct (walks k); [apply preorder_all_length|reflexivity].
Qed.

(* a field value that contains itself: %+v does not return (K8) *)
Definition g_leaf : graph := [ {| g_key := Some 1%N; g_unwrap := UMulti []; g_errdef := true |} ].
Lemma plus_cyclic_field_refuted :
  G g_leaf /\ unwrap_tree g_leaf 0 = Some [] /\
  render_tree g_leaf {| a_bad := [0]; a_cycf := [0]; a_inline := [] |} KPlus 0 [] = None.
Proof.
  split; [apply Gb_sound; vm_compute; reflexivity|]. split; vm_compute; reflexivity.
Qed.

(* ====================================================================== *)
(* 2. json.Marshal                                                         *)
(* ====================================================================== *)
Definition fin (r : jres) : Prop := r <> JOut.

Lemma jcons_fin d r : fin r -> fin (jcons d r).
Proof. unfold fin. destruct r; simpl; congruence. Qed.

Lemma jseq_list_fin l : Forall fin l -> fin (jseq_list l).
Proof.
  unfold fin. induction 1 as [|a r Ha _ IH]; simpl; [congruence|].
  destruct a; [|congruence|congruence]. destruct (jseq_list r); congruence.
Qed.

Lemma jseq_map_eq {A} (f : A -> jres) l : jseq_map f l = jseq_list (map f l).
Proof. induction l as [|a r IH]; simpl; [reflexivity|]. rewrite IH. destruct (f a); reflexivity. Qed.

(* every node of the tree satisfies P *)
Inductive AllN (P : nat -> Prop) : tree -> Prop :=
| AllN_node n c kids : P n -> Forall (AllN P) kids -> AllN P (Node n c kids).

Lemma AllN_impl (P Q : nat -> Prop) : (forall n, P n -> Q n) -> forall t, AllN P t -> AllN Q t.
Proof.
  intros H. induction t as [n c kids IH] using tree_ind'. intros A. inversion A; subst.
  constructor; [auto|]. rewrite Forall_forall in *. auto.
Qed.

(* no cycle of the graph passes through an errdef node: a rank that never increases along an
   edge and strictly decreases along every edge that leaves an errdef node *)
Definition edge_ranked (g : graph) (rank : nat -> nat) : Prop :=
  forall n nd c, nth_error g n = Some nd -> In (Some c) (causes_of nd) ->
    rank c <= rank n /\ (g_errdef nd = true -> rank c < rank n).

(* the nodes of a built tree are reached along edges: ranks do not increase *)
Lemma build_list_AllN (bn : nat -> vmap -> bres (option tree)) (P : nat -> Prop) (Q : nat -> Prop) :
  (forall c vm t vm', Q c -> bn c vm = Some (Some t, vm') -> AllN P t) ->
  forall cs vm ts vm', (forall c, In (Some c) cs -> Q c) ->
    build_list bn cs vm = Some (ts, vm') -> Forall (AllN P) ts.
Proof.
  intros Hbn. induction cs as [|[c|] r IH]; intros vm ts vm' Hq H; simpl in H.
  - inversion H; subst. constructor.
  - destruct (bn c vm) as [[ot vm1]|] eqn:E1; [|discriminate].
    destruct (build_list bn r vm1) as [[ts2 vm2]|] eqn:E2; [|discriminate].
    inversion H; subst. assert (IH2 := IH vm1 ts2 vm' (fun c' Hc => Hq c' (or_intror Hc)) E2).
    destruct ot as [t|]; [|exact IH2]. constructor; [|exact IH2].
    eapply Hbn; [|exact E1]. apply Hq. left. reflexivity.
  - eapply IH; [|exact H]. intros c' Hc. apply Hq. right. exact Hc.
Qed.

Lemma build_node_AllN g rank : edge_ranked g rank ->
  forall fuel n vm t vm', build_node fuel g n vm = Some (Some t, vm') ->
    AllN (fun m => rank m <= rank n /\ m < List.length g) t.
Proof.
  intros Hr. induction fuel as [|f IH]; intros n vm t vm' H; [discriminate|].
  cbn [build_node] in H. destruct (nth_error g n) as [nd|] eqn:En; [|discriminate].
  assert (Hn : n < List.length g) by (apply nth_error_Some; congruence).
  assert (Kids : forall vm0 kids vm2, build_list (build_node f g) (causes_of nd) vm0 = Some (kids, vm2) ->
                 Forall (AllN (fun m => rank m <= rank n /\ m < List.length g)) kids).
  { intros vm0 kids vm2 E.
    eapply (build_list_AllN (build_node f g) _ (fun c => rank c <= rank n)); [| |exact E].
    - intros c vm1 t1 vm1' Hc E1. eapply AllN_impl; [|eapply IH; exact E1].
      intros m [Hm1 Hm2]. split; [lia|exact Hm2].
    - intros c Hc. apply (Hr n nd c En Hc). }
  destruct (g_key nd) as [ptr|].
  - destruct (vmem ptr vm); [discriminate|].
    destruct (build_list (build_node f g) (causes_of nd) (vset ptr ptr vm)) as [[kids vm2]|] eqn:E; [|discriminate].
    destruct (on_exit ptr vm2) as [cyc vm3]. inversion H; subst.
    constructor; [split; [lia|exact Hn]|]. eapply Kids. exact E.
  - destruct (build_list (build_node f g) (causes_of nd) vm) as [[kids vm2]|] eqn:E; [|discriminate].
    inversion H; subst. constructor; [split; [lia|exact Hn]|]. eapply Kids. exact E.
Qed.

(* the tree below an errdef node: every node has a strictly smaller rank *)
Lemma unwrap_tree_AllN g rank n nd ts : edge_ranked g rank ->
  nth_error g n = Some nd -> g_errdef nd = true -> unwrap_tree g n = Some ts ->
  Forall (AllN (fun m => rank m < rank n /\ m < List.length g)) ts.
Proof.
  intros Hr En He H. unfold unwrap_tree in H.
  destruct (build_cause_tree_inv _ _ _ _ H) as [nd' [vm [En' E]]]. rewrite En in En'. inversion En'; subst nd'.
  unfold build_nodes in E.
  eapply (build_list_AllN (build_node (fuel_bound g) g) _ (fun c => rank c < rank n)); [| |exact E].
  - intros c vm1 t1 vm1' Hc E1. eapply AllN_impl; [|eapply build_node_AllN; [exact Hr|exact E1]].
    intros m [Hm1 Hm2]. split; [lia|exact Hm2].
  - intros c Hc. apply (Hr n nd c En Hc). exact He.
Qed.

Lemma marshal_node_fin g (re : nat -> nat -> jres) (P : nat -> Prop) :
  (forall m d, P m -> is_errdef g m = true -> fin (re m d)) ->
  forall t d, AllN P t -> fin (marshal_node g re d t).
Proof.
  intros Hre. induction t as [m c kids IH] using tree_ind'. intros d A. inversion A; subst.
  cbn [marshal_node]. destruct (is_errdef g m) eqn:Em.
  - apply jcons_fin. apply Hre; assumption.
  - apply jcons_fin. rewrite jseq_map_eq. apply jseq_list_fin. rewrite Forall_forall in *. intros r Hin.
    apply in_map_iff in Hin as [t [<- Hin]]. apply IH; auto.
Qed.

Lemma marshal_nodes_fin g re (P : nat -> Prop) :
  (forall m d, P m -> is_errdef g m = true -> fin (re m d)) ->
  forall ts d, Forall (AllN P) ts -> fin (marshal_nodes g re d ts).
Proof.
  intros Hre ts d A. unfold marshal_nodes. rewrite jseq_map_eq. apply jseq_list_fin. rewrite Forall_forall in *.
  intros r Hin. apply in_map_iff in Hin as [t [<- Hin]]. eapply marshal_node_fin; eauto.
Qed.

Lemma is_errdef_nth g n : is_errdef g n = true -> exists nd, nth_error g n = Some nd /\ g_errdef nd = true.
Proof. unfold is_errdef. destruct (nth_error g n) as [nd|]; [|discriminate]. eauto. Qed.

Lemma marshal_err_step g bad rank : G g -> edge_ranked g rank ->
  forall f n d, is_errdef g n = true ->
  (forall m d', rank m < rank n -> is_errdef g m = true -> fin (marshal_err f g bad m d')) ->
  fin (marshal_err (S f) g bad n d).
Proof.
  intros HG Hr f n d He Hsub. cbn [marshal_err].
  destruct (inb n bad); [unfold fin; congruence|].
  destruct (is_errdef_nth _ _ He) as [nd [En Hd]].
  assert (Hn : n < List.length g) by (apply nth_error_Some; congruence).
  destruct (unwrap_tree_total g n HG Hn) as [ts Ets]. rewrite Ets.
  pose proof (unwrap_tree_AllN g rank n nd ts Hr En Hd Ets) as A.
  eapply marshal_nodes_fin; [|exact A].
  intros m d' [Hm1 Hm2] Hem. apply Hsub; assumption.
Qed.

Lemma marshal_err_fin g bad rank : G g -> edge_ranked g rank ->
  forall f n d, rank n <= f -> is_errdef g n = true -> fin (marshal_err (S f) g bad n d).
Proof.
  intros HG Hr. induction f as [|f IH]; intros n d Hrk He;
    apply (marshal_err_step g bad rank HG Hr); try exact He; intros m d' Hm Hem.
  - lia.
  - apply IH; [lia|exact Hem].
Qed.

Lemma json_terminates g bad rank : G g -> edge_ranked g rank ->
  forall n, is_errdef g n = true ->
  exists fuel, (exists sh, marshal_g fuel g bad n = JOk sh) \/ marshal_g fuel g bad n = JFail.
Proof.
  intros HG Hr n He. exists (S (rank n)). unfold marshal_g.
  pose proof (marshal_err_fin g bad rank HG Hr (rank n) n 0 (le_n _) He) as F. unfold fin in F.
  destruct (marshal_err (S (rank n)) g bad n 0); [left; eauto|right; reflexivity|congruence].
Qed.

(* ---------- more fuel does not change a result ---------- *)
Lemma jseq_list_mono (l1 l2 : list jres) :
  Forall2 (fun a b => fin a -> b = a) l1 l2 -> fin (jseq_list l1) -> jseq_list l2 = jseq_list l1.
Proof.
  unfold fin. induction 1 as [|a b r1 r2 Hab _ IH]; intros F; [reflexivity|].
  simpl in *. destruct a as [s1| |]; [|rewrite Hab by congruence; reflexivity|congruence].
  rewrite Hab by congruence. destruct (jseq_list r1) as [s2| |] eqn:E.
  - rewrite IH by congruence. reflexivity.
  - rewrite IH by congruence. reflexivity.
  - congruence.
Qed.

Lemma Forall2_map_same {A B} (f1 f2 : A -> B) (R : B -> B -> Prop) l :
  (forall x, In x l -> R (f1 x) (f2 x)) -> Forall2 R (map f1 l) (map f2 l).
Proof. induction l; simpl; intros H; constructor; auto. Qed.

Lemma jcons_fin_inv d r : fin (jcons d r) -> fin r.
Proof. unfold fin. destruct r; simpl; congruence. Qed.

Lemma marshal_node_mono g (re1 re2 : nat -> nat -> jres) :
  (forall m d, fin (re1 m d) -> re2 m d = re1 m d) ->
  forall t d, fin (marshal_node g re1 d t) -> marshal_node g re2 d t = marshal_node g re1 d t.
Proof.
  intros Hre. induction t as [m c kids IH] using tree_ind'. intros d F. cbn [marshal_node] in *.
  destruct (is_errdef g m).
  - rewrite Hre; [reflexivity|]. eapply jcons_fin_inv. exact F.
  - f_equal. rewrite !jseq_map_eq in *. apply jseq_list_mono; [|eapply jcons_fin_inv; exact F].
    apply Forall2_map_same. intros t Hin. rewrite Forall_forall in IH. apply IH. exact Hin.
Qed.

Lemma marshal_err_mono g bad : forall f n d, fin (marshal_err f g bad n d) ->
  forall f', f <= f' -> marshal_err f' g bad n d = marshal_err f g bad n d.
Proof.
  induction f as [|f IH]; intros n d F f' Hle; [exfalso; apply F; reflexivity|].
  destruct f' as [|f']; [lia|]. cbn [marshal_err] in *.
  destruct (inb n bad); [reflexivity|]. destruct (unwrap_tree g n) as [ts|]; [|reflexivity].
  unfold marshal_nodes in *. rewrite !jseq_map_eq in *. apply jseq_list_mono; [|exact F].
  apply Forall2_map_same. intros t _. apply marshal_node_mono.
  intros m d' F'. apply IH; [exact F'|lia].
Qed.

(* with a rank bounded by the number of nodes, the fuel of the check suffices *)
Lemma json_fuel_suffices g bad rank : G g -> edge_ranked g rank ->
  forall n, is_errdef g n = true -> rank n <= List.length g ->
  fin (marshal_g (json_fuel g) g bad n).
Proof.
  intros HG Hr n He Hb. unfold marshal_g, json_fuel.
  pose proof (marshal_err_fin g bad rank HG Hr (rank n) n 0 (le_n _) He) as F.
  rewrite (marshal_err_mono g bad _ n 0 F (S (List.length g))) by lia. exact F.
Qed.

(* an unencodable field is the only source of an error *)
Lemma jseq_list_nofail l : Forall (fun r => r <> JFail) l -> jseq_list l <> JFail.
Proof.
  induction 1 as [|a r Ha _ IH]; simpl; [congruence|].
  destruct a; [|congruence|congruence]. destruct (jseq_list r); congruence.
Qed.
Lemma jcons_nofail d r : r <> JFail -> jcons d r <> JFail.
Proof. destruct r; simpl; congruence. Qed.

Lemma marshal_node_nofail g re : (forall m d, re m d <> JFail) -> forall t d, marshal_node g re d t <> JFail.
Proof.
  intros Hre. induction t as [m c kids IH] using tree_ind'. intros d. cbn [marshal_node].
  destruct (is_errdef g m); apply jcons_nofail; [apply Hre|].
  rewrite jseq_map_eq. apply jseq_list_nofail. rewrite Forall_forall in *. intros r Hin.
  apply in_map_iff in Hin as [t [<- Hin]]. apply IH. exact Hin.
Qed.

Lemma marshal_err_nofail g : forall f n d, marshal_err f g [] n d <> JFail.
Proof.
  induction f as [|f IH]; intros n d; cbn [marshal_err]; [congruence|].
  cbn [inb existsb]. destruct (unwrap_tree g n) as [ts|]; [|congruence].
  unfold marshal_nodes. rewrite jseq_map_eq. apply jseq_list_nofail. rewrite Forall_forall. intros r Hin.
  apply in_map_iff in Hin as [t [<- Hin]]. apply marshal_node_nofail. exact IH.
Qed.

(* ---------- K1: e = D.Wrap(f); f.cause = e ---------- *)
Definition g_k1 : graph := [ gp 1%N (USingle (Some 1)); ge 2%N [Some 0] ].

Lemma k1_tree : unwrap_tree g_k1 1 = Some [Node 0 true [Node 1 false []]].
Proof. vm_compute. reflexivity. Qed.

Lemma json_diverges : G g_k1 /\ (forall fuel, marshal_g fuel g_k1 [] 1 = JOut).
Proof.
  split; [apply Gb_sound; vm_compute; reflexivity|].
  unfold marshal_g. assert (H : forall fuel d, marshal_err fuel g_k1 [] 1 d = JOut).
  { induction fuel as [|f IH]; intros d; [reflexivity|].
    cbn [marshal_err inb existsb]. rewrite k1_tree.
    cbn [marshal_nodes jseq_map marshal_node].
    change (is_errdef g_k1 0) with false. change (is_errdef g_k1 1) with true. cbv iota.
    cbn [jseq_map marshal_node]. change (is_errdef g_k1 1) with true. cbv iota.
    rewrite IH. reflexivity. }
  intros fuel. apply H.
Qed.
(* ====================================================================== *)
(* 2b. the fuel of the check decides: out of fuel at |g| = out of every fuel *)
(* ====================================================================== *)
Definition cls (r : jres) : nat := match r with JOk _ => 0 | JFail => 1 | JOut => 2 end.

Lemma cls_jcons d d' r r' : cls r = cls r' -> cls (jcons d r) = cls (jcons d' r').
Proof. destruct r, r'; simpl; congruence. Qed.

Lemma cls_jseq_map {A} (f f' : A -> jres) l :
  (forall a, In a l -> cls (f a) = cls (f' a)) -> cls (jseq_map f l) = cls (jseq_map f' l).
Proof.
  induction l as [|a r IH]; intros H; [reflexivity|]. cbn [jseq_map].
  pose proof (H a (or_introl eq_refl)) as Ha.
  assert (Hr := IH (fun x Hx => H x (or_intror Hx))).
  destruct (f a), (f' a); simpl in Ha; try discriminate; try reflexivity.
  destruct (jseq_map f r), (jseq_map f' r); simpl in Hr; try discriminate; reflexivity.
Qed.

Lemma cls_marshal_node g re : (forall m d d', cls (re m d) = cls (re m d')) ->
  forall t d d', cls (marshal_node g re d t) = cls (marshal_node g re d' t).
Proof.
  intros Hre. induction t as [m c kids IH] using tree_ind'. intros d d'. cbn [marshal_node].
  destruct (is_errdef g m); apply cls_jcons; [apply Hre|].
  apply cls_jseq_map. intros t Hin. rewrite Forall_forall in IH. apply IH. exact Hin.
Qed.

Lemma cls_marshal_err g bad : forall f n d d', cls (marshal_err f g bad n d) = cls (marshal_err f g bad n d').
Proof.
  induction f as [|f IH]; intros n d d'; [reflexivity|]. cbn [marshal_err].
  destruct (inb n bad); [reflexivity|]. destruct (unwrap_tree g n) as [ts|]; [|reflexivity].
  unfold marshal_nodes. apply cls_jseq_map. intros t _. apply cls_marshal_node. intros m e e'. apply IH.
Qed.

Lemma out_any_depth g bad f n d d' : marshal_err f g bad n d = JOut -> marshal_err f g bad n d' = JOut.
Proof.
  intros H. pose proof (cls_marshal_err g bad f n d d') as C. rewrite H in C.
  destruct (marshal_err f g bad n d'); simpl in C; congruence.
Qed.

(* where two runs of a sequence differ: the first element that ran out of fuel *)
Lemma flip_list {A} (f1 f2 : A -> jres) l :
  (forall a, In a l -> f1 a <> JOut -> f2 a = f1 a) ->
  jseq_map f1 l = JOut -> jseq_map f2 l <> JOut ->
  exists a, In a l /\ f1 a = JOut /\ f2 a <> JOut.
Proof.
  induction l as [|a r IH]; intros Hm H1 H2; cbn [jseq_map] in *; [discriminate|].
  destruct (f1 a) as [s1| |] eqn:E1.
  - assert (E2 : f2 a = JOk s1) by (rewrite <- E1; apply Hm; [left; reflexivity|congruence]).
    rewrite E2 in H2.
    destruct (IH (fun x Hx => Hm x (or_intror Hx))) as [x [Hx Hf]].
    + destruct (jseq_map f1 r); congruence.
    + destruct (jseq_map f2 r); congruence.
    + exists x. split; [right; exact Hx|exact Hf].
  - discriminate.
  - exists a. split; [left; reflexivity|]. split; [exact E1|]. intros E2. rewrite E2 in H2. congruence.
Qed.

Lemma jcons_out d r : jcons d r = JOut -> r = JOut.
Proof. destruct r; simpl; congruence. Qed.
Lemma jcons_not_out d r : jcons d r <> JOut -> r <> JOut.
Proof. destruct r; simpl; congruence. Qed.

Lemma flip_node g (re1 re2 : nat -> nat -> jres) (P : nat -> Prop) :
  (forall m d, re1 m d <> JOut -> re2 m d = re1 m d) ->
  forall t d, AllN P t -> marshal_node g re1 d t = JOut -> marshal_node g re2 d t <> JOut ->
  exists m d', P m /\ re1 m d' = JOut /\ re2 m d' <> JOut.
Proof.
  intros Hm. induction t as [m c kids IH] using tree_ind'. intros d A H1 H2. inversion A; subst.
  cbn [marshal_node] in *. destruct (is_errdef g m).
  - exists m, (S d). split; [assumption|]. split; [eapply jcons_out; exact H1|eapply jcons_not_out; exact H2].
  - apply jcons_out in H1. apply jcons_not_out in H2.
    destruct (flip_list (marshal_node g re1 (S d)) (marshal_node g re2 (S d)) kids) as [t [Hin [E1 E2]]]; auto.
    { intros t _ F. apply marshal_node_mono; [exact Hm|exact F]. }
    rewrite Forall_forall in *. eapply IH; eauto.
Qed.

(* the nodes of a built tree are nodes of the graph *)
Lemma build_node_inrange g : forall fuel n vm t vm', build_node fuel g n vm = Some (Some t, vm') ->
  AllN (fun m => m < List.length g) t.
Proof.
  induction fuel as [|f IH]; intros n vm t vm' H; [discriminate|].
  cbn [build_node] in H. destruct (nth_error g n) as [nd|] eqn:En; [|discriminate].
  assert (Hn : n < List.length g) by (apply nth_error_Some; congruence).
  assert (Kids : forall vm0 kids vm2, build_list (build_node f g) (causes_of nd) vm0 = Some (kids, vm2) ->
                 Forall (AllN (fun m => m < List.length g)) kids).
  { intros vm0 kids vm2 E.
    eapply (build_list_AllN (build_node f g) _ (fun _ => True)); [| |exact E]; [|auto].
    intros c vm1 t1 vm1' _ E1. eapply IH. exact E1. }
  destruct (g_key nd) as [ptr|].
  - destruct (vmem ptr vm); [discriminate|].
    destruct (build_list (build_node f g) (causes_of nd) (vset ptr ptr vm)) as [[kids vm2]|] eqn:E; [|discriminate].
    destruct (on_exit ptr vm2) as [cyc vm3]. inversion H; subst. constructor; [exact Hn|]. eapply Kids. exact E.
  - destruct (build_list (build_node f g) (causes_of nd) vm) as [[kids vm2]|] eqn:E; [|discriminate].
    inversion H; subst. constructor; [exact Hn|]. eapply Kids. exact E.
Qed.

Lemma unwrap_tree_inrange g n ts : unwrap_tree g n = Some ts ->
  Forall (AllN (fun m => m < List.length g)) ts.
Proof.
  intros H. unfold unwrap_tree in H. destruct (build_cause_tree_inv _ _ _ _ H) as [nd [vm [En E]]].
  unfold build_nodes in E.
  eapply (build_list_AllN (build_node (fuel_bound g) g) _ (fun _ => True)); [| |exact E]; [|auto].
  intros c vm1 t1 vm1' _ E1. eapply build_node_inrange. exact E1.
Qed.

Section Decide.
  Variable g : graph.
  Variable bad : list nat.

  (* n runs out of fuel k but not of fuel k+1 *)
  Definition flips (n k : nat) : Prop :=
    exists d, marshal_err k g bad n d = JOut /\ marshal_err (S k) g bad n d <> JOut.

  Lemma flips_unique n k k' : flips n k -> flips n k' -> k = k'.
  Proof.
    assert (W : forall a b, flips n a -> flips n b -> a < b -> False).
    { intros a b [d [_ Ha]] [d' [Hb _]] Hlt.
      apply (out_any_depth g bad b n d' d) in Hb.
      rewrite (marshal_err_mono g bad (S a) n d Ha b) in Hb by lia. contradiction. }
    intros H1 H2. destruct (Nat.lt_trichotomy k k') as [L|[E|L]]; [exfalso; exact (W k k' H1 H2 L)|exact E|exfalso; exact (W k' k H2 H1 L)].
  Qed.

  Lemma flips_step n k : flips n (S k) -> exists m, m < List.length g /\ flips m k.
  Proof.
    intros [d [H1 H2]]. cbn [marshal_err] in H1. change (marshal_err (S (S k)) g bad n d) with
      (if inb n bad then JFail else match unwrap_tree g n with
                                    | None => JOut
                                    | Some ts => marshal_nodes g (marshal_err (S k) g bad) d ts end) in H2.
    destruct (inb n bad); [discriminate|]. destruct (unwrap_tree g n) as [ts|] eqn:Et; [|congruence].
    pose proof (unwrap_tree_inrange g n ts Et) as A. unfold marshal_nodes in *.
    assert (Hm : forall m e, marshal_err k g bad m e <> JOut -> marshal_err (S k) g bad m e = marshal_err k g bad m e).
    { intros m e F. apply marshal_err_mono; [exact F|lia]. }
    destruct (flip_list (marshal_node g (marshal_err k g bad) d) (marshal_node g (marshal_err (S k) g bad) d) ts)
      as [t [Hin [E1 E2]]]; auto.
    { intros t _ F. apply marshal_node_mono; [exact Hm|exact F]. }
    rewrite Forall_forall in A.
    destruct (flip_node g _ _ (fun m => m < List.length g) Hm t d (A t Hin) E1 E2) as [m [d' [Hr [F1 F2]]]].
    exists m. split; [exact Hr|]. exists d'. split; assumption.
  Qed.

  Lemma flips_chain : forall k n, n < List.length g -> flips n k ->
    exists l, List.length l = S k /\ NoDup l /\
              forall m, In m l -> m < List.length g /\ exists j, j <= k /\ flips m j.
  Proof.
    induction k as [|k IH]; intros n Hn Hf.
    - exists [n]. split; [reflexivity|]. split; [constructor; [intros []|constructor]|].
      intros m [<-|[]]. split; [exact Hn|]. exists 0. split; [lia|exact Hf].
    - destruct (flips_step n k Hf) as [m [Hm Hfm]]. destruct (IH m Hm Hfm) as [l [Hl [Hnd Hall]]].
      exists (n :: l). split; [simpl; lia|]. split.
      + constructor; [|exact Hnd]. intros Hin. destruct (Hall n Hin) as [_ [j [Hj Hfj]]].
        pose proof (flips_unique n _ _ Hf Hfj). lia.
      + intros x [<-|Hx]; [split; [exact Hn|]; exists (S k); split; [lia|exact Hf]|].
        destruct (Hall x Hx) as [Hr [j [Hj Hfj]]]. split; [exact Hr|]. exists j. split; [lia|exact Hfj].
  Qed.

  Lemma flips_bound n k : n < List.length g -> flips n k -> S k <= List.length g.
  Proof.
    intros Hn Hf. destruct (flips_chain k n Hn Hf) as [l [Hl [Hnd Hall]]]. rewrite <- Hl.
    rewrite <- (seq_length (List.length g) 0). apply NoDup_incl_length; [exact Hnd|].
    intros m Hm. apply in_seq. destruct (Hall m Hm). lia.
  Qed.

  Lemma fin_flips n d : forall f, marshal_err f g bad n d <> JOut ->
    exists k, k < f /\ marshal_err k g bad n d = JOut /\ marshal_err (S k) g bad n d <> JOut.
  Proof.
    induction f as [|f IH]; intros F; [exfalso; apply F; reflexivity|].
    destruct (marshal_err f g bad n d) eqn:E.
    - destruct IH as [k [Hk Hf]]; [congruence|]. exists k. split; [lia|exact Hf].
    - destruct IH as [k [Hk Hf]]; [congruence|]. exists k. split; [lia|exact Hf].
    - exists f. split; [lia|]. split; [exact E|exact F].
  Qed.

  (* out of fuel |g| (or more): out of every fuel, at every depth *)
  Theorem out_decides n d F : n < List.length g -> List.length g <= F ->
    marshal_err F g bad n d = JOut -> forall f d', marshal_err f g bad n d' = JOut.
  Proof.
    intros Hn HF Hout f d'. apply (out_any_depth g bad f n d d').
    destruct (marshal_err f g bad n d) eqn:E; [| |reflexivity]; exfalso.
    - destruct (fin_flips n d f ltac:(congruence)) as [k [_ [H1 H2]]].
      pose proof (flips_bound n k Hn (ex_intro _ d (conj H1 H2))) as B.
      rewrite (marshal_err_mono g bad (S k) n d H2 F) in Hout by lia. contradiction.
    - destruct (fin_flips n d f ltac:(congruence)) as [k [_ [H1 H2]]].
      pose proof (flips_bound n k Hn (ex_intro _ d (conj H1 H2))) as B.
      rewrite (marshal_err_mono g bad (S k) n d H2 F) in Hout by lia. contradiction.
  Qed.
End Decide.

(* the verdict of the check's model: Diverge = out of every fuel; otherwise the same result for
   every fuel from |g| on *)
Lemma json_fuel_decides g bad n : n < List.length g ->
  (marshal_g (json_fuel g) g bad n = JOut -> forall fuel, marshal_g fuel g bad n = JOut) /\
  (marshal_g (json_fuel g) g bad n <> JOut ->
     forall fuel, json_fuel g <= fuel -> marshal_g fuel g bad n = marshal_g (json_fuel g) g bad n).
Proof.
  intros Hn. unfold marshal_g, json_fuel. split.
  - intros H fuel. eapply out_decides; [exact Hn| |exact H]. lia.
  - intros H fuel Hf. apply marshal_err_mono; [exact H|exact Hf].
Qed.

(* hence no bound on the rank is needed for the fuel of the check *)
Lemma json_fuel_suffices_any_rank g bad rank : G g -> edge_ranked g rank ->
  forall n, is_errdef g n = true -> fin (marshal_g (json_fuel g) g bad n).
Proof.
  intros HG Hr n He Hout.
  destruct (is_errdef_nth _ _ He) as [nd [En _]].
  assert (Hn : n < List.length g) by (apply nth_error_Some; congruence).
  pose proof (proj1 (json_fuel_decides g bad n Hn) Hout (S (rank n))) as H.
  exact (marshal_err_fin g bad rank HG Hr (rank n) n 0 (le_n _) He H).
Qed.

(* ====================================================================== *)
(* 3. %#v                                                                  *)
(* ====================================================================== *)
(* no cycle among the inline-kinded nodes *)
Definition inline_ranked (g : graph) (inl : list nat) (rk : nat -> nat) : Prop :=
  forall n nd c, nth_error g n = Some nd -> inb n inl = true -> In (Some c) (causes_of nd) ->
    inb c inl = true -> rk c < rk n.

Lemma gs_walk_fin g inl rk : closed g -> inline_ranked g inl rk ->
  forall f n, rk n <= f -> n < List.length g -> inb n inl = true -> fin (gs_walk (S f) g inl n).
Proof.
  intros Hcl Hr. induction f as [|f IH]; intros n Hrk Hn Hin; cbn [gs_walk];
    (destruct (nth_error g n) as [nd|] eqn:En; [|apply nth_error_None in En; lia]);
    apply jcons_fin; rewrite jseq_map_eq; apply jseq_list_fin; rewrite Forall_forall; intros r Hr';
    apply in_map_iff in Hr' as [[c|] [<- Hc]]; try (unfold fin; congruence);
    (destruct (inb c inl) eqn:Ec; [|unfold fin; congruence]);
    pose proof (Hr n nd c En Hin Hc Ec) as Hlt.
  - lia.
  - apply IH; [lia|eapply Hcl; eauto|exact Ec].
Qed.

Lemma gs_walk_mono g inl : forall f n, fin (gs_walk f g inl n) ->
  forall f', f <= f' -> gs_walk f' g inl n = gs_walk f g inl n.
Proof.
  induction f as [|f IH]; intros n F f' Hle; [exfalso; apply F; reflexivity|].
  destruct f' as [|f']; [lia|]. cbn [gs_walk] in *.
  destruct (nth_error g n) as [nd|]; [|reflexivity].
  f_equal. rewrite !jseq_map_eq in *. apply jseq_list_mono; [|eapply jcons_fin_inv; exact F].
  apply Forall2_map_same. intros [c|] _; [|reflexivity].
  destruct (inb c inl); [|reflexivity]. intros F'. apply IH; [exact F'|lia].
Qed.

Lemma gostring_terminates g inl rk direct : closed g -> inline_ranked g inl rk ->
  (forall c, In c direct -> c < List.length g) ->
  forall fuel, (forall c, In c direct -> rk c < fuel) -> exists sh, gostring_g fuel g inl direct = JOk sh.
Proof.
  intros Hcl Hr Hd fuel Hf.
  assert (F : fin (gostring_g fuel g inl direct) /\ gostring_g fuel g inl direct <> JFail).
  { unfold gostring_g. split.
    - rewrite jseq_map_eq. apply jseq_list_fin. rewrite Forall_forall. intros r Hin.
      apply in_map_iff in Hin as [c [<- Hc]]. destruct (inb c inl) eqn:Ec; [|unfold fin; congruence].
      specialize (Hf c Hc). destruct fuel as [|f]; [lia|].
      apply (gs_walk_fin g inl rk Hcl Hr); [lia|auto|exact Ec].
    - rewrite jseq_map_eq. apply jseq_list_nofail. rewrite Forall_forall. intros r Hin.
      apply in_map_iff in Hin as [c [<- Hc]]. destruct (inb c inl); [|congruence].
      clear. revert c. induction fuel as [|f IH]; intros c; cbn [gs_walk]; [congruence|].
      destruct (nth_error g c) as [nd|]; [|congruence]. apply jcons_nofail; rewrite jseq_map_eq; apply jseq_list_nofail.
      rewrite Forall_forall. intros r Hin. apply in_map_iff in Hin as [[c'|] [<- _]]; [|congruence].
      destruct (inb c' inl); [apply IH|congruence]. }
  destruct F as [F1 F2]. unfold fin in F1. destruct (gostring_g fuel g inl direct); [eauto|congruence|congruence].
Qed.

(* K7: m := MM{}; m["c"] = []error{m}; e := D.Wrap(m) *)
Definition g_k7 : graph := [ gp 1%N (UMulti [Some 0]); ge 2%N [Some 0] ].
Lemma gostring_diverges :
  G g_k7 /\ (exists ts, unwrap_tree g_k7 1 = Some ts) /\
  (forall fuel, gostring_g fuel g_k7 [0] [0] = JOut).
Proof.
  split; [apply Gb_sound; vm_compute; reflexivity|]. split; [eexists; vm_compute; reflexivity|].
  assert (H : forall fuel, gs_walk fuel g_k7 [0] 0 = JOut).
  { induction fuel as [|f IH]; [reflexivity|]. cbn [gs_walk g_k7 nth_error causes_of g_unwrap gp jseq_map inb existsb Nat.eqb orb].
    rewrite IH. reflexivity. }
  intros fuel. unfold gostring_g. cbn [jseq_map inb existsb Nat.eqb orb]. rewrite H. reflexivity.
Qed.
(* ====================================================================== *)
(* 4. the source-snippet reader                                            *)
(* ====================================================================== *)
Lemma read_source_spec st fs p :
  forall st1 r op, read_source st fs p = (st1, r, op) ->
  (forall b, available st = Some b -> available st1 = Some b) /\
  (available st = Some false -> r = None /\ st1 = st /\ op = false) /\
  (forall L, r = Some L -> check_available st = true /\
     (lookup p (cache st) = Some L \/ (lookup p (cache st) = None /\ fs p = Present L))) /\
  (cache st1 = cache st \/
   exists L, fs p = Present L /\ lookup p (cache st) = None /\ cache st1 = (p, L) :: cache st) /\
  (op = false -> st1 = st) /\
  (check_available st = true -> lookup p (cache st) = None -> op = true).
Proof.
  intros st1 r op H. unfold read_source, check_available, mark, cache_put in *.
  destruct st as [av ca]. cbn [available cache] in *.
  destruct av as [[|]|]; cbn [negb] in H;
    try (destruct (lookup p ca) as [l|] eqn:El);
    try (destruct (fs p) as [l| | | |] eqn:Ef);
    inversion H; subst; cbn [available cache];
    repeat split; intros; try congruence; auto;
    try (match goal with HS : Some _ = Some _ |- _ => inversion HS; subst end; auto);
    try (right; eexists; repeat split; eauto; fail).
Qed.

Lemma get_source_lines_spec st fs p line around :
  forall st1 r op, get_source_lines st fs p line around = (st1, r, op) ->
  (exists st1' r' , read_source st fs p = (st1', r', op) /\ st1' = st1) /\
  ((0 <= around)%Z -> exists lines, r = Ok lines) /\
  (forall lines, r = Ok lines -> lines <> [] ->
     exists L, read_source st fs p = (st1, Some L, op) /\
       (1 <= line <= Z.of_nat (List.length L))%Z /\
       lines = firstn (Z.to_nat (Z.min (Z.of_nat (List.length L)) (line + around) - Z.max 0 (line - around - 1)))
                      (skipn (Z.to_nat (Z.max 0 (line - around - 1))) L) /\
       (Z.max 0 (line - around - 1) <= Z.min (Z.of_nat (List.length L)) (line + around))%Z).
Proof.
  intros st1 r op H. unfold get_source_lines in H.
  destruct (read_source st fs p) as [[st1' r'] op'] eqn:E.
  destruct r' as [L|].
  - destruct (Z.ltb line 1 || Z.ltb (Z.of_nat (List.length L)) line) eqn:Eb.
    + inversion H; subst. split; [eauto|]. split; [eauto|]. intros lines Hl Hne. inversion Hl; subst. congruence.
    + apply orb_false_iff in Eb as [E1 E2]. apply Z.ltb_ge in E1, E2.
      destruct (Z.ltb (Z.min (Z.of_nat (List.length L)) (line + around)) (Z.max 0 (line - around - 1))) eqn:Ec.
      * inversion H; subst. split; [eauto|]. split.
        -- intros Ha. apply Z.ltb_lt in Ec. lia.
        -- intros lines Hl. discriminate.
      * apply Z.ltb_ge in Ec. inversion H; subst. split; [eauto|]. split; [eauto|].
        intros lines Hl Hne. inversion Hl; subst. exists L. repeat split; auto; lia.
  - inversion H; subst. split; [eauto|]. split; [eauto|]. intros lines Hl Hne. inversion Hl; subst. congruence.
Qed.

Definition step_ok (r : step_result) : Prop :=
  let c := r_call r in let st := r_pre r in let st' := r_post r in
  exists s, r_out r = Ok s /\
    (s <> "" -> check_available st = true /\
       exists L, (lookup (c_path c) (cache st) = Some L \/
                  (lookup (c_path c) (cache st) = None /\ c_fs c (c_path c) = Present L)) /\
                 (1 <= c_line c <= Z.of_nat (List.length L))%Z) /\
    (forall b, available st = Some b -> available st' = Some b) /\
    (available st = Some false -> s = "" /\ st' = st /\ r_opened r = false) /\
    (cache st' = cache st \/
     exists L, c_fs c (c_path c) = Present L /\ lookup (c_path c) (cache st) = None /\
               cache st' = (c_path c, L) :: cache st) /\
    (r_opened r = false -> st' = st).

Lemma snippet_step_ok st c :
  forall st1 o op, snippet st (c_fs c) (c_path c) (c_line c) (c_around c) = (st1, o, op) ->
  step_ok {| r_pre := st; r_call := c; r_post := st1; r_out := o; r_opened := op |}.
Proof.
  intros st1 o op H. unfold step_ok. cbn [r_pre r_call r_post r_out r_opened].
  unfold snippet in H. destruct (Z.ltb 0 (c_around c) && negb (str_eqb (c_path c) "")) eqn:Eg.
  2:{ inversion H; subst. exists "". repeat split; auto; congruence. }
  apply andb_true_iff in Eg as [Ea _]. apply Z.ltb_lt in Ea.
  unfold frame_source in H.
  destruct (get_source_lines st (c_fs c) (c_path c) (c_line c) (c_around c)) as [[st1' r] op'] eqn:Eg.
  destruct (get_source_lines_spec _ _ _ _ _ _ _ _ Eg) as [[st2 [r2 [Er Est]]] [Hok Hne]]. subst st2.
  destruct (Hok ltac:(lia)) as [lines ->].
  destruct (read_source_spec _ _ _ _ _ _ Er) as [Hmono [Hfalse [Hsome [Hcache [Hop _]]]]].
  destruct lines as [|l0 lr].
  - inversion H; subst. exists "". split; [reflexivity|]. split; [congruence|].
    split; [exact Hmono|]. split; [|split; [exact Hcache|exact Hop]].
    intros Hf. destruct (Hfalse Hf) as [_ [-> ->]]. auto.
  - inversion H; subst. eexists. split; [reflexivity|].
    destruct (Hne (l0 :: lr) eq_refl ltac:(congruence)) as [L [Er2 [Hline _]]].
    rewrite Er in Er2. inversion Er2; subst r2.
    destruct (Hsome L eq_refl) as [Hav Hsrc].
    split; [intros _; split; [exact Hav|exists L; split; [exact Hsrc|exact Hline]]|].
    split; [exact Hmono|]. split; [|split; [exact Hcache|exact Hop]].
    intros Hf. destruct (Hfalse Hf) as [Hn _]. discriminate.
Qed.

Lemma run_calls_ok : forall cs st, Forall step_ok (run_calls st cs).
Proof.
  induction cs as [|c r IH]; intros st; cbn [run_calls]; [constructor|].
  destruct (snippet st (c_fs c) (c_path c) (c_line c) (c_around c)) as [[st1 o] op] eqn:E.
  constructor; [apply snippet_step_ok; exact E|apply IH].
Qed.

(* the states are chained, and the memo is written at most once over the whole sequence *)
Lemma run_calls_chain : forall cs st,
  (match run_calls st cs with r :: _ => r_pre r = st | [] => True end) /\
  (forall pre r1 r2 post, run_calls st cs = pre ++ r1 :: r2 :: post -> r_pre r2 = r_post r1).
Proof.
  induction cs as [|c r IH]; intros st; cbn [run_calls]; [split; [exact I|intros [|? ?] ? ? ? H; discriminate]|].
  destruct (snippet st (c_fs c) (c_path c) (c_line c) (c_around c)) as [[st1 o] op] eqn:E.
  split; [reflexivity|]. intros pre r1 r2 post H. destruct (IH st1) as [Hhd Hch].
  destruct pre as [|x pre]; cbn in H; inversion H; subst.
  - rewrite H2 in Hhd. cbn [r_post]. exact Hhd.
  - eapply Hch. exact H2.
Qed.

Lemma run_calls_decided : forall cs st b, available st = Some b ->
  Forall (fun r => available (r_pre r) = Some b /\ available (r_post r) = Some b) (run_calls st cs).
Proof.
  induction cs as [|c r IH]; intros st b Hb; cbn [run_calls]; [constructor|].
  destruct (snippet st (c_fs c) (c_path c) (c_line c) (c_around c)) as [[st1 o] op] eqn:E.
  pose proof (snippet_step_ok st c st1 o op E) as [s [_ [_ [Hm _]]]]. cbn in Hm.
  constructor; [cbn; split; [exact Hb|apply Hm; exact Hb]|apply IH; apply Hm; exact Hb].
Qed.

(* once decided false: nothing is returned, nothing changes, the file system is not consulted *)
Lemma run_calls_false : forall cs st, available st = Some false ->
  Forall (fun r => r_out r = Ok "" /\ r_post r = st /\ r_opened r = false) (run_calls st cs).
Proof.
  induction cs as [|c r IH]; intros st Hb; cbn [run_calls]; [constructor|].
  destruct (snippet st (c_fs c) (c_path c) (c_line c) (c_around c)) as [[st1 o] op] eqn:E.
  pose proof (snippet_step_ok st c st1 o op E) as [s [Ho [_ [_ [Hf _]]]]]. cbn in Ho, Hf.
  destruct (Hf Hb) as [-> [-> ->]]. constructor; [cbn; auto|apply IH; exact Hb].
Qed.

(* ... independently of the file oracle *)
Lemma snippet_false_any_fs st fs fs' p line around : available st = Some false ->
  snippet st fs p line around = snippet st fs' p line around.
Proof.
  intros H. unfold snippet, frame_source, get_source_lines, read_source, check_available. rewrite H. reflexivity.
Qed.

(* raw getSourceLines panics only for a negative [around] *)
Lemma get_source_lines_no_panic st fs p line around : (0 <= around)%Z ->
  forall st1 r op, get_source_lines st fs p line around = (st1, r, op) -> exists lines, r = Ok lines.
Proof. intros Ha st1 r op H. destruct (get_source_lines_spec _ _ _ _ _ _ _ _ H) as [_ [Hok _]]. auto. Qed.

Lemma get_source_lines_panics :
  exists w, snd (fst (get_source_lines s_init (fun _ => Present ["a"; "b"; "c"; "d"; "e"]) "f.go" 3 (-2))) = Panic w.
Proof. eexists. vm_compute. reflexivity. Qed.
(* 5. the check: an observation that agrees with the model satisfies ok   *)
(* ====================================================================== *)
Lemma gs_walk_nofail g inl : forall fuel c, gs_walk fuel g inl c <> JFail.
Proof.
  induction fuel as [|f IH]; intros c; cbn [gs_walk]; [congruence|].
  destruct (nth_error g c) as [nd|]; [|congruence]. apply jcons_nofail; rewrite jseq_map_eq; apply jseq_list_nofail.
  rewrite Forall_forall. intros r Hin. apply in_map_iff in Hin as [[c'|] [<- _]]; [|congruence].
  destruct (inb c' inl); [apply IH|congruence].
Qed.
Lemma gostring_nofail fuel g inl direct : gostring_g fuel g inl direct <> JFail.
Proof.
  unfold gostring_g. rewrite jseq_map_eq. apply jseq_list_nofail. rewrite Forall_forall. intros r Hin.
  apply in_map_iff in Hin as [c [<- _]]. destruct (inb c inl); [apply gs_walk_nofail|congruence].
Qed.

Lemma marshal_fail_bad fuel g bad n : marshal_g fuel g bad n = JFail -> bad <> [].
Proof. intros H ->. exact (marshal_err_nofail g fuel n 0 H). Qed.

Lemma model_native_fail r : model_native r = MFail -> c_rk r = RJson /\ a_bad (c_attrs r) <> [].
Proof.
  unfold model_native. destruct (c_rk r) as [k|].
  - destruct k; cbn [walks]; try discriminate;
      try (destruct (unwrap_tree (c_graph r) (c_recv r)); [|discriminate];
           destruct (render_tree _ _ _ _ _); discriminate).
    intros H. exfalso. destruct (gostring_g _ _ _ _) eqn:E; try discriminate.
    exact (gostring_nofail _ _ _ _ E).
  - intros H. split; [reflexivity|].
    destruct (marshal_g _ _ _ _) eqn:E; try discriminate. exact (marshal_fail_bad _ _ _ _ E).
Qed.

Lemma agrees_ok m r : m <> MDiverge -> (m = MFail -> c_rk r = RJson /\ a_bad (c_attrs r) <> []) ->
  agrees m r = true -> ok_render r = true.
Proof.
  intros Hd Hf H. unfold agrees in H. unfold ok_render.
  destruct m as [sh| |]; destruct (c_out r); try discriminate; try congruence.
  - apply andb_true_iff in H as [_ H]. exact H.
  - destruct (Hf eq_refl) as [-> Hb]. cbn. destruct (a_bad (c_attrs r)); [congruence|reflexivity].
Qed.

Lemma corr_render_ok r : (c_restored r = false -> model_native r <> MDiverge) ->
  corr_render r = true -> ok_render r = true.
Proof.
  intros Hg H. unfold corr_render in H. destruct (c_restored r).
  - destruct (model_restored r) as [m|] eqn:E; [|discriminate].
    unfold model_restored in E. destruct (marshal_g _ _ _ _); try discriminate. inversion E; subst.
    eapply agrees_ok; [| |exact H]; congruence.
  - eapply agrees_ok; [apply Hg; reflexivity|apply model_native_fail|exact H].
Qed.

(* the graph-level guards under which the model of a native render never says Diverge *)
Definition render_guard (r : rcase) : Prop :=
  let g := c_graph r in
  G g /\ c_recv r < List.length g /\ is_errdef g (c_recv r) = true /\
  a_cycf (c_attrs r) = [] /\
  (exists rank, edge_ranked g rank) /\
  (exists rk, inline_ranked g (a_inline (c_attrs r)) rk /\
              forall c, In c (c_direct r) -> c < List.length g /\ rk c <= List.length g).

Lemma model_native_total r : render_guard r -> model_native r <> MDiverge.
Proof.
  intros [HG [Hr [He [Hc [[rank Hrk] [rk [Hik Hd]]]]]]]. unfold model_native.
  destruct (c_rk r) as [k|].
  - assert (T : forall k', walks k' = true ->
        match unwrap_tree (c_graph r) (c_recv r) with
        | Some ts => match render_tree (c_graph r) (c_attrs r) k' (c_recv r) ts with
                     | Some toks => MTotal (map fst toks) | None => MDiverge end
        | None => MDiverge end <> MDiverge).
    { intros k' _. destruct (unwrap_tree_total _ _ HG Hr) as [ts ->].
      rewrite render_tree_total by exact Hc. congruence. }
    destruct k; cbn [walks]; try congruence; try (apply T; reflexivity).
    destruct HG as [Hcl _].
    destruct (gostring_terminates (c_graph r) _ rk (c_direct r) Hcl Hik (fun c Hin => proj1 (Hd c Hin))
                (gs_fuel (c_graph r))) as [sh ->].
    + intros c Hin. unfold gs_fuel. destruct (Hd c Hin). lia.
    + cbn. congruence.
  - pose proof (json_fuel_suffices_any_rank _ (a_bad (c_attrs r)) rank HG Hrk _ He) as F. unfold fin in F.
    destruct (marshal_g _ _ _ _); cbn; congruence.
Qed.

(* ---------- boolean forms of the guards ---------- *)
Definition edge_rankedb (g : graph) (rank : nat -> nat) : bool :=
  forallb (fun p : nat * gnode =>
             let (n, nd) := p in
             forallb (fun oc => match oc with
                                | Some c => Nat.leb (rank c) (rank n) && (negb (g_errdef nd) || Nat.ltb (rank c) (rank n))
                                | None => true
                                end) (causes_of nd))
          (combine (seq 0 (List.length g)) g).
Lemma edge_rankedb_sound g rank : edge_rankedb g rank = true -> edge_ranked g rank.
Proof.
  unfold edge_rankedb, edge_ranked. rewrite forallb_forall. intros H n nd c Hn Hin.
  specialize (H (n, nd) (in_combine_seq g 0 n nd Hn)). simpl in H.
  rewrite forallb_forall in H. specialize (H _ Hin). simpl in H.
  apply andb_true_iff in H as [H1 H2]. apply Nat.leb_le in H1. split; [exact H1|].
  intros He. rewrite He in H2. simpl in H2. apply Nat.ltb_lt. exact H2.
Qed.

Definition inline_rankedb (g : graph) (inl : list nat) (rk : nat -> nat) : bool :=
  forallb (fun p : nat * gnode =>
             let (n, nd) := p in
             negb (inb n inl) ||
             forallb (fun oc => match oc with
                                | Some c => negb (inb c inl) || Nat.ltb (rk c) (rk n)
                                | None => true
                                end) (causes_of nd))
          (combine (seq 0 (List.length g)) g).
Lemma inline_rankedb_sound g inl rk : inline_rankedb g inl rk = true -> inline_ranked g inl rk.
Proof.
  unfold inline_rankedb, inline_ranked. rewrite forallb_forall. intros H n nd c Hn Hi Hin Hc.
  specialize (H (n, nd) (in_combine_seq g 0 n nd Hn)). simpl in H. rewrite Hi in H. simpl in H.
  rewrite forallb_forall in H. specialize (H _ Hin). simpl in H. rewrite Hc in H. simpl in H.
  apply Nat.ltb_lt. exact H.
Qed.

Definition render_guardb (r : rcase) (rank rk : nat -> nat) : bool :=
  let g := c_graph r in
  Gb g && Nat.ltb (c_recv r) (List.length g) && is_errdef g (c_recv r) && is_nil (a_cycf (c_attrs r))
  && edge_rankedb g rank
  && inline_rankedb g (a_inline (c_attrs r)) rk
  && forallb (fun c => Nat.ltb c (List.length g) && Nat.leb (rk c) (List.length g)) (c_direct r).
Lemma render_guardb_sound r rank rk : render_guardb r rank rk = true -> render_guard r.
Proof.
  unfold render_guardb, render_guard. rewrite !andb_true_iff.
  intros [[[[[[H1 H2] H3] H4] H5] H7] H8].
  split; [apply Gb_sound; exact H1|]. split; [apply Nat.ltb_lt; exact H2|]. split; [exact H3|].
  split; [destruct (a_cycf (c_attrs r)); [reflexivity|discriminate]|].
  split; [exists rank; apply edge_rankedb_sound; exact H5|].
  exists rk. split; [apply inline_rankedb_sound; exact H7|].
  intros c Hc. rewrite forallb_forall in H8. specialize (H8 c Hc). apply andb_true_iff in H8 as [A B].
  split; [apply Nat.ltb_lt; exact A|apply Nat.leb_le; exact B].
Qed.

(* ---------- source sequences ---------- *)
Lemma skipn_nth_cons {A} (d : A) : forall s l, s < List.length l -> skipn s l = nth s l d :: skipn (S s) l.
Proof.
  induction s as [|s IH]; intros [|x l] H; simpl in *; try lia; [reflexivity|].
  apply IH. lia.
Qed.

Lemma number_from_window (L : list string) : forall k s lo, s + k <= List.length L ->
  number_from lo (firstn k (skipn s L)) =
  map (fun i => ((lo + Z.of_nat i)%Z, nth (s + i) L "")) (seq 0 k).
Proof.
  induction k as [|k IH]; intros s lo H; [reflexivity|].
  rewrite (skipn_nth_cons "" s L) by lia. cbn [firstn number_from seq map].
  rewrite Z.add_0_r, Nat.add_0_r. f_equal.
  rewrite IH by lia. rewrite <- seq_shift, map_map. apply map_ext. intros i.
  f_equal; [lia|f_equal; lia].
Qed.

Lemma sline_eqb_eq a b : sline_eqb a b = true <-> a = b.
Proof.
  destruct a as [[n1 m1] t1], b as [[n2 m2] t2]. unfold sline_eqb. cbn [fst snd].
  rewrite !andb_true_iff, Z.eqb_eq, Bool.eqb_true_iff, str_eqb_eq. split; [intros [[-> ->] ->]; reflexivity|].
  intros H. inversion H. auto.
Qed.

(* the structured snippet of the model is the specification's window over the file's lines *)
Lemma model_window L line around :
  (1 <= line <= Z.of_nat (List.length L))%Z ->
  let start := Z.max 0 (line - around - 1) in
  let stop := Z.min (Z.of_nat (List.length L)) (line + around) in
  (start <= stop)%Z ->
  map (fun e => (fst e, Z.eqb (fst e) line, snd e))
      (number_from (Z.max 1 (line - around)) (firstn (Z.to_nat (stop - start)) (skipn (Z.to_nat start) L)))
  = expected_window L line around.
Proof.
  intros Hl start stop Hs. unfold expected_window.
  assert (E : Z.leb 1 line && Z.leb line (Z.of_nat (List.length L)) = true).
  { apply andb_true_iff. split; apply Z.leb_le; lia. }
  rewrite E. fold stop.
  assert (Hlo : Z.max 1 (line - around) = (start + 1)%Z) by (unfold start; lia).
  rewrite Hlo. rewrite number_from_window by (unfold start, stop in *; lia).
  rewrite map_map. replace (Z.to_nat (stop - (start + 1) + 1)) with (Z.to_nat (stop - start)) by lia.
  apply map_ext. intros i. cbn [fst snd]. f_equal. f_equal. unfold start. lia.
Qed.

Lemma expected_window_nonnil L line around : (1 <= line <= Z.of_nat (List.length L))%Z ->
  (Z.max 0 (line - around - 1) <= Z.min (Z.of_nat (List.length L)) (line + around))%Z ->
  is_nil (expected_window L line around) = false.
Proof.
  intros Hl Hs. unfold expected_window.
  assert (E : Z.leb 1 line && Z.leb line (Z.of_nat (List.length L)) = true).
  { apply andb_true_iff. split; apply Z.leb_le; lia. }
  rewrite E.
  remember (Z.to_nat (Z.min (Z.of_nat (List.length L)) (line + around) - Z.max 1 (line - around) + 1)) as k.
  destruct k as [|k]; [|reflexivity].
  (* non-empty: either the slice is empty (start = stop) ... *)
  exfalso. lia.
Qed.

Lemma list_eqb_refl' {A} (eqb : A -> A -> bool) : (forall a b, eqb a b = true <-> a = b) ->
  forall l, list_eqb eqb l l = true.
Proof. intros H l. apply (list_eqb_eq eqb H). reflexivity. Qed.

Definition cache_sound (hist : list (list (string * fres))) (st : sstate) : Prop :=
  forall p L, lookup p (cache st) = Some L -> exists files, In files hist /\ fs_of files p = Present L.

Lemma lookup_cons p q l c : lookup p ((q, l) :: c) = if str_eqb p q then Some l else lookup p c.
Proof. reflexivity. Qed.

(* one frame *)
Lemma frame_ok hist files st p line around :
  cache_sound (files :: hist) st ->
  forall st1 o op, frame_source st (fs_of files) p line around = (st1, o, op) ->
  cache_sound (files :: hist) st1 /\
  (forall b, available st = Some b -> available st1 = Some b) /\
  snippet_ok (files :: hist) around (p, line) (model_parsed st (fs_of files) p line around) = true /\
  (available st = Some false -> model_parsed st (fs_of files) p line around = []).
Proof.
  intros Hcs st1 o op H. unfold frame_source in H.
  destruct (get_source_lines st (fs_of files) p line around) as [[st1' r] op'] eqn:Eg.
  assert (st1' = st1 /\ op' = op) as [-> ->] by (destruct r as [[|? ?]| |]; inversion H; auto).
  destruct (get_source_lines_spec _ _ _ _ _ _ _ _ Eg) as [[st2 [r2 [Er Est]]] [_ Hne]]. subst st2.
  destruct (read_source_spec _ _ _ _ _ _ Er) as [Hmono [Hfalse [Hsome [Hcache [_ _]]]]].
  split.
  { intros q L Hq. destruct Hcache as [Hc|[L' [Hf [Hl Hc]]]]; rewrite Hc in Hq; [apply Hcs; exact Hq|].
    rewrite lookup_cons in Hq. destruct (str_eqb q p) eqn:Eq; [|apply Hcs; exact Hq].
    apply str_eqb_eq in Eq. subst q. inversion Hq; subst. exists files. split; [left; reflexivity|exact Hf]. }
  split; [exact Hmono|].
  unfold model_parsed. rewrite Eg. unfold snippet_ok. cbn [fst snd].
  destruct r as [lines| |]; try (split; [reflexivity|intros; reflexivity]).
  destruct lines as [|l0 lr]; [split; [reflexivity|intros; reflexivity]|].
  destruct (Hne (l0 :: lr) eq_refl ltac:(congruence)) as [L [Er2 [Hline [Hlines Hss]]]].
  rewrite Er in Er2. inversion Er2; subst r2.
  destruct (Hsome L eq_refl) as [Hav Hsrc].
  split.
  2:{ intros Hf. destruct (Hfalse Hf) as [Hn _]. discriminate. }
  apply orb_true_iff. right.
  assert (Hex : exists fl, In fl (files :: hist) /\ fs_of fl p = Present L).
  { destruct Hsrc as [Hc|[_ Hf]]; [apply Hcs; exact Hc|]. exists files. split; [left; reflexivity|exact Hf]. }
  destruct Hex as [fl [Hin Hfl]]. apply existsb_exists. exists fl. split; [exact Hin|]. rewrite Hfl.
  rewrite Hlines. rewrite (model_window L line around Hline Hss).
  rewrite (expected_window_nonnil L line around Hline Hss). cbn [negb andb].
  apply list_eqb_refl'. exact sline_eqb_eq.
Qed.

Lemma frames_ok hist files around depth : forall frames st i,
  cache_sound (files :: hist) st ->
  forall st2 outs, frames_and_source st (fs_of files) around depth i frames = (st2, outs) ->
  cache_sound (files :: hist) st2 /\
  (forall b, available st = Some b -> available st2 = Some b) /\
  forallb2 (snippet_ok (files :: hist) around) frames
           (model_parsed_frames st (fs_of files) around depth i frames) = true /\
  (available st = Some false ->
     forallb is_nil (model_parsed_frames st (fs_of files) around depth i frames) = true).
Proof.
  induction frames as [|[file line] r IH]; intros st i Hcs st2 outs H; cbn [frames_and_source model_parsed_frames] in *.
  - inversion H; subst. repeat split; auto.
  - destruct (want_source around depth i file).
    + destruct (frame_source st (fs_of files) file line around) as [[st1 s] op] eqn:Ef.
      destruct (frames_and_source st1 (fs_of files) around depth (S i) r) as [st3 rest] eqn:Er.
      inversion H; subst.
      destruct (frame_ok hist files st file line around Hcs _ _ _ Ef) as [Hcs1 [Hm1 [Hs1 Hf1]]].
      destruct (IH st1 (S i) Hcs1 _ _ Er) as [Hcs2 [Hm2 [Hs2 Hf2]]].
      split; [exact Hcs2|]. split; [intros b Hb; apply Hm2, Hm1, Hb|].
      cbn [forallb2 forallb]. rewrite Hs1, Hs2. split; [reflexivity|].
      intros Hf. rewrite (Hf1 Hf). cbn [is_nil andb]. apply Hf2. apply Hm1. exact Hf.
    + destruct (frames_and_source st (fs_of files) around depth (S i) r) as [st3 rest] eqn:Er.
      inversion H; subst. destruct (IH st (S i) Hcs _ _ Er) as [Hcs2 [Hm2 [Hs2 Hf2]]].
      split; [exact Hcs2|]. split; [exact Hm2|]. cbn [forallb2 forallb snippet_ok is_nil orb andb].
      rewrite Hs2. split; [reflexivity|]. exact Hf2.
Qed.

Lemma cache_sound_weaken hist files st : cache_sound hist st -> cache_sound (files :: hist) st.
Proof. intros H p L Hp. destruct (H p L Hp) as [fl [Hin Hf]]. exists fl. split; [right; exact Hin|exact Hf]. Qed.

Lemma option_bool_eqb_eq (a b : option bool) : option_eqb Bool.eqb a b = true <-> a = b.
Proof. apply option_eqb_eq. intros x y. apply Bool.eqb_true_iff. Qed.

Lemma corr_steps_ok : forall steps hist st,
  cache_sound hist st -> corr_steps st steps = true -> ok_steps hist (available st) steps = true.
Proof.
  induction steps as [|s r IH]; intros hist st Hcs H; [reflexivity|].
  cbn [corr_steps ok_steps] in *.
  destruct (frames_and_source st (fs_of (s_files s)) (s_around s) (s_depth s) 0 (s_frames s)) as [st1 outs] eqn:Ef.
  repeat (apply andb_true_iff in H as [H ?]).
  match goal with Hp : list_eqb (list_eqb sline_eqb) _ (s_parsed s) = true |- _ =>
    apply (list_eqb_eq _ (list_eqb_eq _ sline_eqb_eq)) in Hp; rename Hp into Hparsed end.
  match goal with Ha : option_eqb Bool.eqb (available st1) (s_avail s) = true |- _ =>
    apply option_bool_eqb_eq in Ha; rename Ha into Havail end.
  destruct (frames_ok hist (s_files s) (s_around s) (s_depth s) (s_frames s) st 0
              (cache_sound_weaken _ _ _ Hcs) _ _ Ef) as [Hcs1 [Hm [Hs Hf]]].
  rewrite <- Hparsed, <- Havail. rewrite H, Hs. cbn [andb].
  assert (Hmono : avail_mono (available st) (available st1) = true).
  { unfold avail_mono. destruct (available st) as [b|] eqn:Eb; [|reflexivity].
    rewrite (Hm b eq_refl). apply option_bool_eqb_eq. reflexivity. }
  rewrite Hmono. cbn [andb].
  assert (Hfalse : match available st with
                   | Some false => forallb is_nil (model_parsed_frames st (fs_of (s_files s)) (s_around s) (s_depth s) 0 (s_frames s))
                   | _ => true end = true).
  { destruct (available st) as [[|]|] eqn:Eb; auto. }
  rewrite Hfalse. cbn [andb]. apply IH; [exact Hcs1|assumption].
Qed.

Lemma corr_source_ok steps : corr_source steps = true -> ok_source steps = true.
Proof.
  intros H. unfold corr_source in H. unfold ok_source.
  apply (corr_steps_ok steps [] s_init); [|exact H].
  intros p L Hp. discriminate.
Qed.

(* ====================================================================== *)
Lemma corr_implies_ok c :
  match c with
  | CR r => c_restored r = false -> model_native r <> MDiverge
  | CS _ => True
  end -> corr c = true -> ok c = true.
Proof.
  destruct c as [r|steps]; cbn [corr ok]; intros Hg H.
  - apply corr_render_ok; assumption.
  - apply corr_source_ok; assumption.
Qed.
