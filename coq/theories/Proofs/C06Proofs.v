(* C06 proofs.  Layers:
     map model (Model/Tree.v)  --refines-->  (key path, marker) model  --satisfies-->  Unf (Spec/Unfold.v)
   plus termination, functionality of Unf, the boolean checker, Walk, and the link to Check/C06.v. *)
From Errdef Require Import Base.Str Model.Tree Spec.Unfold Check.C06.

(* ====================================================================== *)
(* 1. the visited map                                                      *)
(* ====================================================================== *)
Lemma vget_vdel k k' m : vget k (vdel k' m) = if N.eqb k k' then None else vget k m.
Proof.
  induction m as [|[a v] r IH]; simpl.
  - now destruct (N.eqb k k').
  - destruct (N.eqb k' a) eqn:E1.
    + apply N.eqb_eq in E1. subst a. rewrite IH. destruct (N.eqb k k'); reflexivity.
    + simpl. destruct (N.eqb k a) eqn:E2.
      * apply N.eqb_eq in E2. subst a. rewrite N.eqb_sym, E1. reflexivity.
      * exact IH.
Qed.

Lemma vget_vset k k' v m : vget k (vset k' v m) = if N.eqb k k' then Some v else vget k m.
Proof.
  unfold vset. simpl. destruct (N.eqb k k') eqn:E; [reflexivity|].
  rewrite vget_vdel, E. reflexivity.
Qed.

Lemma vmem_vset k k' v m : vmem k (vset k' v m) = N.eqb k k' || vmem k m.
Proof. unfold vmem. rewrite vget_vset. now destruct (N.eqb k k'). Qed.

Lemma vmem_vdel k k' m : vmem k (vdel k' m) = negb (N.eqb k k') && vmem k m.
Proof. unfold vmem. rewrite vget_vdel. now destruct (N.eqb k k'). Qed.

(* ====================================================================== *)
(* 2. the abstract model: path of keys + marker                            *)
(* ====================================================================== *)
Definition memN (k : N) (l : list N) : bool := existsb (N.eqb k) l.
Definition mk_is (mk : option N) (k : N) : bool :=
  match mk with Some m => N.eqb m k | None => false end.
Definition pres (A : Type) := option (A * option N).

Fixpoint build_list_p (bn : nat -> option N -> pres (option tree)) (cs : list (option nat)) (mk : option N)
  : pres (list tree) :=
  match cs with
  | [] => Some ([], mk)
  | None :: r => build_list_p bn r mk
  | Some c :: r =>
      match bn c mk with
      | None => None
      | Some (ot, mk1) =>
          match build_list_p bn r mk1 with
          | None => None
          | Some (ts, mk2) => Some (match ot with Some t => t :: ts | None => ts end, mk2)
          end
      end
  end.

Fixpoint build_node_p (fuel : nat) (g : graph) (path : list N) (n : nat) (mk : option N) : pres (option tree) :=
  match fuel with
  | O => None
  | S f =>
      match nth_error g n with
      | None => None
      | Some nd =>
          match g_key nd with
          | Some k =>
              if memN k path then Some (None, Some k)
              else match build_list_p (build_node_p f g (k :: path)) (causes_of nd) mk with
                   | None => None
                   | Some (kids, mk') =>
                       if mk_is mk' k then Some (Some (Node n true kids), None)
                       else Some (Some (Node n false kids), mk')
                   end
          | None =>
              match build_list_p (build_node_p f g path) (causes_of nd) mk with
              | None => None
              | Some (kids, mk') => Some (Some (Node n false kids), mk')
              end
          end
      end
  end.

Definition build_nodes_p fuel g path cs mk := build_list_p (build_node_p fuel g path) cs mk.

Lemma memN_In k l : memN k l = true <-> In k l.
Proof.
  unfold memN. rewrite existsb_exists. split.
  - intros [x [Hin Heq]]. apply N.eqb_eq in Heq. subst. exact Hin.
  - intros Hin. exists k. split; [exact Hin | apply N.eqb_refl].
Qed.

Lemma mk_is_true mk k : mk_is mk k = true <-> mk = Some k.
Proof.
  destruct mk as [m|]; simpl; split; intros H; try discriminate.
  - apply N.eqb_eq in H. now subst.
  - inversion H. apply N.eqb_refl.
Qed.

(* ====================================================================== *)
(* 3. refinement                                                           *)
(* ====================================================================== *)
(* the map represents (path, marker): slot [marker_key] holds the marker, every other
   key is present exactly when it is on the path *)
Definition abs (vm : vmap) (path : list N) (mk : option N) : Prop :=
  vget marker_key vm = mk /\
  forall k, k <> marker_key -> (vmem k vm = true <-> In k path).

Definition rel {A} (path : list N) (r1 : bres A) (r2 : pres A) : Prop :=
  match r1, r2 with
  | Some (a, vm'), Some (a', mk') => a = a' /\ abs vm' path mk'
  | None, None => True
  | _, _ => False
  end.

Lemma refine_list bn bnp path :
  (forall c vm mk, abs vm path mk -> rel path (bn c vm) (bnp c mk)) ->
  forall cs vm mk, abs vm path mk -> rel path (build_list bn cs vm) (build_list_p bnp cs mk).
Proof.
  intros H cs. induction cs as [|[c|] r IH]; intros vm mk Ha; simpl.
  - split; [reflexivity|exact Ha].
  - specialize (H c vm mk Ha). unfold rel in H.
    destruct (bn c vm) as [[ot vm1]|], (bnp c mk) as [[ot' mk1]|]; try contradiction; [|exact I].
    destruct H as [-> Ha1]. specialize (IH vm1 mk1 Ha1). unfold rel in IH.
    destruct (build_list bn r vm1) as [[ts vm2]|], (build_list_p bnp r mk1) as [[ts' mk2]|];
      try contradiction; [|exact I].
    destruct IH as [-> Ha2]. split; [reflexivity|exact Ha2].
  - apply IH, Ha.
Qed.

Lemma neqb_false a b : a <> b -> N.eqb a b = false.
Proof. intros H. now apply N.eqb_neq. Qed.

Lemma refine_node g : keys_not_marker g ->
  forall fuel path n vm mk, abs vm path mk ->
    rel path (build_node fuel g n vm) (build_node_p fuel g path n mk).
Proof.
  intros Hnz fuel. induction fuel as [|f IH]; intros path n vm mk Ha; simpl; [exact I|].
  destruct (nth_error g n) as [nd|] eqn:Hnd; [|exact I].
  destruct (g_key nd) as [k|] eqn:Hk.
  - assert (Hkm : k <> marker_key) by (eapply Hnz; eauto).
    destruct Ha as [Hm Hp].
    assert (Hmem : vmem k vm = memN k path).
    { destruct (memN k path) eqn:E.
      - apply Hp; [exact Hkm|]. now apply memN_In.
      - destruct (vmem k vm) eqn:E2; [|reflexivity].
        apply Hp in E2; [|exact Hkm]. apply memN_In in E2. congruence. }
    rewrite Hmem. destruct (memN k path) eqn:Hin.
    + split; [reflexivity|]. split.
      * rewrite vget_vset, N.eqb_refl. reflexivity.
      * intros k' Hk'. rewrite vmem_vset, (neqb_false _ _ Hk'). simpl. now apply Hp.
    + assert (Ha1 : abs (vset k k vm) (k :: path) mk).
      { split.
        - rewrite vget_vset. rewrite (neqb_false marker_key k) by congruence. exact Hm.
        - intros k' Hk'. rewrite vmem_vset. simpl. destruct (N.eqb k' k) eqn:E.
          + apply N.eqb_eq in E. subst. simpl. split; auto.
          + simpl. rewrite (Hp k' Hk'). apply N.eqb_neq in E. split; [auto|]. intros [C|C]; [congruence|exact C]. }
      pose proof (refine_list _ _ (k :: path) (fun c vm mk => IH (k :: path) c vm mk)
                    (causes_of nd) _ _ Ha1) as HL.
      unfold rel in HL.
      destruct (build_list (build_node f g) (causes_of nd) (vset k k vm)) as [[kids vm2]|],
               (build_list_p (build_node_p f g (k :: path)) (causes_of nd) mk) as [[kids' mkc]|];
        try contradiction; [|exact I].
      destruct HL as [-> [Hm2 Hp2]].
      assert (Hnotin : ~ In k path) by (intro C; apply memN_In in C; congruence).
      unfold on_exit. rewrite Hm2.
      assert (Hrest : forall vm3 mk', vget marker_key vm3 = mk' ->
                (forall k', k' <> marker_key -> vmem k' vm3 = vmem k' vm2) ->
                abs (vdel k vm3) path mk').
      { intros vm3 mk' H1 H2. split.
        - rewrite vget_vdel, (neqb_false marker_key k) by congruence. exact H1.
        - intros k' Hk'. rewrite vmem_vdel, (H2 k' Hk'). destruct (N.eqb k' k) eqn:E; simpl.
          + apply N.eqb_eq in E. subst. split; [discriminate|]. intros C. contradiction.
          + rewrite (Hp2 k' Hk'). apply N.eqb_neq in E. simpl. split; [intros [C|C]; [congruence|exact C]|auto]. }
      destruct mkc as [c|]; simpl.
      * destruct (N.eqb c k) eqn:E.
        -- split; [reflexivity|]. apply Hrest.
           ++ rewrite vget_vdel, N.eqb_refl. reflexivity.
           ++ intros k' Hk'. rewrite vmem_vdel, (neqb_false _ _ Hk'). reflexivity.
        -- split; [reflexivity|]. apply Hrest; [exact Hm2|reflexivity].
      * split; [reflexivity|]. apply Hrest; [exact Hm2|reflexivity].
  - pose proof (refine_list _ _ path (fun c vm mk => IH path c vm mk) (causes_of nd) _ _ Ha) as HL.
    unfold rel in HL.
    destruct (build_list (build_node f g) (causes_of nd) vm) as [[kids vm2]|],
             (build_list_p (build_node_p f g path) (causes_of nd) mk) as [[kids' mkc]|];
      try contradiction; [|exact I].
    destruct HL as [-> Ha2]. split; [reflexivity|exact Ha2].
Qed.

Lemma abs_empty : abs [] [] None.
Proof. split; [reflexivity|]. intros k _. unfold vmem. simpl. split; [discriminate|contradiction]. Qed.

Lemma refine_nodes g : keys_not_marker g ->
  forall fuel cs, rel [] (build_nodes fuel g cs []) (build_nodes_p fuel g [] cs None).
Proof.
  intros Hnz fuel cs. unfold build_nodes, build_nodes_p.
  apply refine_list; [|exact abs_empty].
  intros c vm mk Ha. now apply refine_node.
Qed.

(* ====================================================================== *)
(* 4. the abstract model computes the path-unfolding                       *)
(* ====================================================================== *)
Definition key_of (g : graph) (n : nat) (k : N) : Prop :=
  exists nd, nth_error g n = Some nd /\ g_key nd = Some k.

(* the key path is the list of keys of the node path *)
Definition path_rel (g : graph) (kpath : list N) (ipath : list nat) : Prop :=
  Forall2 (fun k i => key_of g i k) kpath ipath.

Lemma path_rel_in g kpath ipath : keys_injective g -> path_rel g kpath ipath ->
  forall n k, key_of g n k -> (In k kpath <-> In n ipath).
Proof.
  intros Hinj HR. induction HR as [|k0 i0 kp ip [nd0 [H0 K0]] HR IH]; intros n k [nd [Hn Kn]]; simpl; [tauto|].
  assert (IH' := IH n k (ex_intro _ nd (conj Hn Kn))).
  split; intros [E|E].
  - subst k0. left. eapply Hinj; eauto.
  - right. now apply IH'.
  - subst i0. left. congruence.
  - right. now apply IH'.
Qed.

Definition marker_ok (path : list N) (mk : option N) : Prop :=
  match mk with None => True | Some k => In k path end.

Definition post (g : graph) (path : list N) (mk mk' : option N) (flag : bool) (ds : list nat) : Prop :=
  marker_ok path mk' /\
  (ds = [] -> mk' = mk /\ flag = false) /\
  (ds <> [] -> flag = true \/ mk' <> None) /\
  (mk' = mk \/ mk' = None \/ exists m k, mk' = Some k /\ In m ds /\ key_of g m k).

Definition oflag (ot : option tree) : bool :=
  match ot with Some t => has_cycle_node t | None => false end.

Lemma marker_ok_cons path k mk : marker_ok path mk -> marker_ok (k :: path) mk.
Proof. destruct mk; simpl; auto. Qed.

Definition node_spec (bn : nat -> option N -> pres (option tree)) (g : graph)
  (kpath : list N) (ipath : list nat) : Prop :=
  forall n mk ot mk',
    bn n mk = Some (ot, mk') -> marker_ok kpath mk ->
    exists ds, Unf g ipath n (option_map erase ot) ds /\ post g kpath mk mk' (oflag ot) ds /\
               (forall t, ot = Some t -> FlagsSound g ipath t).

Lemma build_list_p_spec bn g kpath ipath :
  node_spec bn g kpath ipath ->
  forall cs mk ts mk',
    build_list_p bn cs mk = Some (ts, mk') -> marker_ok kpath mk ->
    exists ds, UnfL g ipath cs (map erase ts) ds /\ post g kpath mk mk' (has_cycle ts) ds /\
               Forall (FlagsSound g ipath) ts.
Proof.
  intros Hbn cs. induction cs as [|c r IH]; intros mk ts mk' H Hok; simpl in H.
  - inversion H; subst. exists []. split; [constructor|]. split; [|constructor].
    split; [exact Hok|]. split; [intros _; split; reflexivity|]. split; [intros Hne; now contradiction Hne|].
    left; reflexivity.
  - destruct c as [c|].
    + destruct (bn c mk) as [[ot mk1]|] eqn:Hc; [|discriminate].
      destruct (build_list_p bn r mk1) as [[ts2 mk2]|] eqn:Hr; [|discriminate].
      inversion H; subst; clear H.
      destruct (Hbn _ _ _ _ Hc Hok) as [d1 [HU1 [[Hok1 [Hz1 [Hn1 Hs1]]] HF1]]].
      destruct (IH _ _ _ Hr Hok1) as [d2 [HU2 [[Hok2 [Hz2 [Hn2 Hs2]]] HF2]]].
      exists (d1 ++ d2). split; [|split].
      * replace (map erase match ot with Some t => t :: ts2 | None => ts2 end)
          with (match option_map erase ot with Some s => s :: map erase ts2 | None => map erase ts2 end)
          by (destruct ot; reflexivity).
        now constructor.
      * split; [exact Hok2|]. split; [|split].
        -- intros Happ. apply app_eq_nil in Happ as [E1 E2].
           destruct (Hz1 E1) as [-> F1]. destruct (Hz2 E2) as [-> F2].
           split; [reflexivity|]. unfold has_cycle in *. destruct ot; simpl in *; [rewrite F1, F2|rewrite F2]; reflexivity.
        -- intros Hne. destruct d2 as [|x d2'].
           ++ destruct (Hz2 eq_refl) as [-> F2].
              rewrite app_nil_r in Hne. destruct (Hn1 Hne) as [F1|M1]; [left|right; exact M1].
              unfold has_cycle. destruct ot; simpl in *; [rewrite F1; reflexivity|discriminate].
           ++ assert (Hx : x :: d2' <> []) by discriminate.
              destruct (Hn2 Hx) as [F2|M2]; [left|right; exact M2].
              unfold has_cycle in *. destruct ot; simpl; [rewrite F2; apply orb_true_r|exact F2].
        -- destruct Hs2 as [E|[E|[m [k [E [Hin Hk]]]]]].
           ++ rewrite E. clear E. destruct Hs1 as [E|[E|[m [k [E [Hin Hk]]]]]]; [left; exact E|right; left; exact E|].
              right; right. exists m, k. split; [exact E|]. split; [apply in_or_app; left; exact Hin|exact Hk].
           ++ right; left; exact E.
           ++ right; right. exists m, k. split; [exact E|]. split; [apply in_or_app; right; exact Hin|exact Hk].
      * destruct ot as [t|]; [constructor; [apply HF1; reflexivity|exact HF2]|exact HF2].
    + destruct (IH _ _ _ H Hok) as [ds [HU Hp]]. exists ds. split; [now constructor|exact Hp].
Qed.

Lemma build_node_p_spec g : keys_injective g ->
  forall fuel kpath ipath, path_rel g kpath ipath -> node_spec (build_node_p fuel g kpath) g kpath ipath.
Proof.
  intros Hinj fuel. induction fuel as [|f IH]; intros kpath ipath HR n mk ot mk' H Hok; simpl in H; [discriminate|].
  destruct (nth_error g n) as [nd|] eqn:Hnd; [|discriminate].
  destruct (g_key nd) as [k|] eqn:Hk.
  - assert (Hkey : key_of g n k) by (exists nd; auto).
    assert (Hnn : g_key nd <> None) by congruence.
    pose proof (path_rel_in g kpath ipath Hinj HR n k Hkey) as Hio.
    destruct (memN k kpath) eqn:Hmem.
    + inversion H; subst; clear H. apply memN_In in Hmem.
      exists [n]. split; [simpl; eapply Unf_cut; eauto; now apply Hio|]. split; [|intros t C; discriminate].
      split; [exact Hmem|]. split; [intros C; discriminate|]. split; [intros _; right; discriminate|].
      right; right. exists n, k. split; [reflexivity|]. split; [left; reflexivity|exact Hkey].
    + assert (Hnin : ~ In k kpath) by (intro Hi; apply memN_In in Hi; congruence).
      assert (Hnin' : ~ In n ipath) by (intro Hi; apply Hio in Hi; contradiction).
      assert (HR' : path_rel g (k :: kpath) (n :: ipath)) by (constructor; assumption).
      destruct (build_list_p (build_node_p f g (k :: kpath)) (causes_of nd) mk) as [[kids mkc]|] eqn:Hf; [|discriminate].
      destruct (build_list_p_spec _ g (k :: kpath) (n :: ipath) (IH _ _ HR') _ _ _ _ Hf (marker_ok_cons _ _ _ Hok))
        as [ds [HU [[Hokc [Hz [Hn Hs]]] HF]]].
      assert (HUn : Unf g ipath n (Some (SNode n (map erase kids))) ds) by (eapply Unf_tracked; eauto).
      assert (HFk : Forall (FlagsSound g (path_ext g ipath n)) kids).
      { unfold path_ext. rewrite Hnd, Hk. exact HF. }
      destruct (mk_is mkc k) eqn:Hm; inversion H; subst; clear H.
      * apply mk_is_true in Hm. subst mkc.
        assert (Hin : In n ds).
        { destruct Hs as [E|[E|[m [k' [E [Hin Hk']]]]]].
          - subst mk. simpl in Hok. contradiction.
          - discriminate.
          - inversion E; subst k'. destruct Hk' as [md [Hmd Kmd]].
            assert (m = n) by (eapply Hinj; eauto). subst m. exact Hin. }
        exists ds. split; [exact HUn|]. split.
        -- split; [exact I|]. split.
           ++ intros E. subst ds. contradiction.
           ++ split; [intros _; left; reflexivity|]. right; left; reflexivity.
        -- intros t E. inversion E; subst t. constructor; [|exact HFk].
           intros _. exists (Some (SNode n (map erase kids))), ds. split; assumption.
      * exists ds. split; [exact HUn|]. split.
        -- split.
           ++ destruct mk' as [m|]; simpl in *; auto. destruct Hokc as [E|Hin]; auto.
              subst m. rewrite N.eqb_refl in Hm. discriminate.
           ++ split; [|split].
              ** intros E. destruct (Hz E) as [-> F]. split; [reflexivity|]. simpl. exact F.
              ** intros Hne. destruct (Hn Hne) as [F|M]; [left; simpl; exact F|right; exact M].
              ** exact Hs.
        -- intros t E. inversion E; subst t. constructor; [intros C; discriminate|exact HFk].
  - destruct (build_list_p (build_node_p f g kpath) (causes_of nd) mk) as [[kids mkc]|] eqn:Hf; [|discriminate].
    inversion H; subst; clear H.
    destruct (build_list_p_spec _ g kpath ipath (IH _ _ HR) _ _ _ _ Hf Hok) as [ds [HU [[Hokc [Hz [Hn Hs]]] HF]]].
    exists ds. split; [simpl; eapply Unf_untracked; eauto|]. split.
    + split; [exact Hokc|]. split; [|split].
      * intros E. destruct (Hz E) as [-> F]. split; [reflexivity|exact F].
      * intros Hne. destruct (Hn Hne) as [F|M]; [left; exact F|right; exact M].
      * exact Hs.
    + intros t E. inversion E; subst t. constructor; [intros C; discriminate|].
      unfold path_ext. rewrite Hnd, Hk. exact HF.
Qed.

(* top level: empty path, no marker *)
Lemma build_nodes_p_top g fuel cs ts mk' : keys_injective g ->
  build_nodes_p fuel g [] cs None = Some (ts, mk') ->
  exists ds, UnfL g [] cs (map erase ts) ds /\ (has_cycle ts = true <-> ds <> []) /\
             Forall (FlagsSound g []) ts /\ mk' = None.
Proof.
  intros Hinj H.
  destruct (build_list_p_spec _ g [] [] (build_node_p_spec g Hinj fuel [] [] (Forall2_nil _)) _ _ _ _ H I)
    as [ds [HU [[Hok [Hz [Hn Hs]]] HF]]].
  assert (Hmk : mk' = None) by (destruct mk' as [m|]; [simpl in Hok; contradiction|reflexivity]).
  exists ds. split; [exact HU|]. split; [|split; [exact HF|exact Hmk]]. split.
  - intros Hc E. destruct (Hz E) as [_ F]. congruence.
  - intros Hne. destruct (Hn Hne) as [F|M]; [exact F|congruence].
Qed.

(* ====================================================================== *)
(* 5. termination: an explicit fuel bound                                  *)
(* ====================================================================== *)
Definition freeb (kpath : list N) (nd : gnode) : bool :=
  match g_key nd with Some k => negb (memN k kpath) | None => false end.
(* tracked nodes whose key is not on the path *)
Definition free (g : graph) (kpath : list N) : nat := List.length (filter (freeb kpath) g).
Definition rank (g : graph) (n : nat) : nat :=
  match nth_error g n with
  | Some nd => match g_key nd with Some _ => 0 | None => S n end
  | None => 0
  end.
(* the lexicographic measure (free, rank) as one number *)
Definition measure (g : graph) (kpath : list N) (n : nat) : nat :=
  free g kpath * S (List.length g) + rank g n.

Lemma filter_len_le {A} (p q : A -> bool) l :
  (forall x, p x = true -> q x = true) -> List.length (filter p l) <= List.length (filter q l).
Proof.
  intros H. induction l as [|x r IH]; simpl; [lia|].
  destruct (p x) eqn:E.
  - rewrite (H x E). simpl. lia.
  - destruct (q x); simpl; lia.
Qed.

Lemma filter_len_lt {A} (p q : A -> bool) l x :
  (forall x, p x = true -> q x = true) -> In x l -> p x = false -> q x = true ->
  List.length (filter p l) < List.length (filter q l).
Proof.
  intros H. induction l as [|y r IH]; simpl; intros Hin Hp Hq; [contradiction|].
  destruct Hin as [->|Hin].
  - rewrite Hp, Hq. simpl. pose proof (filter_len_le p q r H). lia.
  - specialize (IH Hin Hp Hq). destruct (p y) eqn:E.
    + rewrite (H y E). simpl. lia.
    + destruct (q y); simpl; lia.
Qed.

Lemma free_cons_lt g kpath n nd k :
  nth_error g n = Some nd -> g_key nd = Some k -> memN k kpath = false ->
  free g (k :: kpath) < free g kpath.
Proof.
  intros Hn Hk Hm. unfold free. apply filter_len_lt with (x := nd).
  - intros x. unfold freeb. destruct (g_key x) as [k'|]; [|discriminate]. simpl.
    destruct (N.eqb k' k); simpl; [discriminate|auto].
  - eapply nth_error_In; eauto.
  - unfold freeb. rewrite Hk. simpl. rewrite N.eqb_refl. reflexivity.
  - unfold freeb. rewrite Hk, Hm. reflexivity.
Qed.

Lemma rank_le g c : c < List.length g -> rank g c <= List.length g.
Proof. intros H. unfold rank. destruct (nth_error g c) as [nd|]; [|lia]. destruct (g_key nd); lia. Qed.

Lemma free_le g kpath : free g kpath <= List.length g.
Proof.
  unfold free. induction g as [|x r IH]; simpl; [lia|]. destruct (freeb kpath x); simpl; lia.
Qed.

Lemma build_list_p_total bn cs mk :
  (forall c mk, In (Some c) cs -> bn c mk <> None) -> build_list_p bn cs mk <> None.
Proof.
  revert mk. induction cs as [|[c|] r IH]; intros mk H; simpl; [discriminate| |].
  - destruct (bn c mk) as [[ot mk1]|] eqn:E; [|exfalso; eapply H; [left; reflexivity|exact E]].
    specialize (IH mk1 (fun c mk Hin => H c mk (or_intror Hin))).
    destruct (build_list_p bn r mk1) as [[ts mk2]|]; [discriminate|contradiction].
  - apply IH. intros c mk' Hin. apply H. right. exact Hin.
Qed.

Lemma build_node_p_total g : closed g -> untracked_ranked g ->
  forall fuel kpath n mk, n < List.length g -> measure g kpath n < fuel ->
    build_node_p fuel g kpath n mk <> None.
Proof.
  intros Hcl Hrk fuel. induction fuel as [|f IH]; intros kpath n mk Hn Hm; [lia|]. simpl.
  destruct (nth_error g n) as [nd|] eqn:Hnd; [|apply nth_error_None in Hnd; lia].
  unfold measure in Hm.
  destruct (g_key nd) as [k|] eqn:Hk.
  - destruct (memN k kpath) eqn:Hmem; [discriminate|].
    pose proof (free_cons_lt g kpath n nd k Hnd Hk Hmem) as Hlt.
    assert (HL : build_list_p (build_node_p f g (k :: kpath)) (causes_of nd) mk <> None).
    { apply build_list_p_total. intros c mk' Hin.
      assert (Hc : c < List.length g) by (eapply Hcl; eauto).
      apply IH; [exact Hc|]. unfold measure. pose proof (rank_le g c Hc). nia. }
    destruct (build_list_p (build_node_p f g (k :: kpath)) (causes_of nd) mk) as [[kids mkc]|]; [|contradiction].
    destruct (mk_is mkc k); discriminate.
  - assert (HL : build_list_p (build_node_p f g kpath) (causes_of nd) mk <> None).
    { apply build_list_p_total. intros c mk' Hin.
      assert (Hc : c < List.length g) by (eapply Hcl; eauto).
      apply IH; [exact Hc|]. unfold measure.
      assert (rank g c < rank g n).
      { unfold rank at 2. rewrite Hnd, Hk. unfold rank.
        destruct (nth_error g c) as [cd|] eqn:Hcd; [|lia].
        destruct (g_key cd) eqn:Kc; [lia|].
        assert (c < n) by (eapply Hrk; eauto). lia. }
      lia. }
    destruct (build_list_p (build_node_p f g kpath) (causes_of nd) mk) as [[kids mkc]|]; [discriminate|contradiction].
Qed.

Lemma measure_lt_bound g kpath n : n < List.length g -> measure g kpath n < fuel_bound g.
Proof.
  intros H. unfold measure, fuel_bound. pose proof (free_le g kpath). pose proof (rank_le g n H). nia.
Qed.

Lemma build_nodes_p_total g fuel cs : closed g -> untracked_ranked g ->
  (forall c, In (Some c) cs -> c < List.length g) -> fuel_bound g <= fuel ->
  build_nodes_p fuel g [] cs None <> None.
Proof.
  intros Hcl Hrk Hcs Hf. unfold build_nodes_p. apply build_list_p_total.
  intros c mk Hin. apply build_node_p_total; auto.
  pose proof (measure_lt_bound g [] c (Hcs c Hin)). lia.
Qed.

(* ====================================================================== *)
(* 6. Unf is functional                                                    *)
(* ====================================================================== *)
Ltac same_node Hn :=
  repeat match goal with
  | Hx : nth_error _ _ = Some _ |- _ =>
      lazymatch Hx with Hn => fail | _ => rewrite Hn in Hx; inversion Hx; subst; clear Hx end
  end.

Lemma Unf_functional g :
  (forall path n os ds, Unf g path n os ds -> forall os' ds', Unf g path n os' ds' -> os = os' /\ ds = ds') /\
  (forall path cs ss ds, UnfL g path cs ss ds -> forall ss' ds', UnfL g path cs ss' ds' -> ss = ss' /\ ds = ds').
Proof.
  apply Unf_mutind.
  - intros path n nd Hn Hk Hin os' ds' H. inversion H; subst; same_node Hn;
      try (split; reflexivity); contradiction.
  - intros path n nd kids ds Hn Hk Hnin HL IH os' ds' H. inversion H; subst; same_node Hn; try contradiction.
    match goal with Hx : UnfL _ _ _ _ _ |- _ => destruct (IH _ _ Hx) as [-> ->] end. split; reflexivity.
  - intros path n nd kids ds Hn Hk HL IH os' ds' H. inversion H; subst; same_node Hn; try contradiction.
    match goal with Hx : UnfL _ _ _ _ _ |- _ => destruct (IH _ _ Hx) as [-> ->] end. split; reflexivity.
  - intros path ss' ds' H. inversion H; subst. split; reflexivity.
  - intros path r ss ds HL IH ss' ds' H. inversion H; subst. apply IH. assumption.
  - intros path c r os ss d1 d2 HU IH1 HL IH2 ss' ds' H. inversion H; subst.
    match goal with Hx : Unf _ _ _ _ _ |- _ => destruct (IH1 _ _ Hx) as [-> ->] end.
    match goal with Hx : UnfL _ _ _ _ _ |- _ => destruct (IH2 _ _ Hx) as [-> ->] end.
    split; reflexivity.
Qed.

(* ====================================================================== *)
(* 7. the boolean checker decides Unf                                      *)
(* ====================================================================== *)
Lemma shape_ind' (P : shape -> Prop) :
  (forall n kids, Forall P kids -> P (SNode n kids)) -> forall s, P s.
Proof.
  intros H. fix IH 1. intros [n kids]. apply H.
  induction kids as [|k r IHr]; constructor; [apply IH|exact IHr].
Qed.

Lemma tree_ind' (P : tree -> Prop) :
  (forall n c kids, Forall P kids -> P (Node n c kids)) -> forall t, P t.
Proof.
  intros H. fix IH 1. intros [n c kids]. apply H.
  induction kids as [|k r IHr]; constructor; [apply IH|exact IHr].
Qed.

Lemma memn_In n l : memn n l = true <-> In n l.
Proof.
  unfold memn. rewrite existsb_exists. split.
  - intros [x [Hin Heq]]. apply Nat.eqb_eq in Heq. subst. exact Hin.
  - intros Hin. exists n. split; [exact Hin | apply Nat.eqb_refl].
Qed.

Lemma droppedb_true g path c :
  droppedb g path c = true <-> (exists nd, nth_error g c = Some nd /\ g_key nd <> None) /\ In c path.
Proof.
  unfold droppedb, is_tracked. rewrite andb_true_iff, memn_In. split.
  - intros [H1 H2]. split; [|exact H2]. destruct (nth_error g c) as [nd|]; [|discriminate].
    exists nd. split; [reflexivity|]. destruct (g_key nd); [discriminate|discriminate H1].
  - intros [[nd [H1 H2]] H3]. split; [|exact H3]. rewrite H1. destruct (g_key nd); [reflexivity|contradiction].
Qed.

Lemma chk_unfold g path n m kids :
  chk g path n (SNode m kids) =
  if negb (Nat.eqb n m) then None else
  match nth_error g n with
  | None => None
  | Some nd =>
      if droppedb g path n then None
      else chk_list g (match g_key nd with Some _ => n :: path | None => path end) (causes_of nd) kids
  end.
Proof.
  simpl. destruct (negb (Nat.eqb n m)); [reflexivity|].
  destruct (nth_error g n) as [nd|]; [|reflexivity].
  destruct (droppedb g path n); [reflexivity|].
  generalize (causes_of nd). generalize (match g_key nd with Some _ => n :: path | None => path end).
  intros p. induction kids as [|t kr IH]; intros cs; simpl.
  - reflexivity.
  - destruct (skip g p cs) as [d0 rest]. destruct rest as [|[c|] r]; try reflexivity.
    destruct (chk g p c t); [|reflexivity]. rewrite IH. reflexivity.
Qed.

Lemma chk_list_skip g p r kids : chk_list g p (None :: r) kids = chk_list g p r kids.
Proof. destruct kids; reflexivity. Qed.

Lemma chk_list_drop g p c r kids : droppedb g p c = true ->
  chk_list g p (Some c :: r) kids = option_map (cons c) (chk_list g p r kids).
Proof.
  intros H. destruct kids as [|t kr]; simpl; rewrite H; destruct (skip g p r) as [d rest].
  - destruct rest; reflexivity.
  - destruct rest as [|[c'|] r']; try reflexivity.
    destruct (chk g p c' t); [|reflexivity]. destruct (chk_list g p r' kr); reflexivity.
Qed.

Lemma chk_list_live g p c r kids : droppedb g p c = false ->
  chk_list g p (Some c :: r) kids =
  match kids with
  | [] => None
  | t :: kr => match chk g p c t with
               | None => None
               | Some d1 => match chk_list g p r kr with
                            | None => None
                            | Some d2 => Some (d1 ++ d2)
                            end
               end
  end.
Proof. intros H. destruct kids as [|t kr]; simpl; rewrite H; reflexivity. Qed.

Lemma chk_list_nil g p kids : chk_list g p [] kids = match kids with [] => Some [] | _ => None end.
Proof. destruct kids; reflexivity. Qed.

Lemma chk_some_live g p c s d : chk g p c s = Some d -> droppedb g p c = false.
Proof.
  destruct s as [m kids]. rewrite chk_unfold. destruct (negb (Nat.eqb c m)); [discriminate|].
  destruct (nth_error g c); [|discriminate]. destruct (droppedb g p c); [discriminate|reflexivity].
Qed.

Lemma chk_complete g :
  (forall path n os ds, Unf g path n os ds ->
     match os with Some s => chk g path n s = Some ds | None => droppedb g path n = true /\ ds = [n] end) /\
  (forall path cs ss ds, UnfL g path cs ss ds -> chk_list g path cs ss = Some ds).
Proof.
  apply Unf_mutind.
  - intros path n nd Hn Hk Hin. split; [|reflexivity]. apply droppedb_true. split; [exists nd; auto|exact Hin].
  - intros path n nd kids ds Hn Hk Hnin HL IH. rewrite chk_unfold, Nat.eqb_refl, Hn. simpl.
    destruct (droppedb g path n) eqn:E; [apply droppedb_true in E; destruct E; contradiction|].
    destruct (g_key nd); [exact IH|contradiction].
  - intros path n nd kids ds Hn Hk HL IH. rewrite chk_unfold, Nat.eqb_refl, Hn. simpl.
    destruct (droppedb g path n) eqn:E.
    { apply droppedb_true in E. destruct E as [[nd' [E1 E2]] _]. rewrite Hn in E1. inversion E1; subst. contradiction. }
    rewrite Hk. exact IH.
  - intros path. reflexivity.
  - intros path r ss ds HL IH. rewrite chk_list_skip. exact IH.
  - intros path c r os ss d1 d2 HU IH1 HL IH2. destruct os as [s|].
    + rewrite (chk_list_live _ _ _ _ _ (chk_some_live _ _ _ _ _ IH1)), IH1, IH2. reflexivity.
    + destruct IH1 as [E ->]. rewrite (chk_list_drop _ _ _ _ _ E), IH2. reflexivity.
Qed.

Lemma chk_sound_list g kids :
  Forall (fun s => forall path n ds, chk g path n s = Some ds -> Unf g path n (Some s) ds) kids ->
  forall cs path ds, chk_list g path cs kids = Some ds -> UnfL g path cs kids ds.
Proof.
  intros HF. induction HF as [|t kr Ht HF IHk]; intros cs; induction cs as [|[c|] r IHc]; intros path ds H.
  - inversion H; subst. constructor.
  - destruct (droppedb g path c) eqn:E.
    + rewrite (chk_list_drop _ _ _ _ _ E) in H.
      destruct (chk_list g path r []) as [d|] eqn:E2; [|discriminate]. inversion H; subst.
      apply droppedb_true in E. destruct E as [[nd [E1 E3]] E4].
      apply (UnfL_cons g path c r None [] [c] d); [eapply Unf_cut; eauto|apply IHc; exact E2].
    + rewrite (chk_list_live _ _ _ _ _ E) in H. discriminate.
  - rewrite chk_list_skip in H. constructor. apply IHc. exact H.
  - rewrite chk_list_nil in H. discriminate.
  - destruct (droppedb g path c) eqn:E.
    + rewrite (chk_list_drop _ _ _ _ _ E) in H.
      destruct (chk_list g path r (t :: kr)) as [d|] eqn:E2; [|discriminate]. inversion H; subst.
      apply droppedb_true in E. destruct E as [[nd [E1 E3]] E4].
      apply (UnfL_cons g path c r None (t :: kr) [c] d); [eapply Unf_cut; eauto|apply IHc; exact E2].
    + rewrite (chk_list_live _ _ _ _ _ E) in H.
      destruct (chk g path c t) as [d1|] eqn:E1; [|discriminate].
      destruct (chk_list g path r kr) as [d2|] eqn:E2; [|discriminate]. inversion H; subst.
      apply (UnfL_cons g path c r (Some t) kr d1 d2); [apply Ht; exact E1|apply IHk; exact E2].
  - rewrite chk_list_skip in H. constructor. apply IHc. exact H.
Qed.

Lemma chk_sound g : forall s path n ds, chk g path n s = Some ds -> Unf g path n (Some s) ds.
Proof.
  induction s as [m kids IH] using shape_ind'. intros path n ds H.
  rewrite chk_unfold in H. destruct (Nat.eqb n m) eqn:Enm; simpl in H; [|discriminate].
  apply Nat.eqb_eq in Enm. subst m.
  destruct (nth_error g n) as [nd|] eqn:Hn; [|discriminate].
  destruct (droppedb g path n) eqn:E; [discriminate|].
  apply (chk_sound_list g kids IH) in H.
  destruct (g_key nd) as [k|] eqn:Hk.
  - eapply Unf_tracked; eauto; [congruence|].
    intros Hin. assert (droppedb g path n = true); [|congruence].
    apply droppedb_true. split; [exists nd; split; [exact Hn|congruence]|exact Hin].
  - eapply Unf_untracked; eauto.
Qed.

Lemma chk_iff g path n s ds : chk g path n s = Some ds <-> Unf g path n (Some s) ds.
Proof. split; [apply chk_sound|]. intros H. exact (proj1 (chk_complete g) _ _ _ _ H). Qed.

Lemma chk_list_iff g path cs ss ds : chk_list g path cs ss = Some ds <-> UnfL g path cs ss ds.
Proof.
  split; [|apply (proj2 (chk_complete g))].
  apply chk_sound_list. apply Forall_forall. intros s _. apply chk_sound.
Qed.

(* ---------- flags ---------- *)
Lemma flags_soundb_unfold g path n cyc kids :
  flags_soundb g path (Node n cyc kids) =
  (negb cyc || match chk g path n (SNode n (map erase kids)) with
               | Some ds => memn n ds
               | None => false
               end) && forallb (flags_soundb g (path_ext g path n)) kids.
Proof. reflexivity. Qed.

Lemma flags_soundb_sound g : forall t path, flags_soundb g path t = true -> FlagsSound g path t.
Proof.
  induction t as [n cyc kids IH] using tree_ind'. intros path H. rewrite flags_soundb_unfold in H.
  apply andb_true_iff in H as [H1 H2]. constructor.
  - intros ->. cbn [negb orb] in H1.
    destruct (chk g path n (SNode n (map erase kids))) as [ds|] eqn:E; [|discriminate].
    exists (Some (SNode n (map erase kids))), ds. split; [apply chk_sound; exact E|apply memn_In; exact H1].
  - rewrite forallb_forall in H2. rewrite Forall_forall in *. intros t Hin. apply IH; auto.
Qed.

Lemma UnfL_kids g path cs ss ds : UnfL g path cs ss ds ->
  Forall (fun s => exists c d, Unf g path c (Some s) d) ss.
Proof.
  induction 1 as [| |path c r os ss d1 d2 HU HL IH]; [constructor|assumption|].
  destruct os as [s|]; [constructor; [exists c, d1; exact HU|exact IH]|exact IH].
Qed.

Lemma Unf_some_inv g path n m kids ds : Unf g path n (Some (SNode m kids)) ds ->
  n = m /\ exists nd, nth_error g n = Some nd /\ ~ droppedb g path n = true /\
                      UnfL g (path_ext g path n) (causes_of nd) kids ds.
Proof.
  intros H. inversion H; subst; (split; [reflexivity|]);
    match goal with Hn : nth_error g _ = Some ?x |- _ => rename Hn into Hnd; exists x end;
    (split; [assumption|]); split.
  - intros E. apply droppedb_true in E. destruct E. contradiction.
  - unfold path_ext. rewrite Hnd. destruct (g_key nd); [assumption|contradiction].
  - intros E. apply droppedb_true in E. destruct E as [[nd' [E1 E2]] _]. rewrite Hnd in E1.
    inversion E1; subst. contradiction.
  - unfold path_ext. rewrite Hnd.
    match goal with Hk : g_key nd = None |- _ => rewrite Hk end. assumption.
Qed.

Lemma flags_soundb_complete g : forall t path n ds,
  Unf g path n (Some (erase t)) ds -> FlagsSound g path t -> flags_soundb g path t = true.
Proof.
  induction t as [m cyc kids IH] using tree_ind'. intros path n ds HU HF.
  simpl in HU. pose proof HU as HU0. apply Unf_some_inv in HU as [-> [nd [Hn [_ HL]]]].
  inversion HF; subst. rewrite flags_soundb_unfold. apply andb_true_iff. split.
  - destruct cyc; [|reflexivity]. cbn [negb orb].
    destruct (H2 eq_refl) as [os [ds' [HU' Hin]]].
    destruct (proj1 (Unf_functional g) _ _ _ _ HU0 _ _ HU') as [<- <-].
    apply chk_iff in HU0. rewrite HU0. apply memn_In. exact Hin.
  - apply forallb_forall. intros t Hin.
    pose proof (UnfL_kids _ _ _ _ _ HL) as HK. rewrite Forall_forall in HK, IH, H4.
    destruct (HK (erase t) (in_map erase _ _ Hin)) as [c [d HUt]].
    eapply IH; eauto.
Qed.

(* ---------- tree equality ---------- *)
Lemma tree_eqb_eq : forall a b, tree_eqb a b = true <-> a = b.
Proof.
  induction a as [n c ks IH] using tree_ind'. intros [m d ls]. simpl.
  rewrite !andb_true_iff, Nat.eqb_eq, Bool.eqb_true_iff.
  assert (HL : forall ls, (fix go (l1 l2 : list tree) {struct l1} : bool :=
              match l1, l2 with
              | [], [] => true
              | x :: r1, y :: r2 => tree_eqb x y && go r1 r2
              | _, _ => false
              end) ks ls = true <-> ks = ls).
  { clear ls. induction IH as [|x r Hx Hr IHr]; intros [|y ls]; try (split; [discriminate|discriminate]); [tauto|].
    rewrite andb_true_iff, Hx, IHr. split; [intros [-> ->]; reflexivity|intros E; inversion E; auto]. }
  rewrite HL. split; [intros [[-> ->] ->]; reflexivity|intros E; inversion E; auto].
Qed.

Lemma trees_eqb_eq a b : trees_eqb a b = true <-> a = b.
Proof. apply list_eqb_eq, tree_eqb_eq. Qed.

Lemma pair_eqb_eq a b : pair_eqb a b = true <-> a = b.
Proof.
  destruct a, b. unfold pair_eqb. simpl. rewrite andb_true_iff, !Nat.eqb_eq.
  split; [intros [-> ->]; reflexivity|intros E; inversion E; auto].
Qed.

(* ====================================================================== *)
(* 8. Walk                                                                 *)
(* ====================================================================== *)
(* the consumer has not broken yet *)
Definition lim (k : nat) (l : list (nat * nat)) : bool := Nat.eqb k 0 || Nat.ltb (List.length l) k.
Definition wres (k : nat) (full : list (nat * nat)) : list (nat * nat) * bool :=
  if lim k full then (full, true) else (firstn k full, false).

Lemma lim_false k l : lim k l = false -> k <> 0 /\ k <= List.length l.
Proof.
  unfold lim. intros H. apply orb_false_iff in H as [H1 H2].
  apply Nat.eqb_neq in H1. apply Nat.ltb_ge in H2. split; assumption.
Qed.

Lemma wres_ext k l rest : lim k l = false -> wres k (l ++ rest) = (firstn k l, false).
Proof.
  intros H. pose proof (lim_false _ _ H) as [H1 H2]. unfold wres.
  assert (E : lim k (l ++ rest) = false).
  { unfold lim. apply orb_false_iff. split; [now apply Nat.eqb_neq|]. apply Nat.ltb_ge. rewrite app_length. lia. }
  rewrite E, firstn_app. replace (k - List.length l) with 0 by lia. simpl. rewrite app_nil_r. reflexivity.
Qed.

Lemma walk_loop_collect k (f : tree -> list (nat * nat) -> list (nat * nat) * bool) pre l :
  Forall (fun c => forall s, lim k s = true -> f c s = wres k (s ++ pre c)) l ->
  forall s, lim k s = true -> walk_loop f l s = wres k (s ++ flat_map pre l).
Proof.
  induction 1 as [|c r Hc Hr IH]; intros s Hs; simpl.
  - rewrite app_nil_r. unfold wres. rewrite Hs. reflexivity.
  - rewrite (Hc s Hs). unfold wres at 1. destruct (lim k (s ++ pre c)) eqn:E; simpl.
    + rewrite (IH _ E), app_assoc. reflexivity.
    + rewrite app_assoc. symmetry. apply wres_ext. exact E.
Qed.

Lemma walk_node_collect k : forall t d s, lim k s = true ->
  walk_node (collect k) t d s = wres k (s ++ preorder d t).
Proof.
  induction t as [n c kids IH] using tree_ind'. intros d s Hs. simpl.
  destruct (Nat.eqb (List.length (s ++ [(d, n)])) k) eqn:E; simpl.
  - apply Nat.eqb_eq in E.
    replace (s ++ (d, n) :: flat_map (preorder (S d)) kids)
      with ((s ++ [(d, n)]) ++ flat_map (preorder (S d)) kids) by (rewrite <- app_assoc; reflexivity).
    rewrite wres_ext.
    + rewrite <- E, firstn_all. reflexivity.
    + unfold lim. apply orb_false_iff. rewrite app_length in *. simpl in *. split.
      * apply Nat.eqb_neq. lia.
      * apply Nat.ltb_ge. lia.
  - apply Nat.eqb_neq in E.
    assert (Hs' : lim k (s ++ [(d, n)]) = true).
    { unfold lim in *. apply orb_true_iff in Hs as [Hs|Hs]; apply orb_true_iff; [left; exact Hs|right].
      apply Nat.ltb_lt in Hs. apply Nat.ltb_lt. rewrite app_length in *. simpl in *. lia. }
    rewrite (walk_loop_collect k _ (preorder (S d)) kids).
    + rewrite <- app_assoc. reflexivity.
    + rewrite Forall_forall in *. intros c' Hin s' Hs''. apply IH; assumption.
    + exact Hs'.
Qed.

Lemma walk_nodes_collect k ts : walk_nodes (collect k) ts [] = wres k (preorder_all ts).
Proof.
  unfold walk_nodes. rewrite (walk_loop_collect k _ (preorder 0) ts).
  - reflexivity.
  - apply Forall_forall. intros t _ s Hs. apply walk_node_collect. exact Hs.
  - unfold lim. destruct k; reflexivity.
Qed.

Lemma walk_preorder ts : walk ts = preorder_all ts.
Proof. unfold walk. rewrite walk_nodes_collect. reflexivity. Qed.

Lemma walk_break_firstn k ts : walk_break k ts = firstn_or_all k (preorder_all ts).
Proof.
  unfold walk_break. rewrite walk_nodes_collect. unfold wres. destruct k as [|k]; [reflexivity|].
  destruct (lim (S k) (preorder_all ts)) eqn:E; cbn [fst firstn_or_all]; [|reflexivity].
  unfold lim in E. cbn [Nat.eqb orb] in E. apply Nat.ltb_lt in E.
  symmetry. apply firstn_all2. lia.
Qed.

Lemma flat_map_length {A B} (f : A -> list B) l :
  List.length (flat_map f l) = list_sum (map (fun x => List.length (f x)) l).
Proof. induction l; simpl; [reflexivity|]. rewrite app_length, IHl. reflexivity. Qed.

Lemma preorder_length : forall t d, List.length (preorder d t) = tsize t.
Proof.
  induction t as [n c kids IH] using tree_ind'. intros d. simpl. f_equal.
  rewrite flat_map_length. f_equal. apply map_ext_in. intros t Hin.
  rewrite Forall_forall in IH. apply IH. exact Hin.
Qed.

Lemma walk_length ts : List.length (walk ts) = list_sum (map tsize ts).
Proof.
  rewrite walk_preorder. unfold preorder_all. rewrite flat_map_length. f_equal.
  apply map_ext. intros t. apply preorder_length.
Qed.

(* ====================================================================== *)
(* 9. a boolean form of the guard                                          *)
(* ====================================================================== *)
Definition closedb (g : graph) : bool :=
  forallb (fun nd => forallb (fun oc => match oc with Some c => Nat.ltb c (List.length g) | None => true end)
                             (causes_of nd)) g.
Definition nomarkerb (g : graph) : bool :=
  forallb (fun nd => match g_key nd with Some k => negb (N.eqb k marker_key) | None => true end) g.
Fixpoint nodup_keys (l : list (option N)) : bool :=
  match l with
  | [] => true
  | None :: r => nodup_keys r
  | Some k :: r => negb (existsb (fun o => match o with Some k' => N.eqb k k' | None => false end) r)
                   && nodup_keys r
  end.
Definition injb (g : graph) : bool := nodup_keys (map g_key g).
Definition rankedb (g : graph) : bool :=
  forallb (fun p : nat * gnode =>
             let (n, nd) := p in
             match g_key nd with
             | Some _ => true
             | None => forallb (fun oc => match oc with
                                          | Some c => match nth_error g c with
                                                      | Some cd => match g_key cd with
                                                                   | None => Nat.ltb c n
                                                                   | Some _ => true
                                                                   end
                                                      | None => true
                                                      end
                                          | None => true
                                          end) (causes_of nd)
             end) (combine (seq 0 (List.length g)) g).
Definition Gb (g : graph) : bool := closedb g && nomarkerb g && injb g && rankedb g.

Lemma closedb_sound g : closedb g = true -> closed g.
Proof.
  unfold closedb, closed. rewrite forallb_forall. intros H n nd c Hn Hin.
  specialize (H nd (nth_error_In _ _ Hn)). rewrite forallb_forall in H.
  specialize (H _ Hin). simpl in H. now apply Nat.ltb_lt.
Qed.

Lemma nomarkerb_sound g : nomarkerb g = true -> keys_not_marker g.
Proof.
  unfold nomarkerb, keys_not_marker. rewrite forallb_forall. intros H n nd k Hn Hk.
  specialize (H nd (nth_error_In _ _ Hn)). rewrite Hk in H. apply negb_true_iff, N.eqb_neq in H. exact H.
Qed.

Lemma nodup_keys_sound l : nodup_keys l = true ->
  forall n m k, nth_error l n = Some (Some k) -> nth_error l m = Some (Some k) -> n = m.
Proof.
  induction l as [|[k0|] r IH]; intros H n m k Hn Hm.
  - destruct n; discriminate.
  - simpl in H. apply andb_true_iff in H as [H1 H2]. apply negb_true_iff in H1.
    assert (Hno : forall i, nth_error r i = Some (Some k0) -> False).
    { intros i Hi. assert (existsb (fun o => match o with Some k' => N.eqb k0 k' | None => false end) r = true); [|congruence].
      apply existsb_exists. exists (Some k0). split; [eapply nth_error_In; eauto|apply N.eqb_refl]. }
    destruct n as [|n], m as [|m]; simpl in *.
    + reflexivity.
    + inversion Hn; subst. exfalso. eauto.
    + inversion Hm; subst. exfalso. eauto.
    + f_equal. eapply IH; eauto.
  - simpl in H. destruct n as [|n], m as [|m]; simpl in *; try discriminate.
    f_equal. eapply IH; eauto.
Qed.

Lemma injb_sound g : injb g = true -> keys_injective g.
Proof.
  unfold injb, keys_injective. intros H n m nd md k Hn Hm Kn Km.
  apply (nodup_keys_sound _ H n m k).
  - rewrite nth_error_map, Hn. simpl. congruence.
  - rewrite nth_error_map, Hm. simpl. congruence.
Qed.

Lemma in_combine_seq {A} (l : list A) : forall s n x, nth_error l n = Some x ->
  In (s + n, x) (combine (seq s (List.length l)) l).
Proof.
  induction l as [|y r IH]; intros s n x H; [destruct n; discriminate|].
  destruct n as [|n]; simpl in *.
  - inversion H; subst. left. f_equal. lia.
  - right. replace (s + S n) with (S s + n) by lia. apply IH. exact H.
Qed.

Lemma rankedb_sound g : rankedb g = true -> untracked_ranked g.
Proof.
  unfold rankedb, untracked_ranked. rewrite forallb_forall. intros H n nd c cd Hn Hk Hin Hc Kc.
  specialize (H (n, nd) (in_combine_seq g 0 n nd Hn)). simpl in H. rewrite Hk in H.
  rewrite forallb_forall in H. specialize (H _ Hin). simpl in H. rewrite Hc, Kc in H.
  now apply Nat.ltb_lt.
Qed.

Lemma Gb_sound g : Gb g = true -> G g.
Proof.
  unfold Gb. rewrite !andb_true_iff. intros [[[H1 H2] H3] H4].
  repeat split; [apply closedb_sound|apply nomarkerb_sound|apply injb_sound|apply rankedb_sound]; assumption.
Qed.

(* ====================================================================== *)
(* 10. the statements about the map model                                  *)
(* ====================================================================== *)
Lemma build_nodes_to_p g fuel cs ts vm : keys_not_marker g ->
  build_nodes fuel g cs [] = Some (ts, vm) ->
  exists mk', build_nodes_p fuel g [] cs None = Some (ts, mk') /\ abs vm [] mk'.
Proof.
  intros Hnz H. pose proof (refine_nodes g Hnz fuel cs) as R. unfold rel in R. rewrite H in R.
  destruct (build_nodes_p fuel g [] cs None) as [[ts' mk']|]; [|contradiction].
  destruct R as [-> Ha]. exists mk'. split; [reflexivity|exact Ha].
Qed.

Lemma build_nodes_total g fuel cs : G g ->
  (forall c, In (Some c) cs -> c < List.length g) -> fuel_bound g <= fuel ->
  exists ts vm, build_nodes fuel g cs [] = Some (ts, vm).
Proof.
  intros [Hcl [Hnz [Hinj Hrk]]] Hcs Hf.
  pose proof (build_nodes_p_total g fuel cs Hcl Hrk Hcs Hf) as Hp.
  pose proof (refine_nodes g Hnz fuel cs) as R. unfold rel in R.
  destruct (build_nodes fuel g cs []) as [[ts vm]|].
  - exists ts, vm. reflexivity.
  - destruct (build_nodes_p fuel g [] cs None); [contradiction|congruence].
Qed.

Lemma build_nodes_spec g fuel cs ts vm : G g ->
  build_nodes fuel g cs [] = Some (ts, vm) ->
  exists ds, UnfL g [] cs (map erase ts) ds /\ (has_cycle ts = true <-> ds <> []) /\
             Forall (FlagsSound g []) ts.
Proof.
  intros [Hcl [Hnz [Hinj Hrk]]] H.
  destruct (build_nodes_to_p g fuel cs ts vm Hnz H) as [mk' [Hp _]].
  destruct (build_nodes_p_top g fuel cs ts mk' Hinj Hp) as [ds [H1 [H2 [H3 _]]]].
  exists ds. auto.
Qed.

Lemma build_cause_tree_inv fuel g recv ts : build_cause_tree fuel g recv = Some ts ->
  exists nd vm, nth_error g recv = Some nd /\ build_nodes fuel g (causes_of nd) [] = Some (ts, vm).
Proof.
  unfold build_cause_tree. destruct (nth_error g recv) as [nd|]; [|discriminate].
  destruct (build_nodes fuel g (causes_of nd) []) as [[ts' vm]|] eqn:E; [|discriminate].
  intros H. inversion H; subst. exists nd, vm. split; [reflexivity|exact E].
Qed.

Lemma terminates g recv : G g -> recv < List.length g ->
  forall fuel, fuel_bound g <= fuel -> exists ts, build_cause_tree fuel g recv = Some ts.
Proof.
  intros HG Hr fuel Hf. unfold build_cause_tree.
  destruct (nth_error g recv) as [nd|] eqn:Hn; [|apply nth_error_None in Hn; lia].
  destruct (build_nodes_total g fuel (causes_of nd) HG) as [ts [vm E]]; [|exact Hf|].
  - intros c Hin. destruct HG as [Hcl _]. eapply Hcl; eauto.
  - rewrite E. exists ts. reflexivity.
Qed.

Lemma shape_thm g recv nd fuel ts : G g -> nth_error g recv = Some nd ->
  build_cause_tree fuel g recv = Some ts ->
  exists ds, UnfL g [] (causes_of nd) (map erase ts) ds.
Proof.
  intros HG Hn H. destruct (build_cause_tree_inv _ _ _ _ H) as [nd' [vm [Hn' Hb]]].
  rewrite Hn in Hn'. inversion Hn'; subst nd'.
  destruct (build_nodes_spec g fuel _ ts vm HG Hb) as [ds [H1 _]]. exists ds. exact H1.
Qed.

Lemma has_cycle_iff_dropped g recv nd fuel ts : G g -> nth_error g recv = Some nd ->
  build_cause_tree fuel g recv = Some ts ->
  exists ds, UnfL g [] (causes_of nd) (map erase ts) ds /\ (has_cycle ts = true <-> ds <> []).
Proof.
  intros HG Hn H. destruct (build_cause_tree_inv _ _ _ _ H) as [nd' [vm [Hn' Hb]]].
  rewrite Hn in Hn'. inversion Hn'; subst nd'.
  destruct (build_nodes_spec g fuel _ ts vm HG Hb) as [ds [H1 [H2 _]]]. exists ds. auto.
Qed.

Lemma flag_sound g recv fuel ts : G g ->
  build_cause_tree fuel g recv = Some ts -> Forall (FlagsSound g []) ts.
Proof.
  intros HG H. destruct (build_cause_tree_inv _ _ _ _ H) as [nd [vm [Hn Hb]]].
  destruct (build_nodes_spec g fuel _ ts vm HG Hb) as [ds [_ [_ H3]]]. exact H3.
Qed.

Lemma sharing_not_flagged g recv nd fuel ts ss : G g -> nth_error g recv = Some nd ->
  build_cause_tree fuel g recv = Some ts ->
  UnfL g [] (causes_of nd) ss [] -> ss = map erase ts /\ has_cycle ts = false.
Proof.
  intros HG Hn H HU. destruct (has_cycle_iff_dropped g recv nd fuel ts HG Hn H) as [ds [H1 H2]].
  destruct (proj2 (Unf_functional g) _ _ _ _ HU _ _ H1) as [-> <-]. split; [reflexivity|].
  destruct (has_cycle ts); [|reflexivity]. exfalso. apply (proj1 H2); reflexivity.
Qed.

(* ---------- link to the check ---------- *)
Lemma list_eqb_refl {A} (eqb : A -> A -> bool) : (forall a b, eqb a b = true <-> a = b) ->
  forall l, list_eqb eqb l l = true.
Proof. intros H l. apply (list_eqb_eq eqb H). reflexivity. Qed.

Lemma corr_implies_ok c : G (c_graph c) -> corr c = true -> ok c = true.
Proof.
  intros HG. unfold corr, ok.
  destruct (unwrap_tree (c_graph c) (c_recv c)) as [ts|] eqn:HT; [|discriminate].
  rewrite !andb_true_iff. intros [[[[[Hp Ht] Hh] Hw] Hb] Hu].
  apply trees_eqb_eq in Ht. apply Bool.eqb_prop in Hh.
  apply (list_eqb_eq _ pair_eqb_eq) in Hw. apply (list_eqb_eq _ pair_eqb_eq) in Hb.
  unfold unwrap_tree_from in Hu. rewrite HT in Hu.
  unfold unwrap_tree in HT.
  destruct (build_cause_tree_inv _ _ _ _ HT) as [nd [vm [Hn Hbn]]]. rewrite Hn.
  destruct (build_nodes_spec _ _ _ _ _ HG Hbn) as [ds [HU [Hc HF]]].
  subst ts. apply chk_list_iff in HU as HC. rewrite HC, Hp. simpl.
  rewrite !andb_true_iff. repeat split.
  - rewrite <- Hh. destruct ds; simpl.
    + destruct (has_cycle (c_tree c)); [|reflexivity]. exfalso. apply (proj1 Hc); reflexivity.
    + rewrite (proj2 Hc); [reflexivity|discriminate].
  - apply forallb_forall. intros t Hin.
    pose proof (UnfL_kids _ _ _ _ _ HU) as HK. rewrite Forall_forall in HK, HF.
    destruct (HK (erase t) (in_map erase _ _ Hin)) as [n [d HUt]].
    eapply flags_soundb_complete; eauto.
  - rewrite <- Hw, walk_preorder. apply list_eqb_refl, pair_eqb_eq.
  - rewrite <- Hb, walk_break_firstn. apply list_eqb_refl, pair_eqb_eq.
  - apply (option_eqb_eq _ trees_eqb_eq).
    destruct (c_tree c) as [|t r]; apply (option_eqb_eq _ trees_eqb_eq) in Hu; symmetry; exact Hu.
Qed.

(* ---------- the two exclusions of G are necessary ---------- *)
Definition gp (k : N) (u : unw) : gnode := {| g_key := Some k; g_unwrap := u; g_errdef := false |}.
Definition ge (k : N) (cs : list (option nat)) : gnode := {| g_key := Some k; g_unwrap := UMulti cs; g_errdef := true |}.

(* D.Wrap(p) with p a nil pointer of type pointer-to-T: node 0 is a typed nil pointer (key = the marker slot), node 1 the receiver *)
Definition g_zero : graph := [ gp marker_key UNone; ge 9%N [Some 0] ].
(* D.Wrap(a), a = &A{} with cause b = &B{}, A and B distinct zero-size types: one address *)
Definition g_alias : graph := [ gp 5%N (USingle (Some 1)); gp 5%N UNone; ge 9%N [Some 0] ].

Lemma zero_key_refuted :
  closed g_zero /\ keys_injective g_zero /\ untracked_ranked g_zero /\
  unwrap_tree g_zero 1 = Some [Node 0 true []] /\
  has_cycle [Node 0 true []] = true /\
  UnfL g_zero [] [Some 0] (map erase [Node 0 true []]) [] /\
  ~ FlagsSound g_zero [] (Node 0 true []).
Proof.
  split; [apply closedb_sound; vm_compute; reflexivity|].
  split; [apply injb_sound; vm_compute; reflexivity|].
  split; [apply rankedb_sound; vm_compute; reflexivity|].
  split; [vm_compute; reflexivity|]. split; [reflexivity|].
  split; [apply chk_list_iff; vm_compute; reflexivity|].
  intros HF. apply (flags_soundb_complete g_zero _ [] 0 []) in HF.
  - vm_compute in HF. discriminate.
  - apply chk_iff. vm_compute. reflexivity.
Qed.

Lemma alias_refuted :
  closed g_alias /\ keys_not_marker g_alias /\ untracked_ranked g_alias /\
  unwrap_tree g_alias 2 = Some [Node 0 true []] /\
  UnfL g_alias [] [Some 0] [SNode 0 [SNode 1 []]] [] /\
  forall ds, ~ UnfL g_alias [] [Some 0] (map erase [Node 0 true []]) ds.
Proof.
  split; [apply closedb_sound; vm_compute; reflexivity|].
  split; [apply nomarkerb_sound; vm_compute; reflexivity|].
  split; [apply rankedb_sound; vm_compute; reflexivity|].
  split; [vm_compute; reflexivity|].
  split; [apply chk_list_iff; vm_compute; reflexivity|].
  intros ds H. apply chk_list_iff in H. vm_compute in H. discriminate.
Qed.

(* ---------- packaged statements for Properties/ ---------- *)
Lemma walk_thm ts :
  walk ts = preorder_all ts /\ List.length (walk ts) = list_sum (map tsize ts) /\
  forall k, walk_break k ts = firstn_or_all k (preorder_all ts).
Proof. exact (conj (walk_preorder ts) (conj (walk_length ts) (fun k => walk_break_firstn k ts))). Qed.

Lemma checker_decides g path :
  (forall n s ds, chk g path n s = Some ds <-> Unf g path n (Some s) ds) /\
  (forall cs ss ds, chk_list g path cs ss = Some ds <-> UnfL g path cs ss ds) /\
  (forall t, flags_soundb g path t = true -> FlagsSound g path t) /\
  (forall t n ds, Unf g path n (Some (erase t)) ds -> FlagsSound g path t -> flags_soundb g path t = true).
Proof.
  exact (conj (chk_iff g path) (conj (chk_list_iff g path)
    (conj (fun t => flags_soundb_sound g t path) (fun t n ds => flags_soundb_complete g t path n ds)))).
Qed.

Lemma tree_build_total g cs : G g ->
  (forall c, In (Some c) cs -> c < List.length g) ->
  exists ts vm, build_nodes (fuel_bound g) g cs [] = Some (ts, vm).
Proof. intros HG Hcs. exact (build_nodes_total g (fuel_bound g) cs HG Hcs (le_n _)). Qed.

Lemma unwrap_tree_total g recv : G g -> recv < List.length g ->
  exists ts, unwrap_tree g recv = Some ts.
Proof. intros HG Hr. exact (terminates g recv HG Hr (fuel_bound g) (le_n _)). Qed.
