(* C11: proofs about Model/Convert.v (conv_f64, conv_i64, try_convert) and the link to the
   oracle of Check/C11.v.  Statements are collected in Properties/C11.v. *)
From Coq Require Import ZArith Reals Lia Lra Bool.
From Flocq Require Import Core IEEE754.BinarySingleNaN.
From Flocq Require IEEE754.Binary IEEE754.Bits.
From Errdef Require Import Base.Str Base.Outcome Model.Convert.
From Errdef Require Import Check.C11.
Local Open Scope Z_scope.


(* ---------- exact integer value of an integral float ---------- *)
Lemma to_Z_correct {p e} (f : binary_float p e) : is_integral f = true -> B2R f = IZR (to_Z f).
Proof.
  destruct f as [s| s | | s m ex He]; try (cbn; discriminate); intros H.
  - reflexivity.
  - unfold B2R, to_Z, F2R. cbn [Fnum Fexp].
    destruct (Z.leb_spec 0 ex) as [Hle|Hlt].
    + rewrite <- (IZR_Zpower radix2 ex) by assumption. rewrite <- mult_IZR. f_equal.
      change (Z.pow (radix_val radix2) ex) with (2 ^ ex).
      destruct s; cbn [SpecFloat.cond_Zopp]; lia.
    + unfold is_integral in H. destruct (Z.leb_spec 0 ex); [lia|]. cbn [orb] in H.
      apply Z.eqb_eq in H.
      assert (Hp : 0 < 2 ^ (- ex)) by (apply Z.pow_pos_nonneg; lia).
      pose proof (Z.div_mod (Zpos m) (2 ^ (- ex)) ltac:(lia)) as Hdm. rewrite H, Z.add_0_r in Hdm.
      replace ex with (- (- ex)) at 1 by lia.
      rewrite bpow_opp, <- (IZR_Zpower radix2 (- ex)) by lia.
      change (Z.pow (radix_val radix2) (- ex)) with (2 ^ (- ex)).
      assert (Hr : IZR (2 ^ (- ex)) <> 0%R) by (apply IZR_neq; lia).
      set (q := Z.pos m / 2 ^ (- ex)) in *.
      assert (Hm : IZR (SpecFloat.cond_Zopp s (Z.pos m)) = (IZR (if s then - q else q) * IZR (2 ^ (- ex)))%R).
      { rewrite <- mult_IZR. f_equal. destruct s; cbn [SpecFloat.cond_Zopp]; lia. }
      rewrite Hm. field. exact Hr.
Qed.

(* conversely: a finite float whose value is an integer passes the Modf test *)
Lemma integral_complete {p e} (f : binary_float p e) z :
  is_finite f = true -> B2R f = IZR z -> is_integral f = true.
Proof.
  destruct f as [s| s | | s m ex He]; try (cbn; discriminate); intros _ H; [reflexivity|].
  unfold is_integral. destruct (Z.leb_spec 0 ex) as [Hle|Hlt]; [reflexivity|]. cbn [orb].
  apply Z.eqb_eq.
  unfold B2R, F2R in H. cbn [Fnum Fexp] in H.
  assert (Hp : 0 < 2 ^ (- ex)) by (apply Z.pow_pos_nonneg; lia).
  assert (Hr : IZR (2 ^ (- ex)) <> 0%R) by (apply IZR_neq; lia).
  replace ex with (- (- ex)) in H at 1 by lia.
  rewrite bpow_opp, <- (IZR_Zpower radix2 (- ex)) in H by lia.
  change (Z.pow (radix_val radix2) (- ex)) with (2 ^ (- ex)) in H.
  assert (H2 : IZR (SpecFloat.cond_Zopp s (Z.pos m)) = IZR (z * 2 ^ (- ex))).
  { rewrite mult_IZR, <- H. field. exact Hr. }
  apply eq_IZR in H2.
  assert (Hm : Z.pos m = (if s then - z else z) * 2 ^ (- ex)) by (destruct s; cbn [SpecFloat.cond_Zopp] in H2; lia).
  rewrite Hm. apply Z.mod_mul. lia.
Qed.

Lemma to_Z_unique {p e} (f : binary_float p e) z :
  is_finite f = true -> B2R f = IZR z -> to_Z f = z.
Proof.
  intros Hf H. pose proof (to_Z_correct f (integral_complete f z Hf H)) as H2.
  rewrite H in H2. now apply eq_IZR in H2.
Qed.

Lemma integral_finite {p e} (f : binary_float p e) : is_integral f = true -> is_finite f = true.
Proof. destruct f; try discriminate; reflexivity. Qed.

(* ---------- the range constants: Go constants converted to float64 ---------- *)
Lemma c_eval c z : is_integral (f64c c) = true -> to_Z (f64c c) = z -> B2R (f64c c) = IZR z.
Proof. intros H1 H2. rewrite <- H2. apply to_Z_correct. exact H1. Qed.

Lemma c_fin c : is_integral (f64c c) = true -> is_finite (f64c c) = true.
Proof. apply integral_finite. Qed.

(* value of the converted upper bound: exact below 2^53, rounded up to the power of two for the 64-bit kinds *)
Definition fmax (k : skind) : Z :=
  match k with KInt | KInt64 => two63 | KUint | KUint64 => two64 | _ => int_max k end.

(* ---------- the generated model equals the audited reference ----------
   conv_f64 / conv_i64 interpret the clause tables srcgen extracts from converter.go on every run
   (Gen/Bounds.v); conv_f64_ref / conv_i64_ref are the hand-written transcriptions the proofs below
   were developed against.  These two lemmas are where a change of a range constant, a comparison
   operator, the order of the guards or the conversion operand in the SOURCE breaks the proofs. *)
Lemma conv_f64_gen k b : conv_f64 k b = conv_f64_ref k b.
Proof.
  destruct k; try reflexivity; unfold conv_f64, conv_f64_ref;
  cbn -[f64_of_bits is_integral to_Z Bltb f64c f64_to_int_amd64 Babs f64_to_f32 bits_of_f32];
  repeat match goal with |- context [if ?c then _ else _] => destruct c; cbn [orb negb] end; reflexivity.
Qed.
Lemma conv_i64_gen k z : conv_i64 k z = conv_i64_ref k z.
Proof.
  destruct k; try reflexivity; unfold conv_i64, conv_i64_ref;
  cbn -[Z.ltb Z.gtb Z.eqb Z.modulo f32_to_i64_amd64 i64_to_f32 bits_of_f32 bits_of_f64 i64_to_f64 two64];
  try (destruct (z <? 0) eqn:?; cbn [orb negb]; [reflexivity|]);
  repeat match goal with |- context [if ?c then _ else _] => destruct c eqn:?; cbn [orb negb] end; try reflexivity;
  repeat match goal with H : context [?a - 1] |- _ => let v := eval vm_compute in (a - 1) in change (a - 1) with v in H end;
  try congruence.
  all: cbn [negb] in *; congruence.
Qed.

Lemma c_min k : is_signed k = true -> B2R (f64c (int_min k)) = IZR (int_min k) /\ is_finite (f64c (int_min k)) = true.
Proof. destruct k; try discriminate; intros _; (split; [apply c_eval|]; vm_compute; reflexivity). Qed.
Lemma c_max k : (is_signed k || is_unsigned k) = true -> B2R (f64c (int_max k)) = IZR (fmax k) /\ is_finite (f64c (int_max k)) = true.
Proof. destruct k; try discriminate; intros _; (split; [apply c_eval|]; vm_compute; reflexivity). Qed.
Lemma c_zero : B2R (f64c 0) = 0%R /\ is_finite (f64c 0) = true.
Proof. split; [apply (c_eval 0 0)|]; vm_compute; reflexivity. Qed.

Lemma Rlt_bool_IZR a b : Rlt_bool (IZR a) (IZR b) = (a <? b).
Proof.
  destruct (Z.ltb_spec a b) as [H|H].
  - apply Rlt_bool_true. now apply IZR_lt.
  - apply Rlt_bool_false. now apply IZR_le.
Qed.


(* the code's accept test for integer targets, in integers *)
Lemma conv_f64_int_spec k bits : is_int_kind k = true ->
  conv_f64 k bits =
  let f := f64_of_bits bits in
  if is_integral f && (int_min k <=? to_Z f) && (to_Z f <=? fmax k)
  then Some (SInt (f64_to_int_amd64 k (to_Z f))) else None.
Proof.
  intros Hk. rewrite conv_f64_gen; unfold conv_f64_ref. cbv zeta. set (f := f64_of_bits bits).
  destruct (is_integral f) eqn:Hi; cbn [negb andb].
  2:{ unfold is_int_kind in Hk. destruct (is_signed k); [reflexivity|]. destruct (is_unsigned k); [reflexivity|discriminate]. }
  pose proof (to_Z_correct f Hi) as Hz. pose proof (integral_finite f Hi) as Hf.
  destruct (c_max k Hk) as [Hmax Hmaxf].
  assert (Bmax : Bltb (f64c (int_max k)) f = (fmax k <? to_Z f)).
  { rewrite Bltb_correct by assumption. rewrite Hmax, Hz. apply Rlt_bool_IZR. }
  destruct (is_signed k) eqn:Hs.
  - destruct (c_min k Hs) as [Hmin Hminf].
    assert (Bmin : Bltb f (f64c (int_min k)) = (to_Z f <? int_min k)).
    { rewrite Bltb_correct by assumption. rewrite Hmin, Hz. apply Rlt_bool_IZR. }
    rewrite Bmin, Bmax.
    destruct (Z.ltb_spec (to_Z f) (int_min k)), (Z.ltb_spec (fmax k) (to_Z f)),
      (Z.leb_spec (int_min k) (to_Z f)), (Z.leb_spec (to_Z f) (fmax k)); cbn; try reflexivity; lia.
  - unfold is_int_kind in Hk. rewrite Hs in Hk. cbn [orb] in Hk. rewrite Hk.
    destruct c_zero as [H0 H0f].
    assert (Bmin : Bltb f (f64c 0) = (to_Z f <? 0)).
    { rewrite Bltb_correct by assumption. rewrite H0, Hz. apply (Rlt_bool_IZR _ 0). }
    rewrite Bmin, Bmax.
    assert (Hm : int_min k = 0) by (destruct k; try discriminate; reflexivity). rewrite Hm.
    destruct (Z.ltb_spec (to_Z f) 0), (Z.ltb_spec (fmax k) (to_Z f)),
      (Z.leb_spec 0 (to_Z f)), (Z.leb_spec (to_Z f) (fmax k)); cbn; try reflexivity; lia.
Qed.

Lemma wrap_signed_small bits z : 0 < bits ->
  - 2 ^ (bits - 1) <= z < 2 ^ (bits - 1) -> wrap_signed bits z = z.
Proof.
  intros Hb Hz. unfold wrap_signed. cbv zeta.
  assert (Hm : 2 ^ bits = 2 * 2 ^ (bits - 1)).
  { replace bits with (1 + (bits - 1)) at 1 by lia. rewrite Z.pow_add_r by lia. reflexivity. }
  set (h := 2 ^ (bits - 1)) in *. assert (0 < h) by (apply Z.pow_pos_nonneg; lia).
  rewrite Hm. replace (2 * h / 2) with h by (rewrite Z.mul_comm, Z.div_mul; lia).
  destruct (Z_lt_le_dec z 0) as [Hn|Hp].
  - assert (E : z mod (2 * h) = z + 2 * h).
    { symmetry. apply (Z.mod_unique_pos _ _ (-1)); lia. }
    rewrite E. destruct (Z.ltb_spec (z + 2 * h) h); lia.
  - rewrite Z.mod_small by lia. destruct (Z.ltb_spec z h); lia.
Qed.

Lemma amd64_in_range k z : is_int_kind k = true ->
  int_min k <= z <= int_max k -> f64_to_int_amd64 k z = z.
Proof.
  intros Hk Hz. unfold f64_to_int_amd64.
  destruct (is_signed k) eqn:Hs.
  - assert (E1 : (z >=? two63) = false).
    { rewrite Z.geb_leb. apply Z.leb_gt.
      destruct k; try discriminate; cbn [int_min int_max] in Hz;
        unfold two63, two7, two15, two31 in *; lia. }
    assert (E2 : (z <? - two63) = false).
    { apply Z.ltb_ge.
      destruct k; try discriminate; cbn [int_min int_max] in Hz;
        unfold two63, two7, two15, two31 in *; lia. }
    rewrite E1, E2. cbn [orb]. apply wrap_signed_small.
    + destruct k; cbn; lia.
    + destruct k; try discriminate; cbn [int_min int_max kind_bits] in *;
        unfold two63, two7, two15, two31 in *.
      all: lia.
  - unfold is_int_kind in Hk. rewrite Hs in Hk. cbn [orb] in Hk.
    assert (E1 : (z >=? two64) = false).
    { rewrite Z.geb_leb. apply Z.leb_gt.
      destruct k; try discriminate; cbn [int_min int_max] in Hz;
        unfold two64, two8, two16, two32 in *; lia. }
    rewrite E1. apply Z.mod_small.
    destruct k; try discriminate; cbn [int_min int_max kind_bits] in *;
      unfold two64, two8, two16, two32 in *.
    all: lia.
Qed.

Definition slack (k : skind) : Z := match k with KInt | KInt64 | KUint | KUint64 => 1 | _ => 0 end.
Lemma fmax_slack k : is_int_kind k = true -> fmax k = int_max k + slack k.
Proof. destruct k; try discriminate; intros _; reflexivity. Qed.

Lemma f64_to_int_exact_partial k bits z :
  is_int_kind k = true -> conv_f64 k bits = Some (SInt z) ->
  exists z', is_finite (f64_of_bits bits) = true /\ B2R (f64_of_bits bits) = IZR z' /\
             int_min k <= z' <= int_max k + slack k /\ (z' <= int_max k -> z = z').
Proof.
  intros Hk H. rewrite (conv_f64_int_spec k bits Hk) in H. cbv zeta in H.
  set (f := f64_of_bits bits) in *.
  destruct (is_integral f) eqn:Hi; [|discriminate]. cbn [andb] in H.
  destruct (Z.leb_spec (int_min k) (to_Z f)); [|discriminate].
  destruct (Z.leb_spec (to_Z f) (fmax k)); [|discriminate]. cbn [andb] in H.
  exists (to_Z f). rewrite <- (fmax_slack k Hk).
  repeat split; try assumption.
  - now apply integral_finite.
  - now apply to_Z_correct.
  - intros Hle. inversion H. apply amd64_in_range; [assumption|lia].
Qed.

Lemma f64_to_int_complete k bits z' :
  is_int_kind k = true -> is_finite (f64_of_bits bits) = true -> B2R (f64_of_bits bits) = IZR z' ->
  int_min k <= z' <= int_max k -> conv_f64 k bits = Some (SInt z').
Proof.
  intros Hk Hf Hv Hr. rewrite (conv_f64_int_spec k bits Hk). cbv zeta.
  set (f := f64_of_bits bits) in *.
  rewrite (integral_complete f z' Hf Hv), (to_Z_unique f z' Hf Hv). cbn [andb].
  pose proof (fmax_slack k Hk). assert (0 <= slack k) by (destruct k; cbn; lia).
  destruct (Z.leb_spec (int_min k) z'); [|lia].
  destruct (Z.leb_spec z' (fmax k)); [|lia]. cbn [andb].
  now rewrite amd64_in_range.
Qed.

Lemma f64_to_int_declines k bits :
  is_int_kind k = true ->
  is_finite (f64_of_bits bits) = false \/
  (forall z, B2R (f64_of_bits bits) <> IZR z) \/
  (exists z, B2R (f64_of_bits bits) = IZR z /\ (z < int_min k \/ int_max k + slack k < z)) ->
  conv_f64 k bits = None.
Proof.
  intros Hk H. rewrite (conv_f64_int_spec k bits Hk). cbv zeta.
  set (f := f64_of_bits bits) in *.
  destruct (is_integral f) eqn:Hi; [|reflexivity]. cbn [andb].
  pose proof (integral_finite f Hi) as Hf. pose proof (to_Z_correct f Hi) as Hz.
  destruct H as [H|[H|[z [Hv H]]]].
  - congruence.
  - exfalso. exact (H _ Hz).
  - rewrite (to_Z_unique f z Hf Hv). rewrite (fmax_slack k Hk).
    destruct (Z.leb_spec (int_min k) z), (Z.leb_spec z (int_max k + slack k)); cbn; try reflexivity; lia.
Qed.

(* math.Copysign(0, -1): the sign bit alone *)
Definition neg_zero_bits64 : Z := 9223372036854775808.
Lemma f64_neg_zero k : is_int_kind k = true ->
  f64_of_bits neg_zero_bits64 = B754_zero true /\ conv_f64 k neg_zero_bits64 = Some (SInt 0).
Proof. destruct k; try discriminate; intros _; split; vm_compute; reflexivity. Qed.

(* K6 *)
Lemma f64_int64_boundary :
  (is_finite (f64_of_bits bits_two63) = true /\ B2R (f64_of_bits bits_two63) = IZR two63 /\
   conv_f64 KInt64 bits_two63 = Some (SInt (- two63)) /\ conv_f64 KInt bits_two63 = Some (SInt (- two63))) /\
  (is_finite (f64_of_bits bits_two64) = true /\ B2R (f64_of_bits bits_two64) = IZR two64 /\
   conv_f64 KUint64 bits_two64 = Some (SInt two63) /\ conv_f64 KUint bits_two64 = Some (SInt two63)).
Proof.
  split; (split; [vm_compute; reflexivity|]; split; [|split; vm_compute; reflexivity]).
  - rewrite (to_Z_correct (f64_of_bits bits_two63)); [f_equal|]; vm_compute; reflexivity.
  - rewrite (to_Z_correct (f64_of_bits bits_two64)); [f_equal|]; vm_compute; reflexivity.
Qed.

Lemma f64_to_int_exact_refuted :
  ~ (forall k bits z, is_int_kind k = true -> conv_f64 k bits = Some (SInt z) ->
       B2R (f64_of_bits bits) = IZR z /\ int_min k <= z <= int_max k /\
       exists z', B2R (f64_of_bits bits) = IZR z' /\ z' <= int_max k).
Proof.
  intros H. destruct f64_int64_boundary as [[_ [Hv [Hc _]]] _].
  destruct (H KInt64 bits_two63 (- two63) eq_refl Hc) as [H1 _].
  rewrite Hv in H1. apply eq_IZR in H1. discriminate.
Qed.

(* ---------- int64 sources ---------- *)
Lemma i64_to_int_exact_complete k z z' : is_int_kind k = true ->
  (conv_i64 k z = Some (SInt z') <-> z' = z /\ int_min k <= z <= int_max k).
Proof.
  intros Hk. rewrite conv_i64_gen; unfold conv_i64_ref. unfold is_int_kind in Hk.
  destruct (is_signed k) eqn:Hs.
  - rewrite Z.gtb_ltb.
    destruct (Z.ltb_spec z (int_min k)), (Z.ltb_spec (int_max k) z); cbn [orb]; split; intros H';
      try discriminate; try lia; try (inversion H'; lia).
    destruct H' as [-> _]. reflexivity.
  - cbn [orb] in Hk. rewrite Hk. rewrite Z.gtb_ltb.
    assert (Hm : int_min k = 0) by (destruct k; try discriminate; reflexivity). rewrite Hm.
    destruct (Z.ltb_spec z 0), (Z.ltb_spec (int_max k) z); split; intros H';
      try discriminate; try lia; try (inversion H'; lia).
    destruct H' as [-> _]. reflexivity.
Qed.

Lemma i64_to_int_shape k z : is_int_kind k = true -> conv_i64 k z = None \/ conv_i64 k z = Some (SInt z).
Proof.
  intros Hk. rewrite conv_i64_gen; unfold conv_i64_ref. unfold is_int_kind in Hk.
  destruct (is_signed k).
  - destruct ((z <? int_min k) || (z >? int_max k)); auto.
  - cbn [orb] in Hk. rewrite Hk. destruct (z <? 0); auto. destruct (z >? int_max k); auto.
Qed.

(* ---------- float32 targets ---------- *)
Notation fexp32 := (FLT_exp (-149) 24).
Notation fexp64 := (FLT_exp (-1074) 53).
Definition max_float32_Z : Z := 340282346638528859811704183484516925440.   (* (2^24 - 1) 2^104 *)
Definition two128 : Z := 340282366920938463463374607431768211456.

Lemma maxf_props : is_finite (f64_of_bits max_float32_bits64) = true /\
                   B2R (f64_of_bits max_float32_bits64) = IZR max_float32_Z.
Proof.
  split; [vm_compute; reflexivity|].
  rewrite (to_Z_correct (f64_of_bits max_float32_bits64)); [f_equal|]; vm_compute; reflexivity.
Qed.

Lemma bpow_IZR e : 0 <= e -> bpow radix2 e = IZR (2 ^ e).
Proof. intros H. rewrite <- (IZR_Zpower radix2 e H). reflexivity. Qed.

Lemma max32_format : generic_format radix2 fexp32 (IZR max_float32_Z).
Proof.
  apply generic_format_FLT. exists (Float radix2 16777215 104).
  - unfold F2R. cbn [Fnum Fexp]. rewrite bpow_IZR by lia. rewrite <- mult_IZR. f_equal.
  - cbn. lia.
  - cbn. lia.
Qed.

Lemma max32_lt : (IZR max_float32_Z < bpow radix2 128)%R.
Proof. rewrite bpow_IZR by lia. apply IZR_lt. reflexivity. Qed.

Lemma Rlt_bool_Rabs_round32 x : (Rabs x <= IZR max_float32_Z)%R ->
  Rlt_bool (Rabs (round radix2 fexp32 ZnearestE x)) (bpow radix2 128) = true.
Proof.
  intros H. apply Rlt_bool_true. apply Rle_lt_trans with (2 := max32_lt).
  apply abs_round_le_generic; try exact H; try apply max32_format;
    try (apply FLT_exp_valid; reflexivity); auto with typeclass_instances.
Qed.

Lemma f64_to_f32_correct (f : b64) : is_finite f = true -> (Rabs (B2R f) <= IZR max_float32_Z)%R ->
  is_finite (f64_to_f32 f) = true /\
  B2R (f64_to_f32 f) = round radix2 fexp32 ZnearestE (B2R f) /\
  Bsign (f64_to_f32 f) = Bsign f.
Proof.
  destruct f as [s| s | | s m e He]; try discriminate; intros _ Hle.
  - cbn. rewrite round_0; auto with typeclass_instances.
  - unfold f64_to_f32.
    pose proof (binary_normalize_correct 24 128 eq_refl eq_refl mode_NE (if s then Z.neg m else Z.pos m) e s) as H.
    cbv zeta in H.
    assert (Hx : F2R (Float radix2 (if s then Z.neg m else Z.pos m) e) = B2R (B754_finite s m e He)).
    { unfold B2R. destruct s; reflexivity. }
    rewrite Hx in H.
    change (SpecFloat.fexp 24 128) with fexp32 in H. change (round_mode mode_NE) with ZnearestE in H.
    rewrite (Rlt_bool_Rabs_round32 _ Hle) in H.
    destruct H as [H1 [H2 H3]]. repeat split; try assumption.
    rewrite H3. cbn [Bsign].
    destruct s.
    + rewrite Rcompare_Lt; [reflexivity|]. unfold B2R. apply F2R_lt_0. reflexivity.
    + rewrite Rcompare_Gt; [reflexivity|]. unfold B2R. apply F2R_gt_0. reflexivity.
Qed.

Lemma conv_f64_f32_spec bits :
  let f := f64_of_bits bits in
  conv_f64 KFloat32 bits =
  match f with
  | B754_nan => Some (SF32 nan32_bits)
  | B754_infinity _ => None
  | _ => if Rlt_bool (IZR max_float32_Z) (Rabs (B2R f)) then None else Some (SF32 (bits_of_f32 (f64_to_f32 f)))
  end.
Proof.
  cbv zeta. rewrite conv_f64_gen; unfold conv_f64_ref. cbn [is_signed is_unsigned].
  destruct maxf_props as [Mf Mv]. set (mx := f64_of_bits max_float32_bits64) in *.
  destruct (f64_of_bits bits) as [s| s | | s m e He] eqn:E.
  - rewrite Bltb_correct by (try assumption; reflexivity). rewrite Mv, B2R_Babs. reflexivity.
  - destruct mx; try discriminate; reflexivity.
  - destruct mx; try discriminate; reflexivity.
  - rewrite Bltb_correct by (try assumption; reflexivity). rewrite Mv, B2R_Babs. reflexivity.
Qed.

Lemma f64_to_f32_nearest bits :
  let f := f64_of_bits bits in
  (is_nan_f f = true -> conv_f64 KFloat32 bits = Some (SF32 nan32_bits)) /\
  (is_inf_f f = true -> conv_f64 KFloat32 bits = None) /\
  (is_finite f = true -> (IZR max_float32_Z < Rabs (B2R f))%R -> conv_f64 KFloat32 bits = None) /\
  (is_finite f = true -> (Rabs (B2R f) <= IZR max_float32_Z)%R ->
     exists g : b32, conv_f64 KFloat32 bits = Some (SF32 (bits_of_f32 g)) /\ is_finite g = true /\
       B2R g = round radix2 fexp32 ZnearestE (B2R f) /\ Bsign g = Bsign f).
Proof.
  cbv zeta. rewrite conv_f64_f32_spec. cbv zeta.
  destruct (f64_of_bits bits) as [s| s | | s m e He] eqn:E; repeat split; try discriminate; try reflexivity; intros _ H.
  - rewrite Rlt_bool_true by exact H. reflexivity.
  - rewrite Rlt_bool_false by exact H. exists (f64_to_f32 (B754_zero s)). split; [reflexivity|].
    apply f64_to_f32_correct; [reflexivity|exact H].
  - rewrite Rlt_bool_true by exact H. reflexivity.
  - rewrite Rlt_bool_false by exact H. exists (f64_to_f32 (B754_finite s m e He)). split; [reflexivity|].
    apply f64_to_f32_correct; [reflexivity|exact H].
Qed.

(* ---------- the integer decoder of Check/C11.v against Flocq's ---------- *)
Definition fdec_of {p e} (emin : Z) (g : binary_float p e) : fdec :=
  match g with
  | B754_zero s => FFin s 0 emin
  | B754_infinity s => FInf s
  | B754_nan => FNan
  | B754_finite s m ex _ => FFin s (Zpos m) ex
  end.

Definition fdec_ff (emin : Z) (g : Binary.full_float) : fdec :=
  match g with
  | Binary.F754_zero s => FFin s 0 emin
  | Binary.F754_infinity s => FInf s
  | Binary.F754_nan _ _ => FNan
  | Binary.F754_finite s m ex => FFin s (Zpos m) ex
  end.

Lemma decode_aux mw ew x : 0 < mw -> 
  decode mw ew x = fdec_ff (fmt_emin mw ew) (Bits.binary_float_of_bits_aux mw ew x).
Proof.
  intros Hmw. unfold decode, Bits.binary_float_of_bits_aux, Bits.split_bits. cbv zeta.
  assert (Hp : 0 < 2 ^ mw) by (apply Z.pow_pos_nonneg; lia).
  pose proof (Z.mod_pos_bound x (2 ^ mw) Hp) as Hm.
  set (m := x mod 2 ^ mw) in *. set (ex := (x / 2 ^ mw) mod 2 ^ ew).
  change (SpecFloat.emin (mw + 1) (2 ^ (ew - 1))) with (fmt_emin mw ew).
  replace (fmt_emin mw ew) with (3 - 2 ^ (ew - 1) - (mw + 1)) by reflexivity.
  case Zeq_bool_spec; intros E1.
  - rewrite E1. cbn [Z.eqb]. destruct m; try reflexivity. lia.
  - destruct (Z.eqb_spec ex 0); [contradiction|].
    case Zeq_bool_spec; intros E2.
    + rewrite E2, Z.eqb_refl. destruct m; reflexivity.
    + destruct (Z.eqb_spec ex (2 ^ ew - 1)); [contradiction|].
      destruct (m + 2 ^ mw) eqn:E3; try lia. reflexivity.
Qed.

Lemma dec64_spec bits : dec64 bits = fdec_of (-1074) (f64_of_bits bits).
Proof.
  unfold dec64. rewrite decode_aux by lia.
  unfold f64_of_bits, Bits.b64_of_bits.
  set (x := Bits.binary_float_of_bits 52 11 eq_refl eq_refl eq_refl bits).
  assert (A : Binary.B2FF 53 1024 x = Bits.binary_float_of_bits_aux 52 11 bits) by apply Binary.B2FF_FF2B.
  rewrite <- A. destruct x; reflexivity.
Qed.

Lemma dec32_spec bits : dec32 bits = fdec_of (-149) (f32_of_bits bits).
Proof.
  unfold dec32. rewrite decode_aux by lia.
  unfold f32_of_bits, Bits.b32_of_bits.
  set (x := Bits.binary_float_of_bits 23 8 eq_refl eq_refl eq_refl bits).
  assert (A : Binary.B2FF 24 128 x = Bits.binary_float_of_bits_aux 23 8 bits) by apply Binary.B2FF_FF2B.
  rewrite <- A. destruct x; reflexivity.
Qed.

(* ---------- encoding then decoding ---------- *)
Lemma bounded_facts prec emax m ex : 0 < prec ->
  SpecFloat.bounded prec emax m ex = true ->
  3 - emax - prec <= ex /\ Zpos m < 2 ^ prec /\ ex <= emax - prec /\
  (Zpos m < 2 ^ (prec - 1) -> ex = 3 - emax - prec).
Proof.
  intros Hp H. apply andb_prop in H as [H1 H2].
  apply Zle_bool_imp_le in H2.
  unfold SpecFloat.canonical_mantissa in H1. apply Zeq_bool_eq in H1.
  rewrite Zpos_digits2_pos in H1. unfold SpecFloat.fexp, SpecFloat.emin in H1.
  destruct (Zdigits_correct radix2 (Zpos m)) as [D1 D2].
  set (d := Zdigits radix2 (Zpos m)) in *.
  change (Z.pow (radix_val radix2)) with (Z.pow 2) in *. cbn [Z.abs] in *.
  assert (Hd : d <= prec) by lia.
  repeat split; try lia.
  - apply Z.lt_le_trans with (1 := D2). apply Z.pow_le_mono_r; lia.
  - intros Hs.
    assert (d - 1 < prec - 1).
    { apply (Z.pow_lt_mono_r_iff 2); try lia. }
    lia.
Qed.

Lemma decode_join mw ew s m ex : 0 < mw -> 0 < ew ->
  0 <= m < 2 ^ mw -> 0 <= ex < 2 ^ ew ->
  decode mw ew (Bits.join_bits mw ew s m ex) =
  if ex =? 0 then FFin s m (fmt_emin mw ew)
  else if ex =? 2 ^ ew - 1 then (if m =? 0 then FInf s else FNan)
  else FFin s (m + 2 ^ mw) (ex + fmt_emin mw ew - 1).
Proof.
  intros Hmw Hew Hm He.
  pose proof (Bits.split_join_bits mw ew s m ex Hm He) as H.
  unfold Bits.split_bits in H. cbv zeta in H. injection H as H1 H2 H3.
  unfold decode. cbv zeta. rewrite H1, H2, H3. reflexivity.
Qed.

Lemma decode_bits_of_bsn mw ew nanbits (g : binary_float (mw + 1) (2 ^ (ew - 1))) :
  0 < mw -> 0 < ew -> decode mw ew nanbits = FNan ->
  decode mw ew (bits_of_bsn mw ew nanbits g) = fdec_of (fmt_emin mw ew) g.
Proof.
  intros Hmw Hew Hnan.
  assert (Hpm : 0 < 2 ^ mw) by (apply Z.pow_pos_nonneg; lia).
  assert (Hpe : 2 ^ ew = 2 * 2 ^ (ew - 1)).
  { replace ew with (1 + (ew - 1)) at 1 by lia. rewrite Z.pow_add_r by lia. reflexivity. }
  assert (Hpe1 : 0 < 2 ^ (ew - 1)) by (apply Z.pow_pos_nonneg; lia).
  assert (Hpp : 2 ^ (mw + 1) = 2 * 2 ^ mw).
  { rewrite Z.pow_add_r by lia. change (2 ^ 1) with 2. lia. }
  destruct g as [s|s| |s m ex Hb]; unfold bits_of_bsn, fdec_of.
  - rewrite decode_join by lia. reflexivity.
  - rewrite decode_join by lia.
    destruct (Z.eqb_spec (2 ^ ew - 1) 0); [lia|]. rewrite Z.eqb_refl. reflexivity.
  - exact Hnan.
  - destruct (bounded_facts (mw + 1) (2 ^ (ew - 1)) m ex ltac:(lia) Hb) as [B1 [B2 [B3 B4]]].
    replace (mw + 1 - 1) with mw in B4 by lia.
    cbv zeta. unfold fmt_emin.
    destruct (Z.leb_spec 0 (Z.pos m - 2 ^ mw)) as [Hn|Hs].
    + rewrite decode_join by lia.
      destruct (Z.eqb_spec (ex - (3 - 2 ^ (ew - 1) - (mw + 1)) + 1) 0); [lia|].
      destruct (Z.eqb_spec (ex - (3 - 2 ^ (ew - 1) - (mw + 1)) + 1) (2 ^ ew - 1)); [lia|].
      unfold fmt_emin. f_equal; lia.
    + rewrite decode_join by lia. cbn [Z.eqb]. unfold fmt_emin. f_equal. rewrite B4 by lia. reflexivity.
Qed.

Lemma dec32_bits_of_f32 (g : b32) : dec32 (bits_of_f32 g) = fdec_of (-149) g.
Proof. apply (decode_bits_of_bsn 23 8 nan32_bits g); reflexivity. Qed.
Lemma dec64_bits_of_f64 (g : b64) : dec64 (bits_of_f64 g) = fdec_of (-1074) g.
Proof. apply (decode_bits_of_bsn 52 11 nan64_bits g); reflexivity. Qed.

(* ---------- the distance test of Check/C11.v is implied by Flocq's round-to-nearest-even ---------- *)
Section Nearest.
Variables prec emin : Z.
Hypothesis Hprec : 1 < prec.
Instance c11_prec_gt_0 : Prec_gt_0 prec.
Proof. unfold Prec_gt_0. lia. Qed.
Notation fexp := (FLT_exp emin prec).
Notation format := (generic_format radix2 fexp).
Instance c11_exists_NE : Exists_NE radix2 fexp.
Proof. apply exists_NE_FLT. right. exact Hprec. Qed.

Lemma scale_int n k E : E <= k -> (IZR (n * 2 ^ (k - E)) * bpow radix2 E = IZR n * bpow radix2 k)%R.
Proof.
  intros H. rewrite mult_IZR, <- bpow_IZR by lia. rewrite Rmult_assoc, <- bpow_plus. f_equal. f_equal. lia.
Qed.

Lemma format_nat n k : 0 <= n <= 2 ^ prec -> emin <= k -> format (IZR n * bpow radix2 k).
Proof.
  intros Hn Hk. destruct (Z.eq_dec n (2 ^ prec)) as [->|Hne].
  - rewrite <- bpow_IZR by lia. rewrite <- bpow_plus. apply generic_format_FLT_bpow; [exact c11_prec_gt_0|lia].
  - apply generic_format_FLT. exists (Float radix2 n k).
    + reflexivity.
    + cbn [Fnum]. change (Z.pow (radix_val radix2)) with (Z.pow 2). lia.
    + exact Hk.
Qed.

Lemma near_up x r g : Rnd_N_pt format x r -> format g -> (r < g)%R -> (r <= x)%R -> (2 * (x - r) <= g - r)%R.
Proof.
  intros [_ H] Hg Hlt Hx. specialize (H g Hg). revert H. unfold Rabs.
  destruct (Rcase_abs (r - x)), (Rcase_abs (g - x)); lra.
Qed.
Lemma near_dn x r g : Rnd_N_pt format x r -> format g -> (g < r)%R -> (x <= r)%R -> (2 * (r - x) <= r - g)%R.
Proof.
  intros [_ H] Hg Hlt Hx. specialize (H g Hg). revert H. unfold Rabs.
  destruct (Rcase_abs (r - x)), (Rcase_abs (g - x)); lra.
Qed.

(* in a tie the mantissa of the canonical representation is even *)
Lemma tie_even x (mm : positive) ee g :
  let r := F2R (Float radix2 (Zpos mm) ee) in
  canonical radix2 fexp (Float radix2 (Zpos mm) ee) ->
  r = round radix2 fexp ZnearestE x -> format g -> g <> r ->
  Rabs (g - x) = Rabs (r - x) -> Z.even (Zpos mm) = true.
Proof.
  intros r Hc Hr Hg Hne Htie.
  pose proof (round_NE_pt radix2 fexp x) as [HN HP]. rewrite <- Hr in HN, HP.
  destruct HP as [[f [Hf [Hcf Hev]]]|Hu].
  - assert (f = Float radix2 (Zpos mm) ee) as ->.
    { apply (canonical_unique radix2 fexp); try assumption. symmetry. exact Hf. }
    exact Hev.
  - exfalso. apply Hne. apply Hu. split; [exact Hg|].
    intros g' Hg'. rewrite Htie. apply (proj2 HN g' Hg').
Qed.

Lemma Zeven_pos_bool a : Z.even a = true \/ Z.even a = false.
Proof. destruct (Z.even a); auto. Qed.

Lemma nearest_mag_sound_pos m e (mm : positive) ee :
  0 <= m -> Zpos mm < 2 ^ prec -> emin <= ee ->
  canonical radix2 fexp (Float radix2 (Zpos mm) ee) ->
  F2R (Float radix2 (Zpos mm) ee) = round radix2 fexp ZnearestE (IZR m * bpow radix2 e) ->
  nearest_mag prec emin m e (Zpos mm) ee = true.
Proof.
  intros Hm Hmm Hee Hc Hr.
  set (x := (IZR m * bpow radix2 e)%R) in *.
  set (r := F2R (Float radix2 (Zpos mm) ee)) in *.
  assert (HN : Rnd_N_pt format x r).
  { rewrite Hr. apply round_N_pt. apply FLT_exp_valid. exact c11_prec_gt_0. }
  unfold nearest_mag. cbv zeta.
  set (E := Z.min e (ee - 1)).
  assert (HE1 : E <= e) by lia. assert (HE2 : E <= ee - 1) by lia.
  set (X := m * 2 ^ (e - E)). set (R := Z.pos mm * 2 ^ (ee - E)). set (U := 2 ^ (ee - E)).
  set (b := bpow radix2 E). assert (Hb : (0 < b)%R) by apply bpow_gt_0.
  assert (Hx : x = (IZR X * b)%R) by (unfold x, X, b; rewrite scale_int; [reflexivity|lia]).
  assert (HR : r = (IZR R * b)%R).
  { unfold r, R, b, F2R. cbn [Fnum Fexp]. rewrite scale_int; [reflexivity|lia]. }
  assert (HU : bpow radix2 ee = (IZR U * b)%R).
  { unfold U, b. rewrite <- (Rmult_1_l (bpow radix2 ee)). rewrite <- (scale_int 1 ee E) by lia. f_equal. f_equal. lia. }
  assert (HUpos : 0 < U) by (apply Z.pow_pos_nonneg; lia).
  destruct (Z.leb_spec R X) as [Hle|Hgt].
  - (* x >= r: compare with r + ulp *)
    set (g := (IZR (Zpos mm + 1) * bpow radix2 ee)%R).
    assert (Hg : format g) by (apply format_nat; lia).
    assert (Hgr : g = (r + bpow radix2 ee)%R).
    { unfold g, r, F2R. cbn [Fnum Fexp]. rewrite plus_IZR. ring. }
    assert (Hrx : (r <= x)%R). { rewrite Hx, HR. apply Rmult_le_compat_r; [lra|]. now apply IZR_le. }
    assert (Hlt : (r < g)%R). { rewrite Hgr. pose proof (bpow_gt_0 radix2 ee). lra. }
    pose proof (near_up x r g HN Hg Hlt Hrx) as H2.
    assert (Hi : 2 * (X - R) <= U).
    { apply le_IZR. apply Rmult_le_reg_r with (1 := Hb).
      rewrite mult_IZR, minus_IZR. rewrite Hgr, HU, Hx, HR in H2. lra. }
    destruct (Z.ltb_spec (2 * (X - R)) U) as [|Hge]; [reflexivity|]. cbn [orb].
    assert (Heq : 2 * (X - R) = U) by lia. rewrite Heq, Z.eqb_refl. cbn [andb].
    apply (tie_even x mm ee g Hc Hr Hg).
    + fold r. lra.
    + fold r. assert (E2 : (2 * (x - r) = g - r)%R).
      { rewrite Hgr, HU, Hx, HR. replace (IZR U) with (IZR (2 * (X - R))) by now rewrite Heq.
        rewrite mult_IZR, minus_IZR. ring. }
      rewrite (Rabs_pos_eq (g - x)) by lra. rewrite (Rabs_left1 (r - x)) by lra. lra.
  - (* x < r: compare with the format point below r *)
    assert (Hrx : (x <= r)%R). { rewrite Hx, HR. apply Rmult_le_compat_r; [lra|]. apply IZR_le. lia. }
    set (bd := (Z.pos mm =? 2 ^ (prec - 1)) && (emin <? ee)).
    set (D := if bd then 2 ^ (ee - 1 - E) else U).
    assert (Hex : exists g, format g /\ (g < r)%R /\ (r - g = IZR D * b)%R).
    { unfold D. destruct bd eqn:Hbd.
      - apply andb_prop in Hbd as [B1 B2]. apply Z.eqb_eq in B1. apply Z.ltb_lt in B2.
        exists (IZR (2 ^ prec - 1) * bpow radix2 (ee - 1))%R.
        assert (P2 : 2 ^ prec = 2 * 2 ^ (prec - 1)).
        { replace prec with (1 + (prec - 1)) at 1 by lia. rewrite Z.pow_add_r by lia. reflexivity. }
        assert (Hd : (r - IZR (2 ^ prec - 1) * bpow radix2 (ee - 1) = bpow radix2 (ee - 1))%R).
        { unfold r, F2R. cbn [Fnum Fexp]. rewrite B1.
          replace ee with (1 + (ee - 1)) at 1 by lia. rewrite bpow_plus.
          rewrite minus_IZR, P2, mult_IZR. change (bpow radix2 1) with 2%R. simpl (IZR 1). ring. }
        split; [|split].
        + apply format_nat; [|lia]. assert (0 < 2 ^ prec) by (apply Z.pow_pos_nonneg; lia). lia.
        + pose proof (bpow_gt_0 radix2 (ee - 1)). lra.
        + rewrite Hd. unfold b. rewrite <- (Rmult_1_l (bpow radix2 (ee - 1))).
          rewrite <- (scale_int 1 (ee - 1) E) by lia. f_equal. f_equal. lia.
      - exists (IZR (Zpos mm - 1) * bpow radix2 ee)%R.
        assert (Hd : (r - IZR (Zpos mm - 1) * bpow radix2 ee = bpow radix2 ee)%R).
        { unfold r, F2R. cbn [Fnum Fexp]. rewrite minus_IZR. simpl (IZR 1). ring. }
        split; [|split].
        + apply format_nat; lia.
        + pose proof (bpow_gt_0 radix2 ee). lra.
        + rewrite Hd. exact HU. }
    destruct Hex as [g [Hg [Hlt HD]]].
    pose proof (near_dn x r g HN Hg Hlt Hrx) as H2.
    assert (Hi : 2 * (R - X) <= D).
    { apply le_IZR. apply Rmult_le_reg_r with (1 := Hb).
      rewrite mult_IZR, minus_IZR. rewrite HD, Hx, HR in H2. lra. }
    fold D. destruct (Z.ltb_spec (2 * (R - X)) D) as [|Hge]; [reflexivity|]. cbn [orb].
    assert (Heq : 2 * (R - X) = D) by lia. rewrite Heq, Z.eqb_refl. cbn [andb].
    apply (tie_even x mm ee g Hc Hr Hg).
    + fold r. lra.
    + fold r. assert (E2 : (2 * (r - x) = r - g)%R).
      { rewrite HD, Hx, HR. replace (IZR D) with (IZR (2 * (R - X))) by now rewrite Heq.
        rewrite mult_IZR, minus_IZR. ring. }
      rewrite (Rabs_left1 (g - x)) by lra. rewrite (Rabs_pos_eq (r - x)) by lra. lra.
Qed.

Lemma nearest_mag_sound_zero m e :
  0 <= m -> round radix2 fexp ZnearestE (IZR m * bpow radix2 e) = 0%R ->
  nearest_mag prec emin m e 0 emin = true.
Proof.
  intros Hm Hr.
  set (x := (IZR m * bpow radix2 e)%R) in *.
  assert (HN : Rnd_N_pt format x 0%R).
  { rewrite <- Hr. apply round_N_pt. apply FLT_exp_valid. exact c11_prec_gt_0. }
  unfold nearest_mag. cbv zeta.
  set (E := Z.min e (emin - 1)).
  assert (HE1 : E <= e) by lia. assert (HE2 : E <= emin - 1) by lia.
  set (X := m * 2 ^ (e - E)). set (U := 2 ^ (emin - E)).
  set (b := bpow radix2 E). assert (Hb : (0 < b)%R) by apply bpow_gt_0.
  assert (Hx : x = (IZR X * b)%R) by (unfold x, X, b; rewrite scale_int; [reflexivity|lia]).
  assert (HU : bpow radix2 emin = (IZR U * b)%R).
  { unfold U, b. rewrite <- (Rmult_1_l (bpow radix2 emin)). rewrite <- (scale_int 1 emin E) by lia. f_equal. f_equal. lia. }
  assert (HX : 0 <= X) by (unfold X; apply Z.mul_nonneg_nonneg; [lia|apply Z.pow_nonneg; lia]).
  rewrite Z.mul_0_l. destruct (Z.leb_spec 0 X); [|lia].
  assert (Hg : format (bpow radix2 emin)) by (apply generic_format_FLT_bpow; [exact c11_prec_gt_0|lia]).
  assert (H0x : (0 <= x)%R). { rewrite Hx. apply Rmult_le_pos; [now apply IZR_le|lra]. }
  pose proof (near_up x 0%R (bpow radix2 emin) HN Hg (bpow_gt_0 radix2 emin) H0x) as H2.
  assert (Hi : 2 * (X - 0) <= U).
  { apply le_IZR. apply Rmult_le_reg_r with (1 := Hb).
    rewrite mult_IZR, minus_IZR. rewrite HU, Hx in H2. simpl (IZR 0). lra. }
  destruct (Z.ltb_spec (2 * (X - 0)) U); [reflexivity|]. cbn [orb].
  assert (Heq : 2 * (X - 0) = U) by lia. rewrite Heq, Z.eqb_refl. reflexivity.
Qed.
End Nearest.

(* ---------- integers in a binary format ---------- *)
Section IntFormat.
Variables prec emin : Z.
Hypothesis Hprec : 1 < prec.
Hypothesis Hemin : emin <= 0.
Notation fexp := (FLT_exp emin prec).
Notation format := (generic_format radix2 fexp).
Let Hp : Prec_gt_0 prec := c11_prec_gt_0 prec Hprec.
Existing Instance Hp.

(* a format number of magnitude at least 2^prec is an integer *)
Lemma big_format_int r : format r -> (bpow radix2 prec <= Rabs r)%R -> exists N, r = IZR N.
Proof.
  intros Hf Hb. unfold generic_format in Hf.
  set (M := Ztrunc (scaled_mantissa radix2 fexp r)) in *.
  assert (Hc : 0 <= cexp radix2 fexp r).
  { unfold cexp, FLT_exp.
    assert (prec + 1 <= mag radix2 r) by (apply mag_ge_bpow; replace (prec + 1 - 1) with prec by lia; exact Hb).
    lia. }
  exists (M * 2 ^ cexp radix2 fexp r). rewrite Hf at 1. unfold F2R. cbn [Fnum Fexp].
  rewrite mult_IZR, bpow_IZR by exact Hc. reflexivity.
Qed.

Lemma small_int_format z : Z.abs z <= 2 ^ prec -> format (IZR z).
Proof.
  intros H. destruct (Z_lt_le_dec z 0).
  - replace z with (- (- z)) by lia. rewrite opp_IZR. apply generic_format_opp.
    rewrite <- (Rmult_1_r (IZR (- z))). change 1%R with (bpow radix2 0). apply (format_nat prec emin Hprec); lia.
  - rewrite <- (Rmult_1_r (IZR z)). change 1%R with (bpow radix2 0). apply (format_nat prec emin Hprec); lia.
Qed.

Lemma round_int z : exists N, round radix2 fexp ZnearestE (IZR z) = IZR N.
Proof.
  destruct (Z_le_gt_dec (Z.abs z) (2 ^ prec)) as [Hs|Hb].
  - exists z. apply round_generic; auto with typeclass_instances. now apply small_int_format.
  - apply big_format_int.
    + apply generic_format_round; auto with typeclass_instances.
    + apply abs_round_ge_generic; auto with typeclass_instances.
      * apply generic_format_FLT_bpow; [exact Hp|lia].
      * rewrite <- abs_IZR, bpow_IZR by lia. apply IZR_le. lia.
Qed.

(* [fits]: at most prec significant bits *)
Lemma fits_format a : 0 <= a -> (fits prec a = true <-> format (IZR a)).
Proof.
  intros Ha. unfold fits. destruct (Z.eqb_spec a 0) as [->|Hnz].
  { split; [intros _; apply generic_format_0|reflexivity]. }
  assert (Hpos : 0 < a) by lia.
  destruct (Z.log2_spec a Hpos) as [L1 L2]. set (l := Z.log2 a) in *.
  assert (Hl : 0 <= l) by apply Z.log2_nonneg.
  set (k := l + 1 - prec).
  assert (Hmag : (mag radix2 (IZR a) : Z) = l + 1).
  { apply mag_unique_pos. replace (l + 1 - 1) with l by lia. rewrite !bpow_IZR by lia.
    split; [apply IZR_le|apply IZR_lt]; [exact L1|]. replace (l + 1) with (Z.succ l) by lia. exact L2. }
  destruct (Z.leb_spec k 0) as [Hk|Hk].
  - split; [intros _|reflexivity]. apply small_int_format.
    rewrite Z.abs_eq by lia. apply Z.lt_le_incl. apply Z.lt_le_trans with (1 := L2).
    apply Z.pow_le_mono_r; lia.
  - assert (P2 : 0 < 2 ^ k) by (apply Z.pow_pos_nonneg; lia).
    split.
    + intros H. apply Z.eqb_eq in H.
      pose proof (Z.div_mod a (2 ^ k) ltac:(lia)) as Hd. rewrite H, Z.add_0_r in Hd.
      set (q := a / 2 ^ k) in *.
      replace (IZR a) with (IZR q * bpow radix2 k)%R.
      2:{ rewrite bpow_IZR by lia. rewrite <- mult_IZR. f_equal. lia. }
      apply (format_nat prec emin Hprec); [|lia].
      assert (q < 2 ^ prec).
      { apply Z.mul_lt_mono_pos_l with (2 ^ k); [lia|]. rewrite <- Z.pow_add_r by lia.
        replace (k + prec) with (Z.succ l) by lia. lia. }
      assert (0 <= q) by (apply Z.div_pos; lia). lia.
    + intros Hf. apply Z.eqb_eq. unfold generic_format in Hf.
      assert (Hc : cexp radix2 fexp (IZR a) = k).
      { unfold cexp, FLT_exp. rewrite Hmag. fold k. lia. }
      rewrite Hc in Hf. unfold F2R in Hf. cbn [Fnum Fexp] in Hf.
      rewrite bpow_IZR, <- mult_IZR in Hf by lia. apply eq_IZR in Hf.
      rewrite Hf. apply Z.mod_mul. lia.
Qed.
End IntFormat.

Lemma fits_format32 a : 0 <= a -> (fits 24 a = true <-> generic_format radix2 fexp32 (IZR a)).
Proof. apply fits_format; lia. Qed.

(* ---------- int64 sources to float targets ---------- *)
Lemma F2R_int z : F2R (Float radix2 z 0) = IZR z.
Proof. unfold F2R. cbn. ring. Qed.

Lemma two63_bpow : IZR two63 = bpow radix2 63.
Proof. rewrite bpow_IZR by lia. reflexivity. Qed.

Lemma i64_to_f32_correct z : - two63 <= z <= two63 ->
  is_finite (i64_to_f32 z) = true /\
  B2R (i64_to_f32 z) = round radix2 fexp32 ZnearestE (IZR z) /\
  Bsign (i64_to_f32 z) = (z <? 0).
Proof.
  intros Hz. unfold i64_to_f32.
  pose proof (binary_normalize_correct 24 128 eq_refl eq_refl mode_NE z 0 false) as H. cbv zeta in H.
  rewrite F2R_int in H.
  change (SpecFloat.fexp 24 128) with fexp32 in H. change (round_mode mode_NE) with ZnearestE in H.
  rewrite Rlt_bool_true in H.
  - destruct H as [H1 [H2 H3]]. repeat split; try assumption. rewrite H3.
    destruct (Z.ltb_spec z 0).
    + rewrite Rcompare_Lt; [reflexivity|]. now apply (IZR_lt z 0).
    + destruct (Z.eq_dec z 0) as [->|]; [rewrite Rcompare_Eq; reflexivity|].
      rewrite Rcompare_Gt; [reflexivity|]. apply (IZR_lt 0 z). lia.
  - apply Rle_lt_trans with (bpow radix2 63); [|apply bpow_lt; lia].
    apply abs_round_le_generic; auto with typeclass_instances.
    + apply FLT_exp_valid. reflexivity.
    + apply generic_format_FLT_bpow; [reflexivity|lia].
    + rewrite <- two63_bpow, <- abs_IZR. apply IZR_le. lia.
Qed.

Lemma i64_to_f64_correct z : - two63 <= z <= two63 ->
  is_finite (i64_to_f64 z) = true /\
  B2R (i64_to_f64 z) = round radix2 fexp64 ZnearestE (IZR z) /\
  Bsign (i64_to_f64 z) = (z <? 0).
Proof.
  intros Hz. unfold i64_to_f64.
  pose proof (binary_normalize_correct 53 1024 eq_refl eq_refl mode_NE z 0 false) as H. cbv zeta in H.
  rewrite F2R_int in H.
  change (SpecFloat.fexp 53 1024) with fexp64 in H. change (round_mode mode_NE) with ZnearestE in H.
  rewrite Rlt_bool_true in H.
  - destruct H as [H1 [H2 H3]]. repeat split; try assumption. rewrite H3.
    destruct (Z.ltb_spec z 0).
    + rewrite Rcompare_Lt; [reflexivity|]. now apply (IZR_lt z 0).
    + destruct (Z.eq_dec z 0) as [->|]; [rewrite Rcompare_Eq; reflexivity|].
      rewrite Rcompare_Gt; [reflexivity|]. apply (IZR_lt 0 z). lia.
  - apply Rle_lt_trans with (bpow radix2 63); [|apply bpow_lt; lia].
    apply abs_round_le_generic; auto with typeclass_instances.
    + apply FLT_exp_valid. reflexivity.
    + apply generic_format_FLT_bpow; [reflexivity|lia].
    + rewrite <- two63_bpow, <- abs_IZR. apply IZR_le. lia.
Qed.

Lemma i64_to_f64_nearest z : - two63 <= z < two63 ->
  conv_i64 KFloat64 z = Some (SF64 (bits_of_f64 (i64_to_f64 z))) /\
  is_finite (i64_to_f64 z) = true /\
  B2R (i64_to_f64 z) = round radix2 fexp64 ZnearestE (IZR z).
Proof.
  intros Hz. split; [reflexivity|].
  destruct (i64_to_f64_correct z ltac:(lia)) as [H1 [H2 _]]. now split.
Qed.

Lemma neg_two63_format32 : generic_format radix2 fexp32 (IZR (- two63)).
Proof.
  rewrite opp_IZR, two63_bpow. apply generic_format_opp.
  apply generic_format_FLT_bpow; [reflexivity|lia].
Qed.

Lemma i64_to_f32_lossless z : - two63 <= z < two63 ->
  (generic_format radix2 fexp32 (IZR z) ->
     conv_i64 KFloat32 z = Some (SF32 (bits_of_f32 (i64_to_f32 z))) /\
     is_finite (i64_to_f32 z) = true /\ B2R (i64_to_f32 z) = IZR z) /\
  (~ generic_format radix2 fexp32 (IZR z) -> conv_i64 KFloat32 z = None).
Proof.
  intros Hz. destruct (i64_to_f32_correct z ltac:(lia)) as [Hf [Hv _]].
  rewrite conv_i64_gen; unfold conv_i64_ref. cbn [is_signed is_unsigned]. cbv zeta.
  set (g := i64_to_f32 z) in *. split.
  - intros Hfmt.
    assert (Hg : B2R g = IZR z).
    { rewrite Hv. apply round_generic; auto with typeclass_instances. }
    assert (Ht : to_Z g = z) by (apply to_Z_unique; assumption).
    unfold f32_to_i64_amd64. rewrite Ht.
    rewrite Z.geb_leb. destruct (Z.leb_spec two63 z); [lia|]. destruct (Z.ltb_spec z (- two63)); [lia|].
    cbn [orb]. rewrite Z.eqb_refl. auto.
  - intros Hn. destruct (Z.eqb_spec (f32_to_i64_amd64 g) z) as [He|]; [exfalso|reflexivity].
    destruct (round_int 24 (-149) ltac:(lia) ltac:(lia) z) as [N HN].
    rewrite <- Hv in HN.
    assert (Ht : to_Z g = N) by (apply to_Z_unique; assumption).
    unfold f32_to_i64_amd64 in He. rewrite Ht in He.
    destruct ((N >=? two63) || (N <? - two63)).
    + apply Hn. rewrite <- He. apply neg_two63_format32.
    + apply Hn. rewrite <- He, <- HN. apply generic_format_B2R.
Qed.

(* ---------- tryConvertFieldValue as a whole ---------- *)
Lemma skind_eqb_refl k : skind_eqb k k = true.
Proof. destruct k; reflexivity. Qed.
Lemma skind_eqb_eq a b : skind_eqb a b = true <-> a = b.
Proof. destruct a, b; split; intros H; try reflexivity; try discriminate. Qed.

Lemma same_kind_value_kept t vt sv :
  s_id t <> s_id vt -> s_kind t = s_kind vt -> ids_ok vt = true ->
  try_convert (FScalar t) (DS vt sv) = Ok (Some (BScalar t sv)).
Proof.
  intros Hid Hk Hok. unfold try_convert. cbn [dval_ty fty_id].
  destruct (N.eqb_spec (s_id vt) (s_id t)) as [E|_]; [congruence|].
  unfold ids_ok in Hok. apply andb_prop in Hok as [O1 O2].
  unfold is_f64_val, is_i64_val.
  destruct sv as [b|s|z|b|b]; cbn [opt_bscalar option_map]; rewrite ?Hk, ?skind_eqb_refl; try reflexivity.
  - (* SInt *)
    destruct (N.eqb (s_id vt) 6); [|reflexivity].
    apply skind_eqb_eq in O2. rewrite O2. rewrite conv_i64_gen; unfold conv_i64_ref. cbn [is_signed].
    destruct ((z <? int_min KInt64) || (z >? int_max KInt64)); reflexivity.
  - (* SF64 *)
    destruct (N.eqb (s_id vt) 13); [|reflexivity].
    apply skind_eqb_eq in O1. rewrite O1. reflexivity.
Qed.

Lemma pointer_value_kept id elem vt sv :
  id <> s_id vt -> s_kind elem = s_kind vt ->
  try_convert (FPtr id elem) (DS vt sv) = Ok (Some (BPtr id elem sv)).
Proof.
  intros Hid Hk. unfold try_convert. cbn [dval_ty fty_id].
  destruct (N.eqb_spec (s_id vt) id) as [E|_]; [congruence|].
  unfold is_f64_val, is_i64_val.
  destruct sv as [b|s|z|b|b]; rewrite ?Hk, ?skind_eqb_refl; try reflexivity.
  - destruct (N.eqb (s_id vt) 6); reflexivity.
  - destruct (N.eqb (s_id vt) 13); reflexivity.
Qed.

(* what comes back when nothing is bound: "not convertible" (the value then stays
   among the unknown fields), or ErrInternal for a composite that encoding/json
   rejects; never a panic *)
Lemma declined_is_none_or_fail T v :
  (exists b, try_convert T v = Ok (Some b)) \/ try_convert T v = Ok None \/
  (try_convert T v = Fail "internal" /\ exists id tbl id', v = DJ id tbl /\
     (T = FJson id' \/ exists e, T = FOther id' kind_array e)).
Proof.
  unfold try_convert.
  destruct T as [t|id elem|id|id|id kd [[eid ekd]|]|id]; destruct v as [|vt sv|vid tbl|s|vid vkd conv]; cbn [dval_ty fty_id];
    try (left; eexists; reflexivity); try (right; left; reflexivity).
  all: match goal with |- context [if ?c then _ else _] => destruct c end;
    try (left; eexists; reflexivity); try (right; left; reflexivity).
  all: unfold is_f64_val, is_i64_val.
  all: try (destruct sv as [b|s|z|b|b]).
  all: repeat match goal with
       | |- context [if N.eqb ?a ?b then _ else _] => destruct (N.eqb a b) eqn:?
       end.
  all: cbn [opt_bscalar option_map].
  all: try (left; eexists; reflexivity); try (right; left; reflexivity).
  all: try (destruct (conv_f64 (s_kind t) b)); try (destruct (conv_i64 (s_kind t) z)); cbn [option_map].
  all: try (left; eexists; reflexivity); try (right; left; reflexivity).
  all: repeat match goal with
       | |- context [if skind_eqb ?a ?b then _ else _] => destruct (skind_eqb a b)
       | |- context [if ?a && ?b then _ else _] => destruct (a && b)
       end.
  all: try (left; eexists; reflexivity); try (right; left; reflexivity).
  all: try (destruct (find _ tbl) as [[? [?|]]|]).
  all: try (left; eexists; reflexivity); try (right; left; reflexivity).
  all: try (right; right; split; [reflexivity|]; do 3 eexists; split; [reflexivity|left; reflexivity]).
  all: match goal with H : N.eqb ?k kind_array = true |- _ => apply N.eqb_eq in H; subst k | _ => idtac end.
  all: right; right; split; [reflexivity|]; do 3 eexists; split; [reflexivity|right; eexists; reflexivity].
Qed.

Lemma scalar_never_fails T v : (v = DNil \/ exists t sv, v = DS t sv) ->
  exists o, try_convert T v = Ok o.
Proof.
  intros Hv. destruct (declined_is_none_or_fail T v) as [[b H]|[H|[_ [id [tbl [id' [H _]]]]]]].
  - eauto. - eauto. - destruct Hv as [->|[t [sv ->]]]; discriminate.
Qed.
(* ---------- boolean equalities of Check/C11.v ---------- *)
Lemma sty_eqb_refl t : sty_eqb t t = true.
Proof. unfold sty_eqb. now rewrite N.eqb_refl, skind_eqb_refl. Qed.
Lemma sty_eqb_eq a b : sty_eqb a b = true -> a = b.
Proof.
  destruct a as [i k], b as [i' k']. unfold sty_eqb. cbn. intros H. apply andb_prop in H as [H1 H2].
  apply N.eqb_eq in H1. apply skind_eqb_eq in H2. now subst.
Qed.
Lemma sval_eqb_refl v : sval_eqb v v = true.
Proof. destruct v; cbn; auto using Z.eqb_refl, str_eqb_refl, eqb_reflx. Qed.
Lemma sval_eqb_eq a b : sval_eqb a b = true -> a = b.
Proof.
  destruct a, b; cbn; intros H; try discriminate; f_equal;
    try (now apply Z.eqb_eq); try (now apply str_eqb_eq); try (now apply eqb_prop).
Qed.
Lemma tval_eqb_refl v : tval_eqb v v = true.
Proof. destruct v; cbn; now rewrite ?N.eqb_refl, sty_eqb_refl, sval_eqb_refl. Qed.
Lemma tval_eqb_eq a b : tval_eqb a b = true -> a = b.
Proof.
  destruct a, b; cbn; intros H; try discriminate.
  - apply andb_prop in H as [H1 H2]. apply sty_eqb_eq in H1. apply sval_eqb_eq in H2. now subst.
  - apply andb_prop in H as [H H3]. apply andb_prop in H as [H1 H2].
    apply N.eqb_eq in H1. apply sty_eqb_eq in H2. apply sval_eqb_eq in H3. now subst.
Qed.
Lemma dval_eqb_eq a b : dval_eqb a b = true -> a = b.
Proof.
  destruct a, b; cbn; intros H; try discriminate; try reflexivity.
  apply andb_prop in H as [H1 H2]. apply sty_eqb_eq in H1. apply sval_eqb_eq in H2. now subst.
Qed.
Lemma obs_eqb_eq a b : obs_eqb a b = true -> a = b.
Proof.
  destruct a, b; cbn; intros H; try discriminate; try reflexivity.
  - f_equal. now apply tval_eqb_eq.
  - f_equal. destruct unk, unk0; cbn in H; try discriminate; try reflexivity. f_equal. now apply dval_eqb_eq.
Qed.

(* ---------- magnitudes ---------- *)
Lemma mag_le_spec m e m' e' :
  mag_le m e m' e' = true <-> (IZR m * bpow radix2 e <= IZR m' * bpow radix2 e')%R.
Proof.
  unfold mag_le. cbv zeta. set (E := Z.min e e').
  rewrite <- (scale_int m e E), <- (scale_int m' e' E) by lia.
  pose proof (bpow_gt_0 radix2 E) as Hb.
  rewrite Z.leb_le. split; intros H.
  - apply Rmult_le_compat_r; [lra|]. now apply IZR_le.
  - apply le_IZR. apply Rmult_le_reg_r with (1 := Hb). exact H.
Qed.

Lemma max32_split : IZR max_float32_Z = (IZR max32_m * bpow radix2 max32_e)%R.
Proof. unfold max32_e. rewrite bpow_IZR by lia. rewrite <- mult_IZR. f_equal. Qed.

Lemma Rabs_B2R_finite {p e} s m ex H :
  Rabs (B2R (B754_finite s m ex H : binary_float p e)) = (IZR (Zpos m) * bpow radix2 ex)%R.
Proof.
  unfold B2R. rewrite <- F2R_Zabs, abs_cond_Zopp. reflexivity.
Qed.

(* ---------- a correctly rounded result passes [round_ok] ---------- *)
Section RoundOk.
Variables mw ew nanbits : Z.
Hypothesis Hmw : 0 < mw.
Hypothesis Hew : 0 < ew.
Hypothesis Hnan : decode mw ew nanbits = FNan.
Notation fexp := (FLT_exp (fmt_emin mw ew) (mw + 1)).

Lemma round_ok_sound (g : binary_float (mw + 1) (2 ^ (ew - 1))) s m e :
  is_finite g = true -> 0 <= m -> Bsign g = s ->
  B2R g = round radix2 fexp ZnearestE (if s then - (IZR m * bpow radix2 e) else IZR m * bpow radix2 e)%R ->
  round_ok mw ew s m e (bits_of_bsn mw ew nanbits g) = true.
Proof.
  intros Hf Hm Hs Hv. unfold round_ok. rewrite (decode_bits_of_bsn mw ew nanbits g Hmw Hew Hnan).
  assert (Hp : 1 < mw + 1) by lia.
  assert (Hx : round radix2 fexp ZnearestE (IZR m * bpow radix2 e) = Rabs (B2R g) /\
               (B2R g = if s then - Rabs (B2R g) else Rabs (B2R g))%R).
  { assert (0 <= round radix2 fexp ZnearestE (IZR m * bpow radix2 e))%R.
    { apply round_ge_generic; auto with typeclass_instances.
      - apply FLT_exp_valid. unfold Prec_gt_0. lia.
      - apply generic_format_0.
      - apply Rmult_le_pos; [now apply IZR_le|apply bpow_ge_0]. }
    destruct s.
    - rewrite round_NE_opp in Hv. rewrite Hv, Rabs_Ropp, Rabs_pos_eq by assumption. split; [reflexivity|lra].
    - rewrite Hv, Rabs_pos_eq by assumption. split; reflexivity. }
  destruct Hx as [Hx _].
  destruct g as [s'|s'| |s' mm ee Hb]; try discriminate; unfold fdec_of.
  - cbn [Bsign] in Hs. rewrite Hs, eqb_reflx. cbn [andb].
    apply (nearest_mag_sound_zero (mw + 1) (fmt_emin mw ew) Hp); [exact Hm|].
    rewrite Hx. cbn [B2R]. apply Rabs_R0.
  - cbn [Bsign] in Hs. rewrite Hs, eqb_reflx. cbn [andb].
    destruct (bounded_facts (mw + 1) (2 ^ (ew - 1)) mm ee ltac:(lia) Hb) as [B1 [B2 _]].
    apply (nearest_mag_sound_pos (mw + 1) (fmt_emin mw ew) Hp); try assumption.
    + exact (canonical_bounded (mw + 1) (2 ^ (ew - 1)) false mm ee Hb).
    + rewrite Hx, Rabs_B2R_finite. reflexivity.
Qed.
End RoundOk.

Lemma round_ok_sound32 (g : b32) s m e :
  is_finite g = true -> 0 <= m -> Bsign g = s ->
  B2R g = round radix2 fexp32 ZnearestE (if s then - (IZR m * bpow radix2 e) else IZR m * bpow radix2 e)%R ->
  round_ok 23 8 s m e (bits_of_f32 g) = true.
Proof. apply (round_ok_sound 23 8 nan32_bits); reflexivity. Qed.
Lemma round_ok_sound64 (g : b64) s m e :
  is_finite g = true -> 0 <= m -> Bsign g = s ->
  B2R g = round radix2 fexp64 ZnearestE (if s then - (IZR m * bpow radix2 e) else IZR m * bpow radix2 e)%R ->
  round_ok 52 11 s m e (bits_of_f64 g) = true.
Proof. apply (round_ok_sound 52 11 nan64_bits); reflexivity. Qed.
(* ---------- the oracle's per-case test ---------- *)
Definition agrees (x : expect) (src : dval) (o : obs) : bool :=
  match x, o with
  | XDecline, ODeclined (Some u) => dval_eqb u (canon_dval src)
  | XBind v, OBound o => tval_eqb o (canon_tval v)
  | XRound32 t s m e, OBound (TV t' (SF32 r)) => sty_eqb t t' && round_ok 23 8 s m e r
  | XRound64 t s m e, OBound (TV t' (SF64 r)) => sty_eqb t t' && round_ok 52 11 s m e r
  | _, _ => false
  end.
Lemma check_agrees c : check c = agrees (spec (c_target c) (c_src c)) (c_src c) (c_obs c).
Proof. reflexivity. Qed.

(* what the model turns an optional converted scalar into *)
Definition obs_of (t : sty) (src : dval) (o : option sval) : obs :=
  match o with
  | Some v => OBound (canon_tval (TV t v))
  | None => ODeclined (Some (canon_dval src))
  end.

Lemma agrees_decline t sv : agrees XDecline (DS t sv) (obs_of t (DS t sv) None) = true.
Proof. cbn. now rewrite sty_eqb_refl, sval_eqb_refl. Qed.
Lemma agrees_decline' t t' sv : agrees XDecline (DS t sv) (obs_of t' (DS t sv) None) = true.
Proof. cbn. now rewrite sty_eqb_refl, sval_eqb_refl. Qed.
Lemma agrees_bind t src v : agrees (XBind (TV t v)) src (obs_of t src (Some v)) = true.
Proof. cbn [agrees obs_of]. apply tval_eqb_refl. Qed.

Lemma fin_int_spec {p e} s m ex (H : SpecFloat.bounded p e m ex = true) :
  fin_int s (Zpos m) ex =
  if is_integral (B754_finite s m ex H) then Some (to_Z (B754_finite s m ex H)) else None.
Proof.
  unfold fin_int, is_integral, to_Z, sgn.
  destruct (0 <=? ex); cbn [orb]; [reflexivity|].
  destruct (Z.pos m mod 2 ^ (- ex) =? 0); reflexivity.
Qed.

(* a finite non-zero float64 value has one bit pattern *)
Lemma f64_bits_inj b b' :
  0 <= b < two64 -> 0 <= b' < two64 ->
  is_finite (f64_of_bits b) = true -> is_finite (f64_of_bits b') = true ->
  B2R (f64_of_bits b) = B2R (f64_of_bits b') -> B2R (f64_of_bits b) <> 0%R -> b = b'.
Proof.
  intros Hb Hb' Hf Hf' Hv Hnz. unfold f64_of_bits in *.
  set (x := Bits.b64_of_bits b) in *. set (y := Bits.b64_of_bits b') in *.
  assert (Sx : Binary.is_finite_strict 53 1024 x = true).
  { rewrite <- Binary.is_finite_strict_B2BSN. destruct (Binary.B2BSN 53 1024 x); try discriminate; [|reflexivity].
    exfalso. apply Hnz. reflexivity. }
  assert (Sy : Binary.is_finite_strict 53 1024 y = true).
  { rewrite <- Binary.is_finite_strict_B2BSN. rewrite Hv in Hnz.
    destruct (Binary.B2BSN 53 1024 y); try discriminate; [|reflexivity].
    exfalso. apply Hnz. reflexivity. }
  rewrite !Binary.B2R_B2BSN in Hv.
  pose proof (Binary.B2R_inj 53 1024 x y Sx Sy Hv) as E.
  rewrite <- (Bits.bits_of_binary_float_of_bits 52 11 eq_refl eq_refl eq_refl b) by exact Hb.
  rewrite <- (Bits.bits_of_binary_float_of_bits 52 11 eq_refl eq_refl eq_refl b') by exact Hb'.
  fold (Bits.b64_of_bits b). fold (Bits.b64_of_bits b'). fold x. fold y. now rewrite E.
Qed.

Lemma k6_bits k b : is_int_kind k = true -> 0 <= b < two64 ->
  is_finite (f64_of_bits b) = true -> B2R (f64_of_bits b) = IZR (fmax k) -> int_max k < fmax k ->
  match k with KInt | KInt64 => b =? bits_two63 | KUint | KUint64 => b =? bits_two64 | _ => false end = true.
Proof.
  intros Hk Hb Hf Hv Hlt.
  destruct k; try discriminate; cbn [fmax int_max] in Hlt, Hv; try (exfalso; clear -Hlt; lia).
  all: destruct f64_int64_boundary as [[F1 [V1 _]] [F2 [V2 _]]].
  all: assert (N1 : IZR two63 <> 0%R) by (apply IZR_neq; discriminate).
  all: assert (N2 : IZR two64 <> 0%R) by (apply IZR_neq; discriminate).
  all: apply Z.eqb_eq; apply f64_bits_inj; try assumption;
       try (clear; unfold bits_two63, bits_two64, two64; lia); try congruence.
Qed.

Lemma in_range_zero k : is_int_kind k = true -> in_range k 0 = true.
Proof. destruct k; try discriminate; reflexivity. Qed.

Lemma f64_int_case t src b :
  is_int_kind (s_kind t) = true -> 0 <= b < two64 ->
  match s_kind t with KInt | KInt64 => b =? bits_two63 | KUint | KUint64 => b =? bits_two64 | _ => false end = false ->
  agrees XDecline src (obs_of t src None) = true ->
  agrees (spec_f64 t b) src (obs_of t src (conv_f64 (s_kind t) b)) = true.
Proof.
  intros Hk Hb Hk6 Hdec.
  unfold spec_f64. rewrite Hk. rewrite (conv_f64_int_spec (s_kind t) b Hk). cbv zeta.
  rewrite dec64_spec. set (k := s_kind t) in *.
  pose proof (fmax_slack k Hk) as Hfs.
  assert (Hsl : 0 <= slack k <= 1) by (destruct k; cbn; lia).
  destruct (f64_of_bits b) as [s|s| |s m ex He] eqn:Ef; unfold fdec_of.
  - (* zero *)
    unfold fin_int. cbn [Z.leb Z.compare]. rewrite Zmod_0_l, Zdiv_0_l. cbn [Z.eqb].
    replace (sgn s 0) with 0 by (destruct s; reflexivity).
    rewrite in_range_zero by exact Hk. cbn [is_integral to_Z andb].
    assert (Hr : int_min k <= 0 <= int_max k).
    { pose proof (in_range_zero k Hk) as H. unfold in_range in H. apply andb_prop in H as [H1 H2].
      apply Z.leb_le in H1, H2. lia. }
    destruct (Z.leb_spec (int_min k) 0); [|lia]. destruct (Z.leb_spec 0 (fmax k)); [|lia]. cbn [andb].
    rewrite amd64_in_range by assumption. apply agrees_bind.
  - exact Hdec.
  - exact Hdec.
  - rewrite fin_int_spec with (H := He). set (f := B754_finite s m ex He) in *.
    destruct (is_integral f) eqn:Hi; [|exact Hdec]. cbn [andb].
    unfold in_range.
    destruct (Z.leb_spec (int_min k) (to_Z f)); [|exact Hdec]. cbn [andb].
    destruct (Z.leb_spec (to_Z f) (int_max k)).
    + destruct (Z.leb_spec (to_Z f) (fmax k)); [|lia].
      rewrite amd64_in_range by (try assumption; lia). apply agrees_bind.
    + destruct (Z.leb_spec (to_Z f) (fmax k)); [|exact Hdec].
      exfalso. assert (Ez : to_Z f = fmax k) by lia.
      pose proof (k6_bits k b Hk Hb) as K. rewrite Ef in K. fold f in K.
      rewrite K in Hk6; [discriminate|reflexivity| |lia].
      rewrite <- Ez. now apply to_Z_correct.
Qed.
Lemma canon_f32_finite (g : b32) : is_finite g = true -> canon_sval (SF32 (bits_of_f32 g)) = SF32 (bits_of_f32 g).
Proof.
  intros H. unfold canon_sval, is_nan_bits. fold dec32. rewrite dec32_bits_of_f32.
  destruct g; try discriminate; reflexivity.
Qed.
Lemma canon_f64_finite (g : b64) : is_finite g = true -> canon_sval (SF64 (bits_of_f64 g)) = SF64 (bits_of_f64 g).
Proof.
  intros H. unfold canon_sval, is_nan_bits. fold dec64. rewrite dec64_bits_of_f64.
  destruct g; try discriminate; reflexivity.
Qed.

Lemma agrees_round32 t src s m e (g : b32) :
  is_finite g = true -> 0 <= m -> Bsign g = s ->
  B2R g = round radix2 fexp32 ZnearestE (if s then - (IZR m * bpow radix2 e) else IZR m * bpow radix2 e)%R ->
  agrees (XRound32 t s m e) src (obs_of t src (Some (SF32 (bits_of_f32 g)))) = true.
Proof.
  intros Hf Hm Hs Hv. cbn [obs_of canon_tval]. rewrite canon_f32_finite by exact Hf.
  cbn [agrees]. rewrite sty_eqb_refl. cbn [andb]. now apply round_ok_sound32.
Qed.
Lemma agrees_round64 t src s m e (g : b64) :
  is_finite g = true -> 0 <= m -> Bsign g = s ->
  B2R g = round radix2 fexp64 ZnearestE (if s then - (IZR m * bpow radix2 e) else IZR m * bpow radix2 e)%R ->
  agrees (XRound64 t s m e) src (obs_of t src (Some (SF64 (bits_of_f64 g)))) = true.
Proof.
  intros Hf Hm Hs Hv. cbn [obs_of canon_tval]. rewrite canon_f64_finite by exact Hf.
  cbn [agrees]. rewrite sty_eqb_refl. cbn [andb]. now apply round_ok_sound64.
Qed.

Lemma B2R_finite_signed {p e} s m ex H :
  B2R (B754_finite s m ex H : binary_float p e) =
  (if s then - (IZR (Zpos m) * bpow radix2 ex) else IZR (Zpos m) * bpow radix2 ex)%R.
Proof.
  unfold B2R. destruct s; cbn [SpecFloat.cond_Zopp].
  - change (Z.neg m) with (- Z.pos m). rewrite F2R_Zopp. reflexivity.
  - reflexivity.
Qed.

Lemma f64_f32_case t src b :
  s_kind t = KFloat32 ->
  agrees XDecline src (obs_of t src None) = true ->
  agrees (spec_f64 t b) src (obs_of t src (conv_f64 (s_kind t) b)) = true.
Proof.
  intros Hk Hdec. unfold spec_f64. rewrite Hk. cbn [is_int_kind is_signed is_unsigned orb].
  rewrite conv_f64_f32_spec. cbv zeta. rewrite dec64_spec.
  destruct (f64_of_bits b) as [s|s| |s m ex He] eqn:Ef; unfold fdec_of.
  - (* zero *)
    assert (Hle : (Rabs (B2R (B754_zero s : b64)) <= IZR max_float32_Z)%R).
    { cbn [B2R]. rewrite Rabs_R0. apply (IZR_le 0). discriminate. }
    assert (Hm : mag_le 0 (-1074) max32_m max32_e = true).
    { apply mag_le_spec. rewrite Rmult_0_l, <- max32_split. apply (IZR_le 0). discriminate. }
    rewrite Hm. rewrite Rlt_bool_false by exact Hle.
    destruct (f64_to_f32_correct (B754_zero s) eq_refl Hle) as [G1 [G2 G3]].
    apply agrees_round32; try assumption; [lia|].
    rewrite G2. cbn [B2R]. f_equal. destruct s; ring.
  - exact Hdec.
  - apply agrees_bind.
  - set (f := B754_finite s m ex He : b64) in *.
    pose proof (Rabs_B2R_finite s m ex He) as Ha. fold f in Ha.
    destruct (Rlt_bool_spec (IZR max_float32_Z) (Rabs (B2R f))) as [Hgt|Hle].
    + assert (Hm : mag_le (Z.pos m) ex max32_m max32_e = false).
      { destruct (mag_le (Z.pos m) ex max32_m max32_e) eqn:E; [|reflexivity].
        apply mag_le_spec in E. rewrite <- max32_split, <- Ha in E. lra. }
      rewrite Hm. exact Hdec.
    + assert (Hm : mag_le (Z.pos m) ex max32_m max32_e = true).
      { apply mag_le_spec. rewrite <- max32_split, <- Ha. exact Hle. }
      rewrite Hm.
      destruct (f64_to_f32_correct f eq_refl Hle) as [G1 [G2 G3]].
      apply agrees_round32; try assumption; [lia|].
      rewrite G2. f_equal. apply B2R_finite_signed.
Qed.

Lemma f64_case t src b :
  0 <= b < two64 ->
  match s_kind t with KInt | KInt64 => b =? bits_two63 | KUint | KUint64 => b =? bits_two64 | _ => false end = false ->
  agrees XDecline src (obs_of t src None) = true ->
  agrees (spec_f64 t b) src (obs_of t src (conv_f64 (s_kind t) b)) = true.
Proof.
  intros Hb Hk6 Hdec.
  destruct (is_int_kind (s_kind t)) eqn:Hi; [now apply f64_int_case|].
  destruct (s_kind t) eqn:Hk; try discriminate.
  - unfold spec_f64. rewrite Hk. exact Hdec.
  - unfold spec_f64. rewrite Hk. exact Hdec.
  - rewrite <- Hk. now apply f64_f32_case.
  - unfold spec_f64. rewrite Hk. rewrite conv_f64_gen. cbn [is_int_kind is_signed is_unsigned orb conv_f64_ref]. apply agrees_bind.
Qed.

Lemma i64_case t src z :
  - two63 <= z < two63 ->
  agrees XDecline src (obs_of t src None) = true ->
  agrees (spec_i64 t z) src (obs_of t src (conv_i64 (s_kind t) z)) = true.
Proof.
  intros Hz Hdec. unfold spec_i64.
  destruct (is_int_kind (s_kind t)) eqn:Hi.
  - destruct (i64_to_int_shape (s_kind t) z Hi) as [E|E]; rewrite E.
    + destruct (in_range (s_kind t) z) eqn:Hr; [|exact Hdec]. exfalso.
      unfold in_range in Hr. apply andb_prop in Hr as [H1 H2]. apply Z.leb_le in H1, H2.
      assert (H : conv_i64 (s_kind t) z = Some (SInt z)) by (apply i64_to_int_exact_complete; auto).
      congruence.
    + apply (i64_to_int_exact_complete _ z z Hi) in E as [_ E].
      unfold in_range. destruct (Z.leb_spec (int_min (s_kind t)) z); [|lia].
      destruct (Z.leb_spec z (int_max (s_kind t))); [|lia]. apply agrees_bind.
  - destruct (s_kind t) eqn:Hk; try discriminate; try exact Hdec.
    + (* float32 *)
      destruct (i64_to_f32_lossless z Hz) as [L1 L2].
      destruct (i64_to_f32_correct z ltac:(lia)) as [G1 [G2 G3]].
      pose proof (fits_format 24 (-149) ltac:(lia) ltac:(lia) (Z.abs z) (Z.abs_nonneg z)) as Hfit.
      rewrite abs_IZR in Hfit.
      destruct (fits 24 (Z.abs z)) eqn:Ef.
      * assert (Hfmt : generic_format radix2 fexp32 (IZR z)).
        { apply generic_format_abs_inv. now apply Hfit. }
        destruct (L1 Hfmt) as [E _]. rewrite E.
        apply agrees_round32; try assumption; [lia|].
        rewrite G2. f_equal. change (bpow radix2 0) with 1%R. rewrite Rmult_1_r.
        destruct (Z.ltb_spec z 0).
        -- rewrite Z.abs_neq by lia. rewrite opp_IZR. ring.
        -- now rewrite Z.abs_eq by lia.
      * rewrite L2; [exact Hdec|]. intros Hfmt.
        apply generic_format_abs in Hfmt. apply Hfit in Hfmt. discriminate.
    + (* float64 *)
      destruct (i64_to_f64_correct z ltac:(lia)) as [G1 [G2 G3]].
      rewrite conv_i64_gen; unfold conv_i64_ref. cbn [is_signed is_unsigned].
      apply agrees_round64; try assumption; [lia|].
      rewrite G2. f_equal. change (bpow radix2 0) with 1%R. rewrite Rmult_1_r.
      destruct (Z.ltb_spec z 0).
      * rewrite Z.abs_neq by lia. rewrite opp_IZR. ring.
      * now rewrite Z.abs_eq by lia.
Qed.
(* ---------- the model on well-formed cases ---------- *)
Definition mk (T : fty) (v : dval) (o : obs) : case := {| c_target := T; c_src := v; c_obs := o |}.

Lemma model_same_id o t vt sv : s_id t = s_id vt ->
  model (mk (FScalar t) (DS vt sv) o) = OBound (canon_tval (TV vt sv)).
Proof.
  intros E. unfold model, mk. cbn [c_target c_src]. unfold try_convert. cbn [dval_ty fty_id].
  rewrite E, N.eqb_refl. reflexivity.
Qed.

Lemma model_f64 o t vt b : s_id t <> s_id vt -> s_id vt = 13%N -> s_kind vt = KFloat64 ->
  model (mk (FScalar t) (DS vt (SF64 b)) o) = obs_of t (DS vt (SF64 b)) (conv_f64 (s_kind t) b).
Proof.
  intros Hne H13 Hk. unfold model, mk. cbn [c_target c_src]. unfold try_convert. cbn [dval_ty fty_id].
  destruct (N.eqb_spec (s_id vt) (s_id t)); [congruence|].
  unfold is_f64_val. rewrite H13. cbn [N.eqb Pos.eqb]. unfold opt_bscalar.
  destruct (conv_f64 (s_kind t) b) eqn:Ec; cbn [option_map]; [reflexivity|].
  rewrite Hk. destruct (s_kind t) eqn:Ekt; try reflexivity. discriminate.
Qed.

Lemma model_i64 o t vt z : s_id t <> s_id vt -> s_id vt = 6%N -> s_kind vt = KInt64 ->
  in_range KInt64 z = true ->
  model (mk (FScalar t) (DS vt (SInt z)) o) = obs_of t (DS vt (SInt z)) (conv_i64 (s_kind t) z).
Proof.
  intros Hne H6 Hk Hr. unfold model, mk. cbn [c_target c_src]. unfold try_convert. cbn [dval_ty fty_id].
  destruct (N.eqb_spec (s_id vt) (s_id t)); [congruence|].
  unfold is_f64_val, is_i64_val. rewrite H6. cbn [N.eqb Pos.eqb]. unfold opt_bscalar.
  destruct (conv_i64 (s_kind t) z) eqn:Ec; cbn [option_map]; [reflexivity|].
  rewrite Hk. destruct (s_kind t) eqn:Ekt; try reflexivity.
  exfalso. unfold in_range in Hr. apply andb_prop in Hr as [H1 H2]. apply Z.leb_le in H1, H2.
  assert (conv_i64 KInt64 z = Some (SInt z)) by (apply i64_to_int_exact_complete; auto).
  congruence.
Qed.

Lemma model_other o t vt sv : s_id t <> s_id vt ->
  is_f64_val (DS vt sv) = None -> is_i64_val (DS vt sv) = None ->
  model (mk (FScalar t) (DS vt sv) o) =
  if skind_eqb (s_kind t) (s_kind vt) then OBound (canon_tval (TV t sv)) else ODeclined (Some (canon_dval (DS vt sv))).
Proof.
  intros Hne H1 H2. unfold model, mk. cbn [c_target c_src]. unfold try_convert. cbn [dval_ty fty_id].
  destruct (N.eqb_spec (s_id vt) (s_id t)); [congruence|].
  rewrite H1, H2. destruct (skind_eqb (s_kind t) (s_kind vt)); reflexivity.
Qed.

Lemma model_ptr o id e vt sv : id <> s_id vt ->
  model (mk (FPtr id e) (DS vt sv) o) =
  if skind_eqb (s_kind e) (s_kind vt) then OBound (canon_tval (TP id e sv)) else ODeclined (Some (canon_dval (DS vt sv))).
Proof.
  intros Hne. destruct (skind_eqb (s_kind e) (s_kind vt)) eqn:Ek.
  - apply skind_eqb_eq in Ek. unfold model, mk. cbn [c_target c_src].
    rewrite pointer_value_kept by assumption. reflexivity.
  - unfold model, mk. cbn [c_target c_src]. unfold try_convert. cbn [dval_ty fty_id].
    destruct (N.eqb_spec (s_id vt) id); [congruence|].
    unfold is_f64_val, is_i64_val.
    destruct sv; try (rewrite Ek; reflexivity).
    + destruct (N.eqb (s_id vt) 6); rewrite Ek; reflexivity.
    + destruct (N.eqb (s_id vt) 13); rewrite Ek; reflexivity.
Qed.

Lemma dval_eqb_canon_refl t sv : dval_eqb (canon_dval (DS t sv)) (canon_dval (DS t sv)) = true.
Proof. cbn. now rewrite sty_eqb_refl, sval_eqb_refl. Qed.

Lemma corr_implies_ok c : in_domain c = true -> k6_boundary c = false -> corr c = true -> ok c = true.
Proof.
  intros Hd Hk6 Hc. unfold ok. rewrite Hd. cbn [andb]. rewrite check_agrees.
  unfold corr in Hc. apply obs_eqb_eq in Hc. rewrite Hc. clear Hc.
  destruct c as [T v o]. change {| c_target := T; c_src := v; c_obs := o |} with (mk T v o) in *.
  cbn [c_target c_src mk].
  unfold in_domain in Hd. cbn [c_target c_src mk] in Hd. apply andb_prop in Hd as [HT Hv].
  destruct v as [|vt sv| | |]; try discriminate.
  - (* nil *)
    destruct T; try discriminate; reflexivity.
  - apply andb_prop in Hv as [Hv Hrel]. apply andb_prop in Hv as [Hvt Hsv].
    destruct T as [t|id e|id|id|id kd ?|id]; try discriminate.
    + (* scalar target *)
      cbn [spec].
      destruct (N.eqb_spec (s_id t) (s_id vt)) as [E|Hne].
      { rewrite (model_same_id o t vt sv E). cbn [agrees]. apply tval_eqb_refl. }
      assert (Hdec : agrees XDecline (DS vt sv) (obs_of t (DS vt sv) None) = true) by apply agrees_decline'.
      unfold ids_ok in Hvt. apply andb_prop in Hvt as [O13 O6].
      destruct sv as [bb|s|z|b|b].
      * rewrite model_other; [|exact Hne|reflexivity|reflexivity].
        destruct (skind_eqb (s_kind t) (s_kind vt)); [apply tval_eqb_refl|apply dval_eqb_canon_refl].
      * rewrite model_other; [|exact Hne|reflexivity|reflexivity].
        destruct (skind_eqb (s_kind t) (s_kind vt)); [apply tval_eqb_refl|apply dval_eqb_canon_refl].
      * (* SInt *)
        destruct (N.eqb_spec (s_id vt) 6) as [E6|N6].
        -- apply skind_eqb_eq in O6. rewrite O6 in Hsv.
           assert (Hr : in_range KInt64 z = true).
           { cbn [sval_ok] in Hsv. apply andb_prop in Hsv as [_ Hr]. exact Hr. }
           rewrite model_i64 by assumption. apply i64_case; [|exact Hdec].
           unfold in_range in Hr. apply andb_prop in Hr as [H1 H2]. apply Z.leb_le in H1, H2.
           cbn [int_min int_max] in *. lia.
        -- rewrite model_other; [|exact Hne|reflexivity|].
           2:{ unfold is_i64_val. destruct (N.eqb_spec (s_id vt) 6); [contradiction|reflexivity]. }
           destruct (skind_eqb (s_kind t) (s_kind vt)); [apply tval_eqb_refl|apply dval_eqb_canon_refl].
      * rewrite model_other; [|exact Hne|reflexivity|reflexivity].
        destruct (skind_eqb (s_kind t) (s_kind vt)); [apply tval_eqb_refl|apply dval_eqb_canon_refl].
      * (* SF64 *)
        destruct (N.eqb_spec (s_id vt) 13) as [E13|N13].
        -- apply skind_eqb_eq in O13.
           rewrite model_f64 by assumption. apply f64_case; [| |exact Hdec].
           ++ rewrite O13 in Hsv. cbn [sval_ok] in Hsv. apply andb_prop in Hsv as [H1 H2].
              apply Z.leb_le in H1. apply Z.ltb_lt in H2. lia.
           ++ unfold k6_boundary in Hk6. cbn [c_target c_src mk] in Hk6.
              rewrite E13 in Hk6. cbn [N.eqb Pos.eqb andb] in Hk6.
              destruct (N.eqb_spec (s_id t) 13) as [E|_]; [congruence|]. exact Hk6.
        -- rewrite model_other; [|exact Hne| |reflexivity].
           2:{ unfold is_f64_val. destruct (N.eqb_spec (s_id vt) 13); [contradiction|reflexivity]. }
           destruct (skind_eqb (s_kind t) (s_kind vt)); [apply tval_eqb_refl|apply dval_eqb_canon_refl].
    + (* pointer target *)
      apply andb_prop in Hrel as [Hne _]. apply negb_true_iff in Hne. apply N.eqb_neq in Hne.
      rewrite model_ptr by exact Hne. cbn [spec].
      destruct (N.eqb_spec id (s_id vt)); [contradiction|].
      destruct (skind_eqb (s_kind e) (s_kind vt)); [apply tval_eqb_refl|apply dval_eqb_canon_refl].
    + (* interface target *)
      unfold model. cbn [c_target c_src mk try_convert view spec agrees]. apply tval_eqb_refl.
Qed.
