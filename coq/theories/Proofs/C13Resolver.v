(* C13/C14 link: the kind resolution of the unmarshaler model (Model/Unmarshal.resolve_kind_u, what
   Unmarshaler.resolveKind does with its resolver) IS the resolver package's ResolveKind /
   ResolveKindOrDefault as interpreted from the source (Model/ResolverGen, Gen/ResolverSrc.v). *)
From Coq Require Import List Bool.
From Errdef Require Import Base.Str Base.Outcome Model.Core Model.Value Model.Convert Model.Unmarshal
  Model.Resolver Model.ResolverGen Proofs.ResolverProofs Proofs.C14Proofs.
Import ListNotations.

(* what package resolver sees of a registered definition: its identity and its kind *)
Definition rdef_of (d : udef) : rdef :=
  {| rd_id := d_addr (ud_def d); rd_kind := d_kind (ud_def d); rd_fields := [] |}.

Lemma find_map_rdef (defs : list udef) k :
  find (fun d => str_eqb (rd_kind d) k) (map rdef_of defs) = option_map rdef_of (resolve_kind_def defs k).
Proof.
  unfold resolve_kind_def. induction defs as [|d r IH]; [reflexivity|].
  cbn [map find]. cbn [rdef_of rd_kind]. destruct (str_eqb (d_kind (ud_def d)) k); [reflexivity|exact IH].
Qed.

(* ResolveKind of the resolver built from the registered definitions = the unmarshaler model's lookup *)
Theorem resolver_kind_is_unmarshaler_lookup defs k : wf_defs (map rdef_of defs) ->
  g_resolve_kind (g_new_resolver (map rdef_of defs)) k = option_map rdef_of (resolve_kind_def defs k).
Proof.
  intros Hwf. rewrite (g_new_resolver_ref _ Hwf), g_resolve_kind_ref, (resolve_kind_first _ _ Hwf).
  apply find_map_rdef.
Qed.

(* resolveKind of the unmarshaler, in terms of the resolver package:
   - no default resolver, or strict mode: ResolveKind, a miss is ErrUnknownKind carrying the kind;
   - a DefaultResolver in lenient mode: ResolveKindOrDefault *)
Theorem resolve_kind_u_is_resolver c k : wf_defs (map rdef_of (u_defs c)) ->
  let r := g_new_resolver (map rdef_of (u_defs c)) in
  match u_default c, u_strict c with
  | Some dflt, false =>
      exists d, resolve_kind_u c k = UOk d /\
                rdef_of d = g_resolve_kind_or_default r (rdef_of dflt) k
  | _, _ =>
      match g_resolve_kind r k with
      | Some rd => exists d, resolve_kind_u c k = UOk d /\ rdef_of d = rd
      | None => resolve_kind_u c k = UFail [{| fl_class := cls_kind; fl_kind := k; fl_field := "" |}]
      end
  end.
Proof.
  intros Hwf r. subst r. unfold resolve_kind_u.
  destruct (u_default c) as [dflt|]; [destruct (u_strict c)|].
  - rewrite (resolver_kind_is_unmarshaler_lookup _ _ Hwf).
    destruct (resolve_kind_def (u_defs c) k) as [d|]; cbn [option_map]; [exists d; split; reflexivity|reflexivity].
  - rewrite g_resolve_kind_or_default_ref. unfold resolve_kind_or_default.
    rewrite <- g_resolve_kind_ref, (resolver_kind_is_unmarshaler_lookup _ _ Hwf).
    destruct (resolve_kind_def (u_defs c) k) as [d|]; cbn [option_map or_default]; eexists; split; reflexivity.
  - destruct (u_strict c); rewrite (resolver_kind_is_unmarshaler_lookup _ _ Hwf);
      (destruct (resolve_kind_def (u_defs c) k) as [d|]; cbn [option_map]; [exists d; split; reflexivity|reflexivity]).
Qed.
