From Coq Require Import Sorting.Permutation.
From Errdef Require Import Base.Str Base.StrOrd Base.Outcome Model.Core Model.Convert Model.Unmarshal
  Check.UM Proofs.C10Proofs Proofs.SortFields Proofs.C13Proofs Proofs.C12Proofs.

Definition entry := (anykey * rvalue)%type.
Definition e_name (x : entry) : string := ak_name (fst x).

(* ---------- All(): sorted by name, independent of map iteration order ---------- *)
Lemma leb_asym a b : a <> b -> String.leb a b = true -> String.leb b a = false.
Proof. intros N A. destruct (String.leb b a) eqn:B; [|reflexivity]. exfalso. apply N. now apply String.leb_antisym. Qed.

Lemma ins_by_name_comm x y l : e_name x <> e_name y ->
  ins_by_name x (ins_by_name y l) = ins_by_name y (ins_by_name x l).
Proof.
  intros Hne. unfold e_name in Hne.
  assert (Hne' : ak_name (fst y) <> ak_name (fst x)) by congruence.
  induction l as [|z r IH]; cbn.
  - destruct (String.leb (ak_name (fst x)) (ak_name (fst y))) eqn:A.
    + now rewrite (leb_asym _ _ Hne A).
    + now rewrite (leb_false_flip _ _ A).
  - destruct (String.leb (ak_name (fst y)) (ak_name (fst z))) eqn:YZ;
    destruct (String.leb (ak_name (fst x)) (ak_name (fst z))) eqn:XZ; cbn; rewrite ?YZ, ?XZ.
    + destruct (String.leb (ak_name (fst x)) (ak_name (fst y))) eqn:A.
      * now rewrite (leb_asym _ _ Hne A).
      * now rewrite (leb_false_flip _ _ A).
    + destruct (String.leb (ak_name (fst x)) (ak_name (fst y))) eqn:A.
      * rewrite (leb_trans _ _ _ A YZ) in XZ. discriminate.
      * reflexivity.
    + destruct (String.leb (ak_name (fst y)) (ak_name (fst x))) eqn:B.
      * rewrite (leb_trans _ _ _ B XZ) in YZ. discriminate.
      * reflexivity.
    + now rewrite IH.
Qed.

Definition sort_entries (l : list entry) : list entry := fold_right ins_by_name [] l.

Theorem sort_perm_invariant l l' :
  Permutation l l' -> NoDup (map e_name l) -> sort_entries l = sort_entries l'.
Proof.
  unfold sort_entries. intros P. induction P as [|x l l' P IH|x y l|l l' l'' P1 IH1 P2 IH2]; intros N; cbn.
  - reflexivity.
  - inversion N; subst. now rewrite IH.
  - apply ins_by_name_comm. inversion N; subst. cbn in H1. intros E. apply H1. left. now symmetry.
  - rewrite IH1 by assumption. apply IH2. eapply Permutation_NoDup; [|exact N]. now apply Permutation_map.
Qed.

Lemma ins_by_name_perm x l : Permutation (ins_by_name x l) (x :: l).
Proof.
  induction l as [|y r IH]; cbn; [apply Permutation_refl|].
  destruct (String.leb _ _); [apply Permutation_refl|].
  eapply Permutation_trans; [apply perm_skip; exact IH|apply perm_swap].
Qed.

Lemma sort_entries_perm l : Permutation (sort_entries l) l.
Proof.
  induction l as [|x r IH]; cbn; [constructor|].
  eapply Permutation_trans; [apply ins_by_name_perm|now apply perm_skip].
Qed.

Lemma nodup_app_r {A} (l1 l2 : list A) : NoDup (l1 ++ l2) -> NoDup l2.
Proof. induction l1 as [|x r IH]; cbn; [auto|]. intros H. inversion H; subst. now apply IH. Qed.

Lemma nodup_app_l {A} (l1 l2 : list A) : NoDup (l1 ++ l2) -> NoDup l1.
Proof.
  induction l1 as [|x r IH]; cbn; [constructor|]. intros H. inversion H; subst. constructor; [|now apply IH].
  intros Hin. apply H2. apply in_or_app. now left.
Qed.

(* ---------- the entries of a restored error ---------- *)
Definition entries (e : rerr) : list entry :=
  (map (fun kv => (AKTyped (fst kv), RVBound (snd kv))) (r_typed e) ++
   map (fun nv => (AKName (fst nv), RVRaw (snd nv))) (r_unknown e))%list.

Lemma rf_all_is_sorted_entries e : rf_all e = sort_entries (entries e).
Proof. reflexivity. Qed.

(* well-formed restored fields: names pairwise distinct across typed and unknown, key ids distinct *)
Definition rwf (e : rerr) : Prop :=
  NoDup (map e_name (entries e)) /\ NoDup (map (fun kv => k_id (uk_key (fst kv))) (r_typed e)).

Theorem restored_coherent e : rwf e ->
  rf_len e = List.length (rf_all e) /\
  (rf_is_zero e = true <-> rf_len e = 0) /\
  (forall a v, In (a, v) (rf_all e) -> rf_get e a = Some v /\ In a (rf_find_keys e (ak_name a))) /\
  (forall n a, In a (rf_find_keys e n) -> ak_name a = n /\ exists v, In (a, v) (rf_all e)) /\
  (forall n, ~ In n (map e_name (entries e)) -> rf_get e (AKName n) = None /\ rf_find_keys e n = []).
Proof.
  intros [Hn Hk]. pose proof (sort_entries_perm (entries e)) as P. rewrite rf_all_is_sorted_entries.
  repeat split.
  - transitivity (List.length (entries e)); [|symmetry; now apply Permutation_length].
    unfold rf_len, entries. now rewrite app_length, !map_length.
  - unfold rf_is_zero. intros H. now apply Nat.eqb_eq in H.
  - unfold rf_is_zero. intros H. now apply Nat.eqb_eq.
  - apply (Permutation_in _ P) in H. unfold entries in H. apply in_app_or in H as [H|H].
    + apply in_map_iff in H as [[k b] [E Hin]]. inversion E; subst. cbn.
      assert (F : find (fun kv => ukey_eqb (fst kv) k) (r_typed e) = Some (k, b)).
      { clear - Hk Hin. induction (r_typed e) as [|[k' b'] r IH]; [contradiction|]. cbn in *. inversion Hk; subst.
        destruct Hin as [E|Hin].
        - inversion E; subst. unfold ukey_eqb. now rewrite N.eqb_refl.
        - unfold ukey_eqb at 1. cbn. destruct (N.eqb_spec (k_id (uk_key k')) (k_id (uk_key k))) as [Q|Q]; [|now apply IH].
          exfalso. apply H1. apply in_map_iff. exists (k, b). split; [now symmetry|exact Hin]. }
      now rewrite F.
    + apply in_map_iff in H as [[n v0] [E Hin]]. inversion E; subst. cbn.
      assert (F : find (fun nv => str_eqb (fst nv) n) (r_unknown e) = Some (n, v0)).
      { unfold entries in Hn. rewrite map_app in Hn. apply nodup_app_r in Hn. rewrite map_map in Hn. cbn in Hn.
        clear - Hn Hin. induction (r_unknown e) as [|[n' v'] r IH]; [contradiction|]. cbn in *. inversion Hn; subst.
        destruct Hin as [E|Hin].
        - inversion E; subst. now rewrite str_eqb_refl.
        - destruct (str_eqb n' n) eqn:Q; [|now apply IH]. apply str_eqb_eq in Q. subst n'.
          exfalso. apply H1. apply in_map_iff. exists (n, v0). split; [reflexivity|exact Hin]. }
      now rewrite F.
  - apply (Permutation_in _ P) in H. unfold entries in H. unfold rf_find_keys. apply in_app_or in H as [H|H].
    + apply in_map_iff in H as [[k b] [E Hin]]. inversion E; subst. apply in_or_app. left.
      apply in_map_iff. exists (k, b). split; [reflexivity|]. apply filter_In. split; [exact Hin|]. cbn. apply str_eqb_refl.
    + apply in_map_iff in H as [[n v0] [E Hin]]. inversion E; subst. apply in_or_app. right. cbn.
      assert (X : existsb (fun nv : string * dval => str_eqb (fst nv) n) (r_unknown e) = true).
      { apply existsb_exists. exists (n, v0). split; [exact Hin|apply str_eqb_refl]. }
      rewrite X. now left.
  - unfold rf_find_keys in H. apply in_app_or in H as [H|H].
    + apply in_map_iff in H as [[k b] [E Hin]]. apply filter_In in Hin as [_ Q]. subst a. cbn in *. now apply str_eqb_eq in Q.
    + destruct (existsb _ (r_unknown e)); [|contradiction]. destruct H as [<-|[]]. reflexivity.
  - unfold rf_find_keys in H. apply in_app_or in H as [H|H].
    + apply in_map_iff in H as [[k b] [E Hin]]. apply filter_In in Hin as [Hin _]. subst a.
      exists (RVBound b). apply (Permutation_in _ (Permutation_sym P)). unfold entries. apply in_or_app. left.
      apply in_map_iff. now exists (k, b).
    + destruct (existsb (fun nv : string * dval => str_eqb (fst nv) n) (r_unknown e)) eqn:X; [|contradiction].
      destruct H as [<-|[]]. apply existsb_exists in X as [[n' v0] [Hin Q]]. cbn in Q. apply str_eqb_eq in Q. subst n'.
      exists (RVRaw v0). apply (Permutation_in _ (Permutation_sym P)). unfold entries. apply in_or_app. right.
      apply in_map_iff. now exists (n, v0).
  - unfold rf_get. destruct (find (fun nv => str_eqb (fst nv) n) (r_unknown e)) as [[n' v]|] eqn:F; [|reflexivity].
    exfalso. apply find_some in F as [Hin Q]. cbn in Q. apply str_eqb_eq in Q. subst n'. apply H.
    unfold entries. rewrite map_app. apply in_or_app. right. rewrite map_map. apply in_map_iff. now exists (n, v).
  - unfold rf_find_keys.
    assert (A : filter (fun kv : ukey * bval => str_eqb (k_name (uk_key (fst kv))) n) (r_typed e) = []).
    { destruct (filter _ (r_typed e)) as [|[k b] r] eqn:F; [reflexivity|]. exfalso.
      assert (Hin : In (k, b) (filter (fun kv : ukey * bval => str_eqb (k_name (uk_key (fst kv))) n) (r_typed e))) by (rewrite F; now left).
      apply filter_In in Hin as [Hin Q]. cbn in Q. apply str_eqb_eq in Q. apply H.
      unfold entries. rewrite map_app. apply in_or_app. left. rewrite map_map. apply in_map_iff. exists (k, b). split; [exact Q|exact Hin]. }
    rewrite A. cbn.
    destruct (existsb (fun nv : string * dval => str_eqb (fst nv) n) (r_unknown e)) eqn:X; [|reflexivity].
    exfalso. apply existsb_exists in X as [[n' v0] [Hin Q]]. cbn in Q. apply str_eqb_eq in Q. subst n'. apply H.
    unfold entries. rewrite map_app. apply in_or_app. right. rewrite map_map. apply in_map_iff. now exists (n, v0).
Qed.

(* ---------- every decoded field ends up exactly once, typed or unknown ---------- *)
Lemma first_convert_in ks v k b : first_convert ks v = Ok (Some (k, b)) -> In k ks.
Proof.
  intros H. destruct (first_accepting_key_wins ks v k b H) as [pre [post [-> _]]]. apply in_or_app. right. now left.
Qed.

Lemma bind_typed_name c d kind n v k b :
  bind_field c d kind n v = FTyped k b -> k_name (uk_key k) = n /\ In k (ud_keys d ++ u_custom c)%list.
Proof.
  unfold bind_field. destruct (is_placeholder v); [discriminate|].
  destruct (first_convert (named n (ud_keys d)) v) as [[[k0 b0]|]|cl|w] eqn:F1; try discriminate.
  - intros E. inversion E; subst. apply first_convert_in in F1. unfold named in F1. apply filter_In in F1 as [Hin Q].
    split; [now apply str_eqb_eq in Q|apply in_or_app; now left].
  - destruct (first_convert (named n (u_custom c)) v) as [[[k0 b0]|]|cl|w] eqn:F2; try discriminate.
    + intros E. inversion E; subst. apply first_convert_in in F2. unfold named in F2. apply filter_In in F2 as [Hin Q].
      split; [now apply str_eqb_eq in Q|apply in_or_app; now right].
    + destruct (u_strict c); discriminate.
Qed.

Definition keys_wf (c : ucfg) (d : udef) : Prop :=
  forall k1 k2, In k1 (ud_keys d ++ u_custom c)%list -> In k2 (ud_keys d ++ u_custom c)%list ->
    k_id (uk_key k1) = k_id (uk_key k2) -> k_name (uk_key k1) = k_name (uk_key k2).

Definition typed_entry (kv : ukey * bval) : entry := (AKTyped (fst kv), RVBound (snd kv)).
Definition unknown_entry (nv : string * dval) : entry := (AKName (fst nv), RVRaw (snd nv)).

Lemma names_partition c d kind (fs : list (string * dval)) :
  let rs := map (fun nv => (fst nv, bind_field c d kind (fst nv) (snd nv))) fs in
  proj_fails (collect_fields rs) = [] ->
  Permutation (map e_name (map typed_entry (flat_map typed_of rs) ++ map unknown_entry (flat_map unknown_of_f rs))%list)
              (map fst fs).
Proof.
  cbv zeta. intros Hf. rewrite (proj2 (proj2 (collect_as_flat_map _))) in Hf.
  induction fs as [|[n v] r IH]; [constructor|]. cbn [map flat_map] in *.
  apply app_eq_nil in Hf as [Hf1 Hf2]. specialize (IH Hf2).
  pose proof (bind_field_good c d kind n v) as G.
  unfold typed_of at 1, unknown_of_f at 1. unfold fails_of at 1 in Hf1. cbn [fst snd] in *.
  destruct (bind_field c d kind n v) as [k b|v'|f|w] eqn:B; cbn in G, Hf1; try discriminate; try contradiction.
  - cbn. destruct (bind_typed_name c d kind n v k b B) as [Hnm _]. unfold e_name at 1. cbn. rewrite Hnm.
    now apply perm_skip.
  - cbn [app]. rewrite map_app in *. cbn [map]. unfold e_name at 2. cbn [fst ak_name unknown_entry].
    apply Permutation_sym. eapply Permutation_trans; [apply perm_skip, Permutation_sym, IH|].
    apply Permutation_middle.
Qed.

Theorem restored_partition c m k t fs st cs u e def :
  resolve_kind_u c k = UOk def -> keys_wf c def -> NoDup (map fst fs) ->
  unmarshal c (DD m k t fs st cs u) = UOk e ->
  Permutation (map e_name (entries e)) (map fst fs) /\ rwf e.
Proof.
  intros R Hk Hn E. rewrite unmarshal_unfold3, R in E. cbv zeta in E.
  set (rs := map (fun nv => (fst nv, bind_field c def k (fst nv) (snd nv))) (sort_fields fs)) in *.
  destruct (proj_panic (collect_fields rs)); [discriminate|].
  destruct (proj_fails (collect_fields rs)) eqn:Ff; [|discriminate].
  destruct (cres_of c cs) as [cs'|f|w]; try discriminate. inversion E; subst e; clear E.
  destruct (collect_as_flat_map rs) as [A [B _]].
  assert (P : Permutation (map e_name (entries (RErr def m (proj_typed (collect_fields rs)) (proj_unknown (collect_fields rs)) st cs')))
                          (map fst fs)).
  { unfold entries. cbn [r_typed r_unknown]. rewrite A, B.
    eapply Permutation_trans; [apply (names_partition c def k (sort_fields fs)); exact Ff|apply sort_fields_names_perm]. }
  split; [exact P|]. split.
  - eapply Permutation_NoDup; [apply Permutation_sym; exact P|exact Hn].
  - cbn [r_typed]. rewrite A.
    (* equal ids would give equal names, but the names are pairwise distinct *)
    assert (Nn : NoDup (map (fun kv : ukey * bval => k_name (uk_key (fst kv))) (flat_map typed_of rs))).
    { assert (Q : NoDup (map e_name (entries (RErr def m (proj_typed (collect_fields rs)) (proj_unknown (collect_fields rs)) st cs'))))
        by (eapply Permutation_NoDup; [apply Permutation_sym; exact P|exact Hn]).
      unfold entries in Q. cbn [r_typed r_unknown] in Q. rewrite A, map_app in Q.
      apply nodup_app_l in Q. now rewrite map_map in Q. }
    assert (In_keys : forall kv, In kv (flat_map typed_of rs) -> In (fst kv) (ud_keys def ++ u_custom c)%list).
    { intros [k0 b0] Hin. apply in_flat_map in Hin as [[n r] [Hr Ht]]. unfold typed_of in Ht. cbn in Ht.
      destruct r; try contradiction. destruct Ht as [Ht|[]]. inversion Ht; subst.
      unfold rs in Hr. apply in_map_iff in Hr as [[n0 v0] [Q _]]. inversion Q; subst. cbn in *.
      exact (proj2 (bind_typed_name c def k n v0 k0 b0 H1)). }
    revert Nn In_keys. generalize (flat_map typed_of rs) as l. induction l as [|[k1 b1] l IH]; cbn; intros Nn Hin; [constructor|].
    inversion Nn; subst. constructor; [|apply IH; auto].
    intros Hid. apply in_map_iff in Hid as [[k2 b2] [Q Hin2]]. cbn in Q. apply H1.
    apply in_map_iff. exists (k2, b2). split; [|exact Hin2]. cbn.
    apply Hk; [apply (Hin (k2, b2)); now right|apply (Hin (k1, b1)); now left|exact Q].
Qed.

(* All() is one fixed order: the same for every order in which Go's map iteration hands
   over the decoded fields, hence for every unmarshaling of the same input *)
Theorem restored_all_deterministic c m k t fs fs' st cs u e e' def :
  resolve_kind_u c k = UOk def -> keys_wf c def -> NoDup (map fst fs) -> Permutation fs fs' ->
  unmarshal c (DD m k t fs st cs u) = UOk e -> unmarshal c (DD m k t fs' st cs u) = UOk e' ->
  rf_all e = rf_all e' /\ rf_len e = rf_len e'.
Proof.
  intros R Hk Hn P E E'.
  assert (D : unmarshal c (DD m k t fs st cs u) = unmarshal c (DD m k t fs' st cs u))
    by (unfold unmarshal; now rewrite (deterministic_top c m k t fs fs' st cs u P Hn)).
  rewrite E, E' in D. inversion D; subst e'. split; reflexivity.
Qed.
