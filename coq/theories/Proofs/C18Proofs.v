From Coq Require Import Lia.
From Errdef Require Import Base.Str Model.Core Model.GoErrors Model.Prog Model.Tree0 Model.Fmt Check.Render Check.C18 Proofs.C08Proofs.
Local Open Scope string_scope.

(* ---------- substring search ---------- *)
Lemma app_assoc_s (a b c : string) : (a ++ b) ++ c = a ++ (b ++ c).
Proof. induction a as [|x a IH]; cbn; [reflexivity|now rewrite IH]. Qed.

Lemma prefix_rest_app t r : prefix_rest t (t ++ r) = Some r.
Proof. induction t as [|a t IH]; cbn; [reflexivity|]. now rewrite Ascii.eqb_refl. Qed.

(* [r] is a suffix of [s] *)
Definition suffix_of (r s : string) : Prop := exists q, s = q ++ r.

Lemma suffix_refl r : suffix_of r r.
Proof. now exists "". Qed.
Lemma suffix_cons a r s : suffix_of r s -> suffix_of r (String a s).
Proof. intros [q ->]. now exists (String a q). Qed.
Lemma suffix_trans a b c : suffix_of a b -> suffix_of b c -> suffix_of a c.
Proof. intros [q1 ->] [q2 ->]. exists (q2 ++ q1). now rewrite app_assoc_s. Qed.

Lemma prefix_rest_suffix t s r : prefix_rest t s = Some r -> suffix_of r s.
Proof.
  revert s. induction t as [|a t IH]; intros s H; cbn in H.
  - inversion H. apply suffix_refl.
  - destruct s as [|b s]; [discriminate|]. destruct (Ascii.eqb a b); [|discriminate].
    apply suffix_cons. now apply IH.
Qed.

Lemma after_suffix t s r : after t s = Some r -> suffix_of r s.
Proof.
  induction s as [|b s IH]; cbn.
  - destruct (prefix_rest t "") eqn:E; [|discriminate]. intros H. inversion H; subst. now apply prefix_rest_suffix in E.
  - destruct (prefix_rest t (String b s)) eqn:E.
    + intros H. inversion H; subst. now apply prefix_rest_suffix in E.
    + intros H. apply suffix_cons. now apply IH.
Qed.

Lemma length_app_s (a b : string) : String.length (a ++ b) = String.length a + String.length b.
Proof. induction a as [|x a IH]; cbn; [reflexivity|now rewrite IH]. Qed.

Lemma app_split q2 : forall q1 a b, q2 ++ b = q1 ++ a -> String.length q2 <= String.length q1 ->
  exists q', q1 = q2 ++ q' /\ b = q' ++ a.
Proof.
  induction q2 as [|x q2 IH]; intros q1 a b E L; cbn in *.
  - exists q1. split; [reflexivity|exact E].
  - destruct q1 as [|y q1]; cbn in *; [lia|]. inversion E; subst.
    destruct (IH q1 a b H1) as [q' [A B]]; [lia|]. exists q'. split; [now rewrite A|exact B].
Qed.

Lemma suffix_by_length a b S : suffix_of a S -> suffix_of b S -> String.length a <= String.length b -> suffix_of a b.
Proof.
  intros [q1 E1] [q2 E2] L. rewrite E1 in E2.
  assert (Lq : String.length q2 <= String.length q1).
  { apply (f_equal String.length) in E2. rewrite !length_app_s in E2. lia. }
  destruct (app_split q2 q1 a b (eq_sym E2) Lq) as [q' [_ B]]. now exists q'.
Qed.

Lemma prefix_rest_length t s x : prefix_rest t s = Some x -> String.length s = String.length t + String.length x.
Proof.
  revert s. induction t as [|a t IH]; intros s H; cbn in H.
  - inversion H. reflexivity.
  - destruct s as [|b s]; [discriminate|]. destruct (Ascii.eqb a b); [|discriminate]. cbn. now rewrite (IH s H).
Qed.

(* greedy search finds an occurrence at least as early as any given one *)
Lemma after_app p t r : exists r', after t (p ++ t ++ r) = Some r' /\ suffix_of r r'.
Proof.
  induction p as [|a p IH]; cbn [append].
  - exists r. split; [|apply suffix_refl].
    destruct (t ++ r) eqn:E; cbn; rewrite <- ?E; now rewrite prefix_rest_app.
  - destruct IH as [r' [A B]]. cbn [after].
    destruct (prefix_rest t (String a (p ++ t ++ r))) as [x|] eqn:E.
    + exists x. split; [reflexivity|].
      apply (suffix_by_length r x (String a (p ++ t ++ r))).
      * exists (String a (p ++ t)). cbn. now rewrite app_assoc_s.
      * now apply prefix_rest_suffix in E.
      * apply prefix_rest_length in E. cbn in E. rewrite !length_app_s in E. lia.
    + exists r'. split; [exact A|exact B].
Qed.

(* prepending text to the haystack keeps an ordered embedding *)
Lemma after_mono t s r q : after t s = Some r -> exists r', after t (q ++ s) = Some r' /\ suffix_of r r'.
Proof.
  intros H. pose proof (after_suffix t s r H) as _.
  (* s = p ++ t ++ r0 for the greedy position; reuse after_app on q ++ p *)
  assert (D : exists p, s = p ++ t ++ r).
  { clear - H. induction s as [|b s IH]; cbn in H.
    - destruct (prefix_rest t "") eqn:E; [|discriminate]. inversion H; subst. exists "".
      destruct t; cbn in E; [now inversion E|discriminate].
    - destruct (prefix_rest t (String b s)) eqn:E.
      + inversion H; subst. exists "". cbn. clear - E. revert E. generalize (String b s) as u.
        induction t as [|a t IH]; intros u E; cbn in *; [now inversion E|].
        destruct u as [|c u]; [discriminate|]. destruct (Ascii.eqb_spec a c); [|discriminate]. subst. now rewrite (IH u E).
      + destruct (IH H) as [p ->]. now exists (String b p). }
  destruct D as [p ->]. rewrite <- app_assoc_s. apply after_app.
Qed.

Lemma in_order_mono ts : forall s q, in_order ts s = true -> in_order ts (q ++ s) = true.
Proof.
  induction ts as [|t ts IH]; intros s q H; [reflexivity|]. cbn in *.
  destruct (after t s) as [r|] eqn:A; [|discriminate].
  destruct (after_mono t s r q A) as [r' [-> [q' ->]]]. now apply IH.
Qed.

(* ---------- an ordered embedding of tokens in a text ---------- *)
Inductive Embeds : list string -> string -> Prop :=
| E_nil s : Embeds [] s
| E_cons t ts p r : Embeds ts r -> Embeds (t :: ts) (p ++ t ++ r).

Lemma embeds_in_order ts s : Embeds ts s -> in_order ts s = true.
Proof.
  induction 1 as [|t ts p r H IH]; [reflexivity|]. cbn.
  destruct (after_app p t r) as [r' [-> [q ->]]]. now apply in_order_mono.
Qed.

Lemma embeds_prepend ts s q : Embeds ts s -> Embeds ts (q ++ s).
Proof. destruct 1 as [|t ts p r H]; [constructor|]. rewrite <- app_assoc_s. now constructor. Qed.

Lemma embeds_app ts1 ts2 s1 s2 : Embeds ts1 s1 -> Embeds ts2 s2 -> Embeds (ts1 ++ ts2)%list (s1 ++ s2).
Proof.
  induction 1 as [s|t ts p r H IH]; intros H2; cbn.
  - now apply embeds_prepend.
  - rewrite !app_assoc_s. constructor. now apply IH.
Qed.

Lemma embeds_one t p r : Embeds [t] (p ++ t ++ r).
Proof. constructor. constructor. Qed.

Lemma embeds_append_right ts s q : Embeds ts s -> Embeds ts (s ++ q).
Proof.
  induction 1 as [|t ts p r H IH]; [constructor|]. rewrite !app_assoc_s. now constructor.
Qed.

Lemma app_nil_r_s (a : string) : a ++ "" = a.
Proof. induction a as [|x a IH]; cbn; [reflexivity|now rewrite IH]. Qed.

Lemma embeds_self t : Embeds [t] t.
Proof. pose proof (embeds_one t "" "") as H. cbn in H. now rewrite app_nil_r_s in H. Qed.
Lemma embeds_suffix t p : Embeds [t] (p ++ t).
Proof. pose proof (embeds_one t p "") as H. now rewrite app_nil_r_s in H. Qed.
Lemma embeds_nil_any s : Embeds [] s.
Proof. constructor. Qed.

Lemma concat_cons_s x l : String.concat "" (x :: l) = x ++ String.concat "" l.
Proof. destruct l; cbn; [now rewrite app_nil_r_s|reflexivity]. Qed.

Lemma embeds_concat (tss : list (list string)) (ss : list string) :
  Forall2 Embeds tss ss -> Embeds (List.concat tss) (String.concat "" ss).
Proof.
  induction 1 as [|ts s tss ss H _ IH]; [constructor|].
  cbn [List.concat]. rewrite concat_cons_s. now apply embeds_app.
Qed.

(* ---------- helpers ---------- *)
Lemma embeds_exact (l : list string) : Embeds l (String.concat "" l).
Proof.
  induction l as [|x r IH]; [constructor|]. rewrite concat_cons_s.
  change (x ++ String.concat "" r) with ("" ++ x ++ String.concat "" r). now constructor.
Qed.

Lemma concat_map_shift ind (ls : list string) :
  nl ++ String.concat "" (map (fun l => ind ++ "    " ++ l ++ nl) ls) =
  String.concat "" (map (fun l => nl ++ ind ++ "    " ++ l) ls) ++ nl.
Proof.
  induction ls as [|l r IH]; [reflexivity|]. cbn [map]. rewrite !concat_cons_s.
  rewrite !app_assoc_s. rewrite <- IH. reflexivity.
Qed.

Lemma embeds_field ind nv : Embeds (field_toks ind nv) (fmt_field ind nv).
Proof.
  unfold field_toks, fmt_field. cbv zeta. destruct (has_nl (fv_plus (snd nv))).
  - replace (nl ++ ind ++ "  " ++ fst nv ++ ": " ++ "|" ++ nl ++
             String.concat "" (map (fun l => ind ++ "    " ++ l ++ nl) (split_nl (fv_plus (snd nv)))))
      with ("" ++ (nl ++ ind ++ "  " ++ fst nv ++ ": |") ++
            (String.concat "" (map (fun l => nl ++ ind ++ "    " ++ l) (split_nl (fv_plus (snd nv)))) ++ nl)).
    + constructor. apply embeds_append_right. apply embeds_exact.
    + rewrite <- concat_map_shift. change ("" ++ ?x) with x. rewrite !app_assoc_s. reflexivity.
  - apply embeds_self.
Qed.

Lemma embeds_fields2 ind all :
  Embeds (flat_map (field_toks ind) all) (String.concat "" (map (fmt_field ind) all)).
Proof.
  rewrite flat_map_concat_map. apply embeds_concat.
  induction all as [|nv r IH]; cbn [map]; constructor; [apply embeds_field|exact IH].
Qed.

(* ---------- snippet lines ---------- *)
Lemma has_nl_app a b : has_nl (a ++ b) = has_nl a || has_nl b.
Proof. induction a as [|c a IH]; cbn; [reflexivity|]. now rewrite IH, orb_assoc. Qed.

Lemma has_nl_digit n : (n < 10)%N -> has_nl (digit n) = false.
Proof.
  intros H. unfold digit. cbn [has_nl]. rewrite N_ascii_embedding by lia.
  destruct (N.eqb_spec (48 + n) 10); [lia|reflexivity].
Qed.

Lemma has_nl_dec_fuel f : forall n acc, has_nl (dec_fuel f n acc) = has_nl acc.
Proof.
  induction f as [|f IH]; intros n acc; cbn [dec_fuel]; [reflexivity|]. cbv zeta.
  assert (D : has_nl (digit (n mod 10) ++ acc) = has_nl acc).
  { rewrite has_nl_app, has_nl_digit; [reflexivity|]. apply N.mod_lt. lia. }
  destruct (N.ltb n 10); [exact D|]. now rewrite IH.
Qed.

Lemma has_nl_dec n : has_nl (dec n) = false.
Proof. unfold dec. now rewrite has_nl_dec_fuel. Qed.
Lemma has_nl_dec_Z z : has_nl (dec_Z z) = false.
Proof. unfold dec_Z. destruct (Z.ltb z 0); [rewrite has_nl_app|]; now rewrite has_nl_dec. Qed.
Lemma has_nl_spaces n : has_nl (String.concat "" (repeat " " n)) = false.
Proof. induction n as [|n IH]; [reflexivity|]. cbn [repeat]. rewrite concat_cons_s, has_nl_app, IH. reflexivity. Qed.
Lemma has_nl_pad w s : has_nl (pad_left w s) = has_nl s.
Proof. unfold pad_left. now rewrite has_nl_app, has_nl_spaces. Qed.

(* strings.Split on newline: a newline-free first line is split off *)
Lemma split_acc_spec s : forall cur,
  split_nl_acc s cur = match split_nl_acc s "" with x :: r => (cur ++ x) :: r | [] => [cur] end.
Proof.
  induction s as [|c s IH]; intros cur; cbn [split_nl_acc].
  - now rewrite app_nil_r_s.
  - destruct (N.eqb (N_of_ascii c) 10).
    + now rewrite app_nil_r_s.
    + rewrite (IH (cur ++ String c "")), (IH ("" ++ String c "")).
      destruct (split_nl_acc s "") as [|x r]; [reflexivity|]. now rewrite !app_assoc_s.
Qed.

Lemma split_nl_line x rest : has_nl x = false -> split_nl (x ++ nl ++ rest) = x :: split_nl rest.
Proof.
  unfold split_nl. induction x as [|c x IH]; intros H.
  - reflexivity.
  - cbn [has_nl] in H. apply orb_false_iff in H as [Hc Hx]. cbn [append split_nl_acc]. rewrite Hc.
    rewrite split_acc_spec, (IH Hx). reflexivity.
Qed.
Lemma split_nl_last x : has_nl x = false -> split_nl x = [x].
Proof.
  unfold split_nl. induction x as [|c x IH]; intros H; [reflexivity|].
  cbn [has_nl] in H. apply orb_false_iff in H as [Hc Hx]. cbn [split_nl_acc]. rewrite Hc.
  rewrite split_acc_spec, (IH Hx). reflexivity.
Qed.

Lemma split_join (ls : list string) : ls <> [] -> forallb (fun l => negb (has_nl l)) ls = true ->
  split_nl (join nl ls) = ls.
Proof.
  induction ls as [|x r IH]; intros Hne H; [congruence|].
  cbn [forallb] in H. apply andb_true_iff in H as [Hx Hr]. apply negb_true_iff in Hx.
  destruct r as [|y r]; [now apply split_nl_last|].
  change (join nl (x :: y :: r)) with (x ++ nl ++ join nl (y :: r)).
  rewrite split_nl_line by exact Hx. f_equal. apply IH; [discriminate|exact Hr].
Qed.

(* ---------- frameSource ---------- *)
Definition rend (width : nat) (line : Z) (il : Z * string) : string :=
  (if Z.eqb (fst il) line then "> " else "  ") ++ pad_left width (dec_Z (fst il)) ++ ": " ++ snd il.

Lemma frame_source_rend w line : w_lines w <> [] ->
  frame_source w line =
  join nl (map (rend (String.length (dec_Z (w_start w + Z.of_nat (List.length (w_lines w)) - 1))) line)
               (combine (map (fun i => (w_start w + Z.of_nat i)%Z) (seq 0 (List.length (w_lines w)))) (w_lines w))).
Proof. unfold frame_source. destruct (w_lines w) as [|x r]; [congruence|]. reflexivity. Qed.

Lemma rend_nl_free width line il : has_nl (snd il) = false -> has_nl (rend width line il) = false.
Proof.
  intros H. unfold rend. rewrite !has_nl_app, has_nl_pad, has_nl_dec_Z, H.
  destruct (Z.eqb (fst il) line); reflexivity.
Qed.

Lemma rendered_nl_free width line a : forall ls start,
  forallb (fun l => negb (has_nl l)) ls = true ->
  forallb (fun l => negb (has_nl l))
    (map (rend width line) (combine (map (fun i => (a + Z.of_nat i)%Z) (seq start (List.length ls))) ls)) = true.
Proof.
  induction ls as [|x r IH]; intros start H; [reflexivity|].
  cbn [forallb] in H. apply andb_true_iff in H as [Hx Hr]. apply negb_true_iff in Hx.
  cbn [List.length seq map combine forallb]. rewrite rend_nl_free by exact Hx. cbn [negb andb]. now apply IH.
Qed.

Lemma rendered_nth width line a : forall ls start k text, nth_error ls k = Some text ->
  exists l1 l2,
    map (rend width line) (combine (map (fun i => (a + Z.of_nat i)%Z) (seq start (List.length ls))) ls) =
    (l1 ++ rend width line ((a + Z.of_nat (start + k))%Z, text) :: l2)%list.
Proof.
  induction ls as [|x r IH]; intros start k text H; [destruct k; discriminate|].
  cbn [List.length seq map combine]. destruct k as [|k]; cbn [nth_error] in H.
  - inversion H; subst. exists [], (map (rend width line) (combine (map (fun i => (a + Z.of_nat i)%Z) (seq (S start) (List.length r))) r)).
    now rewrite Nat.add_0_r.
  - destruct (IH (S start) k text H) as [l1 [l2 E]]. exists (rend width line ((a + Z.of_nat start)%Z, x) :: l1), l2.
    rewrite E. cbn [List.app]. replace (start + S k) with (S start + k) by lia. reflexivity.
Qed.

Lemma concat_map_mid (g : string -> string) l1 x l2 :
  String.concat "" (map g (l1 ++ x :: l2)%list) =
  String.concat "" (map g l1) ++ g x ++ String.concat "" (map g l2).
Proof.
  induction l1 as [|y l1 IH]; cbn [List.app map]; rewrite !concat_cons_s; [reflexivity|].
  now rewrite IH, app_assoc_s.
Qed.

Lemma join_nonempty c x r : exists rest, join nl (String c x :: r) = String c rest.
Proof. destruct r as [|y r]; [now exists x|]. exists (x ++ nl ++ join nl (y :: r)). reflexivity. Qed.

Lemma join_marked_nonempty (b : bool) y r : str_eqb (join nl (((if b then "> " else "  ") ++ y) :: r)) "" = false.
Proof. destruct b, r; reflexivity. Qed.

(* the snippet block of a frame shows the marked line of the frame's own line *)
Lemma embeds_snippet ind w line t :
  forallb (fun l => negb (has_nl l)) (w_lines w) = true -> marked_line w line = Some t ->
  str_eqb (frame_source w line) "" = false /\
  Embeds [nl ++ ind ++ "    " ++ t]
    (String.concat "" (map (fun l => nl ++ ind ++ "    " ++ l) (split_nl (frame_source w line)))).
Proof.
  intros Hwf Hm. unfold marked_line in Hm. cbv zeta in Hm.
  destruct (Z.ltb_spec (line - w_start w) 0) as [|Hk]; [discriminate|].
  destruct (nth_error (w_lines w) (Z.to_nat (line - w_start w))) as [text|] eqn:En; [|discriminate].
  inversion Hm; subst t; clear Hm.
  assert (Hne : w_lines w <> []) by (intros E; rewrite E in En; destruct (Z.to_nat (line - w_start w)); discriminate).
  rewrite (frame_source_rend w line Hne).
  set (width := String.length (dec_Z (w_start w + Z.of_nat (List.length (w_lines w)) - 1))).
  destruct (rendered_nth width line (w_start w) (w_lines w) 0 _ text En) as [l1 [l2 E]].
  pose proof (rendered_nl_free width line (w_start w) (w_lines w) 0 Hwf) as Hfree.
  replace (w_start w + Z.of_nat (0 + Z.to_nat (line - w_start w)))%Z with line in E by lia.
  split.
  - destruct (w_lines w) as [|x r] eqn:El; [congruence|]. cbn [List.length seq map combine].
    unfold rend at 1. cbn [fst snd].
    apply join_marked_nonempty.
  - rewrite split_join; [|rewrite E; destruct l1; discriminate|exact Hfree].
    rewrite E, concat_map_mid. unfold rend. cbn [fst snd]. rewrite Z.eqb_refl.
    apply embeds_one.
Qed.

(* ---------- frames, stack, details ---------- *)
Lemma srcmap_wf_lookup m file line w : srcmap_wf m = true -> lookup_src m file line = Some w ->
  forallb (fun l => negb (has_nl l)) (w_lines w) = true.
Proof.
  unfold srcmap_wf, lookup_src. intros Hwf H.
  destruct (find _ m) as [e|] eqn:F; [|discriminate]. cbn in H. inversion H; subst.
  apply find_some in F as [Hin _]. rewrite forallb_forall in Hwf. exact (Hwf e Hin).
Qed.

Lemma embeds_frame2 m sl sd ind i f : srcmap_wf m = true ->
  Embeds (frame_toks m sl sd ind (i, f))
    (fmt_frame ind (if want_source sl sd i f
                    then option_map (fun w => frame_source w (fr_line f)) (lookup_src m (fr_file f) (fr_line f))
                    else None) f).
Proof.
  intros Hwf. unfold frame_toks, fmt_frame. cbn [fst snd]. destruct (str_eqb (fr_file f) ""); [constructor|].
  set (tail := match (if want_source sl sd i f then _ else None) with Some s => _ | None => "" end).
  set (marks := if want_source sl sd i f then _ else []).
  assert (Ht : Embeds marks tail).
  { unfold marks, tail. destruct (want_source sl sd i f); [|constructor].
    destruct (lookup_src m (fr_file f) (fr_line f)) as [w|] eqn:L; cbn [option_map]; [|constructor].
    destruct (marked_line w (fr_line f)) as [t|] eqn:M; [|constructor].
    destruct (embeds_snippet ind w (fr_line f) t (srcmap_wf_lookup m _ _ w Hwf L) M) as [Hne He].
    rewrite Hne. exact He. }
  replace (nl ++ ind ++ "  " ++ fr_func f ++ nl ++ ind ++ "    " ++ fr_file f ++ ":" ++ dec_Z (fr_line f) ++ tail)
    with ("" ++ (nl ++ ind ++ "  " ++ fr_func f) ++ ("" ++ (nl ++ ind ++ "    " ++ fr_file f ++ ":" ++ dec_Z (fr_line f)) ++ tail))
    by (rewrite !app_assoc_s; reflexivity).
  constructor. constructor. exact Ht.
Qed.

Lemma embeds_stack2 m ind e : srcmap_wf m = true ->
  Embeds (flat_map (frame_toks m (fst (src_settings e)) (snd (src_settings e)) ind)
            (combine (seq 0 (List.length (e_stack e))) (e_stack e)))
         (fmt_stack m ind e).
Proof.
  intros Hwf. unfold fmt_stack. destruct (src_settings e) as [sl sd]. cbn [fst snd].
  rewrite flat_map_concat_map. apply embeds_concat.
  generalize 0 as start. induction (e_stack e) as [|f r IH]; intros start; cbn; [constructor|].
  constructor; [apply embeds_frame2; exact Hwf|apply IH].
Qed.

Lemma embeds_line ind t rest : Embeds [nl ++ ind ++ t] (nl ++ ind ++ t ++ rest).
Proof.
  replace (nl ++ ind ++ t ++ rest) with ("" ++ (nl ++ ind ++ t) ++ rest) by (rewrite !app_assoc_s; reflexivity).
  apply embeds_one.
Qed.

Lemma embeds_cons_line ind t ts rest : Embeds ts rest -> Embeds ((nl ++ ind ++ t) :: ts) (nl ++ ind ++ t ++ rest).
Proof.
  intros H. replace (nl ++ ind ++ t ++ rest) with ("" ++ (nl ++ ind ++ t) ++ rest) by (rewrite !app_assoc_s; reflexivity).
  now constructor.
Qed.

(* fmt_details = message, then a text in which the detail tokens are embedded *)
Definition details_rest (m : srcmap) (e : err) (indent : string) (has_causes : bool) : string :=
  let all := e_fields_all e in
  let has_details := negb (str_eqb (e_kind e) "") || negb (Nat.eqb (List.length all) 0) || negb (Nat.eqb (List.length (e_stack e)) 0) in
  (if has_details || has_causes then nl ++ indent ++ "---" else "") ++
  (if str_eqb (e_kind e) "" then "" else nl ++ indent ++ "kind: " ++ e_kind e) ++
  (match all with [] => "" | _ => nl ++ indent ++ "fields:" ++ String.concat "" (map (fmt_field indent) all) end) ++
  (match e_stack e with [] => "" | _ => nl ++ indent ++ "stack:" ++ fmt_stack m indent e end).

Lemma fmt_details_split m e indent hc : fmt_details m e indent hc = err_msg e ++ details_rest m e indent hc.
Proof. reflexivity. Qed.

Lemma embeds_details2 m e indent hc : srcmap_wf m = true ->
  Embeds (detail_toks m e indent) (details_rest m e indent hc).
Proof.
  intros Hwf. unfold detail_toks, details_rest. cbv zeta.
  apply embeds_prepend.
  apply embeds_app; [destruct (str_eqb (e_kind e) ""); [constructor|]|].
  - apply embeds_self.
  - apply embeds_app.
    + destruct (e_fields_all e) as [|x all] eqn:Ea; [constructor|].
      apply embeds_cons_line. apply embeds_fields2.
    + destruct (e_stack e) as [|f r] eqn:Es; [constructor|].
      apply embeds_cons_line. pose proof (embeds_stack2 m indent e Hwf) as H. now rewrite Es in H.
Qed.

Lemma embeds_header2 indent n : Embeds (header_tok indent n) (causes_header indent n).
Proof.
  unfold header_tok, causes_header. destruct n as [|[|n]]; [constructor| |]; cbn [Nat.eqb].
  - exact (embeds_self (nl ++ indent ++ "causes: (1 error)")).
  - rewrite app_assoc_s. exact (embeds_self (nl ++ indent ++ "causes: (" ++ dec_nat (S (S n)) ++ " errors)")).
Qed.

(* ---------- the whole tree ---------- *)
Lemma embeds_kids2 m indent (l : list tree) :
  Forall (fun t => forall ind i, Embeds (node_toks m ind i t) (fmt_node m ind i t)) l ->
  forall j, Forall2 Embeds
    ((fix go (j0 : nat) (l0 : list tree) {struct l0} : list (list string) :=
        match l0 with [] => [] | k0 :: r0 => node_toks m indent j0 k0 :: go (S j0) r0 end) j l)
    ((fix go (j0 : nat) (l0 : list tree) {struct l0} : list string :=
        match l0 with [] => [] | k0 :: r0 => fmt_node m indent j0 k0 :: go (S j0) r0 end) j l).
Proof.
  induction l as [|x l IHl]; intros IH j; cbn; [constructor|]. inversion IH; subst.
  constructor; [apply H1|now apply IHl].
Qed.

Theorem embeds_node2 m : srcmap_wf m = true -> forall t indent i, Embeds (node_toks m indent i t) (fmt_node m indent i t).
Proof.
  intros Hwf. induction t as [e kids IH] using tree_ind'. intros indent i. cbn [node_toks fmt_node].
  set (ind' := indent ++ "    ").
  (* label line *)
  match goal with |- Embeds (?lab :: ?rest) (nl ++ indent ++ "[" ++ dec_nat (S i) ++ "] " ++ ?body ++ ?tail) =>
    assert (Hsplit : exists R, body ++ tail = err_msg e ++ R /\ Embeds rest R) end.
  { destruct (is_errdef_error e) eqn:He.
    - exists (details_rest m e ind' (negb (Nat.eqb (List.length kids) 0)) ++
              (if Nat.eqb (List.length kids) 0 then "" else causes_header ind' (List.length kids) ++
                 String.concat "" ((fix go (j : nat) (l : list tree) : list string :=
                                      match l with [] => [] | k :: r => fmt_node m ind' j k :: go (S j) r end) 0 kids))).
      split; [rewrite fmt_details_split; now rewrite app_assoc_s|].
      apply embeds_app; [now apply embeds_details2|].
      destruct (Nat.eqb (List.length kids) 0) eqn:En.
      + destruct kids; [constructor|discriminate].
      + apply embeds_app; [apply embeds_header2|]. apply embeds_concat. now apply embeds_kids2.
    - exists ((if Nat.eqb (List.length kids) 0 then "" else nl ++ indent ++ "    ---") ++
              (if Nat.eqb (List.length kids) 0 then "" else causes_header ind' (List.length kids) ++
                 String.concat "" ((fix go (j : nat) (l : list tree) : list string :=
                                      match l with [] => [] | k :: r => fmt_node m ind' j k :: go (S j) r end) 0 kids))).
      split; [now rewrite app_assoc_s|]. cbn [List.app].
      apply embeds_prepend.
      destruct (Nat.eqb (List.length kids) 0) eqn:En.
      + destruct kids; [constructor|discriminate].
      + apply embeds_app; [apply embeds_header2|]. apply embeds_concat. now apply embeds_kids2. }
  destruct Hsplit as [R [E HR]]. rewrite E.
  replace (nl ++ indent ++ "[" ++ dec_nat (S i) ++ "] " ++ err_msg e ++ R)
    with ("" ++ (nl ++ indent ++ "[" ++ dec_nat (S i) ++ "] " ++ err_msg e) ++ R) by (rewrite !app_assoc_s; reflexivity).
  now constructor.
Qed.

(* %+v of an errdef error: the message, then a text showing plus_toks in order *)
Theorem plus_v_shows m e : srcmap_wf m = true ->
  (match e_def e with Some d => d_fmt d | None => None end) = None ->
  is_errdef_error e = true ->
  exists R, format_error m "+v" e = err_msg e ++ R /\ Embeds (plus_toks m e) R.
Proof.
  intros Hwf Hf He. unfold format_error. rewrite Hf.
  exists (details_rest m e "" (negb (Nat.eqb (List.length (unwrap_tree e)) 0)) ++
          (if Nat.eqb (List.length (unwrap_tree e)) 0 then ""
           else causes_header "" (List.length (unwrap_tree e)) ++ fmt_nodes m "  " (unwrap_tree e))).
  split; [rewrite fmt_details_split; now rewrite app_assoc_s|].
  unfold plus_toks. apply embeds_app; [now apply embeds_details2|].
  destruct (Nat.eqb (List.length (unwrap_tree e)) 0) eqn:En.
  - destruct (unwrap_tree e); [constructor|discriminate].
  - apply embeds_app; [apply embeds_header2|]. unfold nodes_toks, fmt_nodes. apply embeds_concat.
    apply embeds_kids2. apply Forall_forall. intros t _. now apply embeds_node2.
Qed.

Theorem shows_after_msg_complete msg toks R : Embeds toks R -> shows_after_msg msg toks (msg ++ R) = true.
Proof. intros H. unfold shows_after_msg. rewrite prefix_rest_app. now apply embeds_in_order. Qed.

Theorem plus_v_complete_in_order m e : srcmap_wf m = true ->
  (match e_def e with Some d => d_fmt d | None => None end) = None ->
  is_errdef_error e = true ->
  shows_after_msg (err_msg e) (plus_toks m e) (format_error m "+v" e) = true.
Proof.
  intros Hwf Hf He. destruct (plus_v_shows m e Hwf Hf He) as [R [-> HR]]. now apply shows_after_msg_complete.
Qed.

(* ---------- plain verbs, formatter, snippets ---------- *)
Theorem plain_verbs m e :
  (match e_def e with Some d => d_fmt d | None => None end) = None ->
  format_error m "s" e = err_msg e /\ format_error m "v" e = err_msg e /\ format_error m "q" e = go_quote (err_msg e).
Proof. intros H. unfold format_error. rewrite H. repeat split; reflexivity. Qed.

Theorem formatter_replaces m e id verb :
  (match e_def e with Some d => d_fmt d | None => None end) = Some id ->
  format_error m verb e = custom_fmt id (match verb with "+v" => "v" | x => x end) (err_msg e).
Proof. intros H. unfold format_error. now rewrite H. Qed.

(* nested nodes are rendered by formatErrorDetails: whether their definition carries a
   Formatter does not matter *)
Definition strip_fmt_def (d : defn) : defn :=
  {| d_addr := d_addr d; d_root := d_root d; d_org := d_org d; d_kind := d_kind d; d_fields := d_fields d;
     d_notrace := d_notrace d; d_skip := d_skip d; d_depth := d_depth d;
     d_srclines := d_srclines d; d_srcdepth := d_srcdepth d;
     d_fmt := None; d_json := d_json d; d_log := d_log d |}.
Definition strip_fmt (e : err) : err :=
  match e with
  | EDef a d m c j s => EDef a (strip_fmt_def d) m c j s
  | ERest a d m rf s cs => ERest a (strip_fmt_def d) m rf s cs
  | _ => e
  end.

Theorem nested_formatter_not_invoked m indent i e kids :
  fmt_node m indent i (T e kids) = fmt_node m indent i (T (strip_fmt e) kids).
Proof. destruct e; reflexivity. Qed.

(* snippets only when StackSource is enabled and only for the configured frames *)
Theorem no_snippet_when_disabled sl sd i f :
  (sl <= 0)%Z \/ sd = 0%Z \/ (0 < sd /\ sd <= Z.of_nat i)%Z -> want_source sl sd i f = false.
Proof.
  unfold want_source. intros [H|[H|[H1 H2]]].
  - destruct (Z.ltb_spec 0 sl); [lia|reflexivity].
  - subst. cbn. now rewrite !andb_false_r.
  - destruct (Z.ltb 0 sl); [|reflexivity]. destruct (negb _); [|reflexivity]. cbn.
    destruct (Z.eqb_spec sd (-1)); [lia|]. destruct (Z.ltb_spec (Z.of_nat i) sd); [lia|]. now rewrite andb_false_r.
Qed.

Theorem frame_without_source indent f :
  fmt_frame indent None f =
  if str_eqb (fr_file f) "" then ""
  else nl ++ indent ++ "  " ++ fr_func f ++ nl ++ indent ++ "    " ++ fr_file f ++ ":" ++ dec_Z (fr_line f) ++ "".
Proof. reflexivity. Qed.

(* the main part of the oracle follows from the correspondence *)
Definition ok1_main (s : st) (given : list rlit) (m : srcmap) (o : obs1) : bool :=
  match subject_err s given (o_subject o) with
  | Some e =>
      match (match e_def e with Some d => d_fmt d | None => None end) with
      | Some id =>
          str_eqb (o_s o) (custom_fmt id "s" (err_msg e)) && str_eqb (o_v o) (custom_fmt id "v" (err_msg e)) &&
          str_eqb (o_q o) (custom_fmt id "q" (err_msg e)) && str_eqb (o_plus o) (custom_fmt id "v" (err_msg e))
      | None =>
          str_eqb (o_s o) (err_msg e) && str_eqb (o_v o) (err_msg e) && str_eqb (o_q o) (go_quote (err_msg e)) &&
          shows_after_msg (err_msg e) (plus_toks m e) (o_plus o)
      end
  | None => false
  end.

Theorem corr_implies_ok_main s given m o : srcmap_wf m = true ->
  (forall e, subject_err s given (o_subject o) = Some e -> is_errdef_error e = true) ->
  corr1 s given m o = true -> ok1_main s given m o = true.
Proof.
  unfold corr1, ok1_main. intros Hwf Hs H. destruct (subject_err s given (o_subject o)) as [e|] eqn:E; [|discriminate].
  apply andb_true_iff in H as [H H4]. apply andb_true_iff in H as [H H3]. apply andb_true_iff in H as [H1 H2].
  destruct (match e_def e with Some d => d_fmt d | None => None end) as [id|] eqn:F.
  - rewrite (formatter_replaces m e id "s" F) in H1. rewrite (formatter_replaces m e id "v" F) in H2.
    rewrite (formatter_replaces m e id "q" F) in H3. rewrite (formatter_replaces m e id "+v" F) in H4.
    now rewrite H1, H2, H3, H4.
  - destruct (plain_verbs m e F) as [A [B C]]. rewrite A in H1. rewrite B in H2. rewrite C in H3.
    rewrite H1, H2, H3. cbn [andb]. apply str_eqb_eq in H4. rewrite H4.
    apply plus_v_complete_in_order; [exact Hwf|exact F|now apply Hs].
Qed.
