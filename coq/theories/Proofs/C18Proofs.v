From Errdef Require Import Base.Str Model.Core Model.GoErrors Model.Prog Model.Tree0 Model.Fmt Check.Render Check.C18 Proofs.C08Proofs.
Local Open Scope string_scope.

(* ---------- substring search ---------- *)
Lemma app_assoc_s (a b c : string) : (a ++ b) ++ c = a ++ (b ++ c).
Proof. induction a as [|x a IH]; cbn; [reflexivity|now rewrite IH]. Qed.

Lemma prefix_rest_app t r : prefix_rest t (t ++ r) = Some r.
Proof. induction t as [|a t IH]; cbn; [reflexivity|]. now rewrite Ascii.eqb_refl. Qed.

(* [r] is a suffix of [s] *)
Definition suffix_of (r s : string) : Prop := exists q, s = q ++ r.

Lemma suffix_refl r : suffix_of r r.
Proof. now exists "". Qed.
Lemma suffix_cons a r s : suffix_of r s -> suffix_of r (String a s).
Proof. intros [q ->]. now exists (String a q). Qed.
Lemma suffix_trans a b c : suffix_of a b -> suffix_of b c -> suffix_of a c.
Proof. intros [q1 ->] [q2 ->]. exists (q2 ++ q1). now rewrite app_assoc_s. Qed.

Lemma prefix_rest_suffix t s r : prefix_rest t s = Some r -> suffix_of r s.
Proof.
  revert s. induction t as [|a t IH]; intros s H; cbn in H.
  - inversion H. apply suffix_refl.
  - destruct s as [|b s]; [discriminate|]. destruct (Ascii.eqb a b); [|discriminate].
    apply suffix_cons. now apply IH.
Qed.

Lemma after_suffix t s r : after t s = Some r -> suffix_of r s.
Proof.
  induction s as [|b s IH]; cbn.
  - destruct (prefix_rest t "") eqn:E; [|discriminate]. intros H. inversion H; subst. now apply prefix_rest_suffix in E.
  - destruct (prefix_rest t (String b s)) eqn:E.
    + intros H. inversion H; subst. now apply prefix_rest_suffix in E.
    + intros H. apply suffix_cons. now apply IH.
Qed.

Lemma length_app_s (a b : string) : String.length (a ++ b) = String.length a + String.length b.
Proof. induction a as [|x a IH]; cbn; [reflexivity|now rewrite IH]. Qed.

Lemma app_split q2 : forall q1 a b, q2 ++ b = q1 ++ a -> String.length q2 <= String.length q1 ->
  exists q', q1 = q2 ++ q' /\ b = q' ++ a.
Proof.
  induction q2 as [|x q2 IH]; intros q1 a b E L; cbn in *.
  - exists q1. split; [reflexivity|exact E].
  - destruct q1 as [|y q1]; cbn in *; [lia|]. inversion E; subst.
    destruct (IH q1 a b H1) as [q' [A B]]; [lia|]. exists q'. split; [now rewrite A|exact B].
Qed.

Lemma suffix_by_length a b S : suffix_of a S -> suffix_of b S -> String.length a <= String.length b -> suffix_of a b.
Proof.
  intros [q1 E1] [q2 E2] L. rewrite E1 in E2.
  assert (Lq : String.length q2 <= String.length q1).
  { apply (f_equal String.length) in E2. rewrite !length_app_s in E2. lia. }
  destruct (app_split q2 q1 a b (eq_sym E2) Lq) as [q' [_ B]]. now exists q'.
Qed.

Lemma prefix_rest_length t s x : prefix_rest t s = Some x -> String.length s = String.length t + String.length x.
Proof.
  revert s. induction t as [|a t IH]; intros s H; cbn in H.
  - inversion H. reflexivity.
  - destruct s as [|b s]; [discriminate|]. destruct (Ascii.eqb a b); [|discriminate]. cbn. now rewrite (IH s H).
Qed.

(* greedy search finds an occurrence at least as early as any given one *)
Lemma after_app p t r : exists r', after t (p ++ t ++ r) = Some r' /\ suffix_of r r'.
Proof.
  induction p as [|a p IH]; cbn [append].
  - exists r. split; [|apply suffix_refl].
    destruct (t ++ r) eqn:E; cbn; rewrite <- ?E; now rewrite prefix_rest_app.
  - destruct IH as [r' [A B]]. cbn [after].
    destruct (prefix_rest t (String a (p ++ t ++ r))) as [x|] eqn:E.
    + exists x. split; [reflexivity|].
      apply (suffix_by_length r x (String a (p ++ t ++ r))).
      * exists (String a (p ++ t)). cbn. now rewrite app_assoc_s.
      * now apply prefix_rest_suffix in E.
      * apply prefix_rest_length in E. cbn in E. rewrite !length_app_s in E. lia.
    + exists r'. split; [exact A|exact B].
Qed.

(* prepending text to the haystack keeps an ordered embedding *)
Lemma after_mono t s r q : after t s = Some r -> exists r', after t (q ++ s) = Some r' /\ suffix_of r r'.
Proof.
  intros H. pose proof (after_suffix t s r H) as _.
  (* s = p ++ t ++ r0 for the greedy position; reuse after_app on q ++ p *)
  assert (D : exists p, s = p ++ t ++ r).
  { clear - H. induction s as [|b s IH]; cbn in H.
    - destruct (prefix_rest t "") eqn:E; [|discriminate]. inversion H; subst. exists "".
      destruct t; cbn in E; [now inversion E|discriminate].
    - destruct (prefix_rest t (String b s)) eqn:E.
      + inversion H; subst. exists "". cbn. clear - E. revert E. generalize (String b s) as u.
        induction t as [|a t IH]; intros u E; cbn in *; [now inversion E|].
        destruct u as [|c u]; [discriminate|]. destruct (Ascii.eqb_spec a c); [|discriminate]. subst. now rewrite (IH u E).
      + destruct (IH H) as [p ->]. now exists (String b p). }
  destruct D as [p ->]. rewrite <- app_assoc_s. apply after_app.
Qed.

Lemma in_order_mono ts : forall s q, in_order ts s = true -> in_order ts (q ++ s) = true.
Proof.
  induction ts as [|t ts IH]; intros s q H; [reflexivity|]. cbn in *.
  destruct (after t s) as [r|] eqn:A; [|discriminate].
  destruct (after_mono t s r q A) as [r' [-> [q' ->]]]. now apply IH.
Qed.

(* ---------- an ordered embedding of tokens in a text ---------- *)
Inductive Embeds : list string -> string -> Prop :=
| E_nil s : Embeds [] s
| E_cons t ts p r : Embeds ts r -> Embeds (t :: ts) (p ++ t ++ r).

Lemma embeds_in_order ts s : Embeds ts s -> in_order ts s = true.
Proof.
  induction 1 as [|t ts p r H IH]; [reflexivity|]. cbn.
  destruct (after_app p t r) as [r' [-> [q ->]]]. now apply in_order_mono.
Qed.

Lemma embeds_prepend ts s q : Embeds ts s -> Embeds ts (q ++ s).
Proof. destruct 1 as [|t ts p r H]; [constructor|]. rewrite <- app_assoc_s. now constructor. Qed.

Lemma embeds_app ts1 ts2 s1 s2 : Embeds ts1 s1 -> Embeds ts2 s2 -> Embeds (ts1 ++ ts2)%list (s1 ++ s2).
Proof.
  induction 1 as [s|t ts p r H IH]; intros H2; cbn.
  - now apply embeds_prepend.
  - rewrite !app_assoc_s. constructor. now apply IH.
Qed.

Lemma embeds_one t p r : Embeds [t] (p ++ t ++ r).
Proof. constructor. constructor. Qed.

Lemma embeds_append_right ts s q : Embeds ts s -> Embeds ts (s ++ q).
Proof.
  induction 1 as [|t ts p r H IH]; [constructor|]. rewrite !app_assoc_s. now constructor.
Qed.

Lemma app_nil_r_s (a : string) : a ++ "" = a.
Proof. induction a as [|x a IH]; cbn; [reflexivity|now rewrite IH]. Qed.

Lemma embeds_self t : Embeds [t] t.
Proof. pose proof (embeds_one t "" "") as H. cbn in H. now rewrite app_nil_r_s in H. Qed.
Lemma embeds_suffix t p : Embeds [t] (p ++ t).
Proof. pose proof (embeds_one t p "") as H. now rewrite app_nil_r_s in H. Qed.
Lemma embeds_nil_any s : Embeds [] s.
Proof. constructor. Qed.

(* ---------- every part of the detail block shows its tokens, in order ---------- *)
Lemma embeds_fields indent all :
  Embeds (map (fun nv : string * fval => fst nv ++ ": ") all) (String.concat "" (map (fmt_field indent) all)).
Proof.
  induction all as [|nv r IH]; [constructor|].
  cbn [map]. replace (String.concat "" (fmt_field indent nv :: map (fmt_field indent) r))
    with (fmt_field indent nv ++ String.concat "" (map (fmt_field indent) r)).
  - apply (embeds_app [fst nv ++ ": "] _ _ _); [|exact IH].
    unfold fmt_field. replace (nl ++ indent ++ "  " ++ fst nv ++ ": " ++ _)
      with ((nl ++ indent ++ "  ") ++ (fst nv ++ ": ") ++
            (let v := fv_plus (snd nv) in if has_nl v then "|" ++ nl ++ String.concat "" (map (fun l => indent ++ "    " ++ l ++ nl) (split_nl v)) else v)).
    + apply embeds_one.
    + now rewrite !app_assoc_s.
  - destruct (map (fmt_field indent) r) eqn:E; cbn; [now rewrite app_nil_r_s|reflexivity].
Qed.

Definition frame_tokens (f : frame) : list string :=
  if str_eqb (fr_file f) "" then [] else [fr_func f; fr_file f ++ ":" ++ dec_Z (fr_line f)].

Lemma embeds_frame indent src f : Embeds (frame_tokens f) (fmt_frame indent src f).
Proof.
  unfold frame_tokens, fmt_frame. destruct (str_eqb (fr_file f) ""); [constructor|].
  set (tail := match src with Some s => _ | None => "" end).
  replace (nl ++ indent ++ "  " ++ fr_func f ++ nl ++ indent ++ "    " ++ fr_file f ++ ":" ++ dec_Z (fr_line f) ++ tail)
    with ((nl ++ indent ++ "  ") ++ fr_func f ++ ((nl ++ indent ++ "    ") ++ (fr_file f ++ ":" ++ dec_Z (fr_line f)) ++ tail)).
  - constructor. apply embeds_one.
  - now rewrite !app_assoc_s.
Qed.

Lemma concat_cons_s x l : String.concat "" (x :: l) = x ++ String.concat "" l.
Proof. destruct l; cbn; [now rewrite app_nil_r_s|reflexivity]. Qed.

Lemma embeds_concat (tss : list (list string)) (ss : list string) :
  Forall2 Embeds tss ss -> Embeds (List.concat tss) (String.concat "" ss).
Proof.
  induction 1 as [|ts s tss ss H _ IH]; [constructor|].
  cbn [List.concat]. rewrite concat_cons_s. now apply embeds_app.
Qed.

Lemma embeds_stack m indent e :
  Embeds (flat_map frame_tokens (e_stack e)) (fmt_stack m indent e).
Proof.
  unfold fmt_stack. destruct (src_settings e) as [sl sd]. rewrite flat_map_concat_map.
  apply embeds_concat.
  generalize 0 as start. induction (e_stack e) as [|f r IH]; intros start; cbn; [constructor|].
  constructor; [apply embeds_frame|apply IH].
Qed.

Lemma embeds_details m e indent hc : is_errdef_error e = true ->
  Embeds (node_tokens e) (fmt_details m e indent hc).
Proof.
  intros He. unfold node_tokens, fmt_details. rewrite He.
  apply (embeds_app [err_msg e]); [apply embeds_self|].
  apply (embeds_app []); [constructor|].
  apply embeds_app; [destruct (str_eqb (e_kind e) ""); [constructor|]|].
  - replace (nl ++ indent ++ "kind: " ++ e_kind e) with ((nl ++ indent) ++ ("kind: " ++ e_kind e)) by now rewrite !app_assoc_s.
    apply embeds_suffix.
  - apply embeds_app.
    + destruct (e_fields_all e) as [|x all] eqn:Ea; [constructor|].
      replace (nl ++ indent ++ "fields:" ++ String.concat "" (map (fmt_field indent) (x :: all)))
        with ((nl ++ indent) ++ "fields:" ++ String.concat "" (map (fmt_field indent) (x :: all))) by now rewrite !app_assoc_s.
      constructor. apply embeds_fields.
    + destruct (e_stack e) as [|f r] eqn:Es; [constructor|].
      replace (nl ++ indent ++ "stack:" ++ fmt_stack m indent e)
        with ((nl ++ indent) ++ "stack:" ++ fmt_stack m indent e) by now rewrite !app_assoc_s.
      constructor. pose proof (embeds_stack m indent e) as H. now rewrite Es in H.
Qed.

Lemma embeds_header indent n : Embeds (header_token n) (causes_header indent n).
Proof.
  unfold header_token, causes_header. destruct n as [|[|n]]; [constructor| |].
  - cbn [Nat.eqb]. replace (nl ++ indent ++ "causes: (" ++ "1 error" ++ ")") with ((nl ++ indent) ++ "causes: (1 error)") by now rewrite !app_assoc_s.
    apply embeds_suffix.
  - cbn [Nat.eqb]. replace (nl ++ indent ++ "causes: (" ++ (dec_nat (S (S n)) ++ " errors") ++ ")")
      with ((nl ++ indent) ++ ("causes: (" ++ dec_nat (S (S n)) ++ " errors)")) by (rewrite !app_assoc_s; reflexivity).
    apply embeds_suffix.
Qed.

(* ---------- the whole tree, depth first ---------- *)
Lemma embeds_kids m indent (l : list tree) :
  Forall (fun t => forall ind i, Embeds (tree_tokens t) (fmt_node m ind i t)) l ->
  forall j, Forall2 Embeds (map tree_tokens l)
    ((fix go (j0 : nat) (l0 : list tree) {struct l0} : list string :=
        match l0 with [] => [] | k0 :: r0 => fmt_node m indent j0 k0 :: go (S j0) r0 end) j l).
Proof.
  induction l as [|x l IHl]; intros IH j; cbn; [constructor|]. inversion IH; subst.
  constructor; [apply H1|now apply IHl].
Qed.

Theorem embeds_node m : forall t indent i, Embeds (tree_tokens t) (fmt_node m indent i t).
Proof.
  induction t as [e kids IH] using tree_ind'. intros indent i. cbn [tree_tokens fmt_node].
  apply embeds_prepend. apply embeds_prepend. apply embeds_prepend. apply embeds_prepend. apply embeds_prepend.
  apply embeds_app.
  - destruct (is_errdef_error e) eqn:He; [now apply embeds_details|].
    unfold node_tokens. rewrite He. apply embeds_append_right. apply embeds_self.
  - destruct (Nat.eqb (List.length kids) 0) eqn:En.
    + destruct kids; [constructor|discriminate].
    + apply embeds_app; [apply embeds_header|].
      rewrite flat_map_concat_map. apply embeds_concat. now apply embeds_kids.
Qed.

Theorem plus_v_complete_in_order m e :
  (match e_def e with Some d => d_fmt d | None => None end) = None ->
  is_errdef_error e = true ->
  in_order (tree_tokens (tree_of e)) (format_error m "+v" e) = true.
Proof.
  intros Hf He. apply embeds_in_order. unfold format_error. rewrite Hf. unfold unwrap_tree.
  destruct (tree_of e) as [e' kids] eqn:T.
  assert (e' = e) by (destruct e; cbn in T; inversion T; reflexivity). subst e'.
  cbn [t_kids tree_tokens]. apply embeds_app; [now apply embeds_details|].
  destruct (Nat.eqb (List.length kids) 0) eqn:En.
  - destruct kids; [constructor|discriminate].
  - apply embeds_app; [apply embeds_header|].
    unfold fmt_nodes. rewrite flat_map_concat_map. apply embeds_concat. apply embeds_kids.
    apply Forall_forall. intros t _. apply embeds_node.
Qed.

(* ---------- plain verbs, formatter, snippets ---------- *)
Theorem plain_verbs m e :
  (match e_def e with Some d => d_fmt d | None => None end) = None ->
  format_error m "s" e = err_msg e /\ format_error m "v" e = err_msg e /\ format_error m "q" e = go_quote (err_msg e).
Proof. intros H. unfold format_error. rewrite H. repeat split; reflexivity. Qed.

Theorem formatter_replaces m e id verb :
  (match e_def e with Some d => d_fmt d | None => None end) = Some id ->
  format_error m verb e = custom_fmt id (match verb with "+v" => "v" | x => x end) (err_msg e).
Proof. intros H. unfold format_error. now rewrite H. Qed.

(* nested nodes are rendered by formatErrorDetails: whether their definition carries a
   Formatter does not matter *)
Definition strip_fmt_def (d : defn) : defn :=
  {| d_addr := d_addr d; d_root := d_root d; d_org := d_org d; d_kind := d_kind d; d_fields := d_fields d;
     d_notrace := d_notrace d; d_skip := d_skip d; d_depth := d_depth d;
     d_srclines := d_srclines d; d_srcdepth := d_srcdepth d;
     d_fmt := None; d_json := d_json d; d_log := d_log d |}.
Definition strip_fmt (e : err) : err :=
  match e with
  | EDef a d m c j s => EDef a (strip_fmt_def d) m c j s
  | ERest a d m rf s cs => ERest a (strip_fmt_def d) m rf s cs
  | _ => e
  end.

Theorem nested_formatter_not_invoked m indent i e kids :
  fmt_node m indent i (T e kids) = fmt_node m indent i (T (strip_fmt e) kids).
Proof. destruct e; reflexivity. Qed.

(* snippets only when StackSource is enabled and only for the configured frames *)
Theorem no_snippet_when_disabled sl sd i f :
  (sl <= 0)%Z \/ sd = 0%Z \/ (0 < sd /\ sd <= Z.of_nat i)%Z -> want_source sl sd i f = false.
Proof.
  unfold want_source. intros [H|[H|[H1 H2]]].
  - destruct (Z.ltb_spec 0 sl); [lia|reflexivity].
  - subst. cbn. now rewrite !andb_false_r.
  - destruct (Z.ltb 0 sl); [|reflexivity]. destruct (negb _); [|reflexivity]. cbn.
    destruct (Z.eqb_spec sd (-1)); [lia|]. destruct (Z.ltb_spec (Z.of_nat i) sd); [lia|]. now rewrite andb_false_r.
Qed.

Theorem frame_without_source indent f :
  fmt_frame indent None f =
  if str_eqb (fr_file f) "" then ""
  else nl ++ indent ++ "  " ++ fr_func f ++ nl ++ indent ++ "    " ++ fr_file f ++ ":" ++ dec_Z (fr_line f) ++ "".
Proof. reflexivity. Qed.

(* the main part of the oracle follows from the correspondence *)
Definition ok1_main (s : st) (given : list rlit) (m : srcmap) (o : obs1) : bool :=
  match subject_err s given (o_subject o) with
  | Some e =>
      match (match e_def e with Some d => d_fmt d | None => None end) with
      | Some id =>
          str_eqb (o_s o) (custom_fmt id "s" (err_msg e)) && str_eqb (o_v o) (custom_fmt id "v" (err_msg e)) &&
          str_eqb (o_q o) (custom_fmt id "q" (err_msg e)) && str_eqb (o_plus o) (custom_fmt id "v" (err_msg e))
      | None =>
          str_eqb (o_s o) (err_msg e) && str_eqb (o_v o) (err_msg e) && str_eqb (o_q o) (go_quote (err_msg e)) &&
          in_order (tree_tokens (tree_of e)) (o_plus o)
      end
  | None => false
  end.

Theorem corr_implies_ok_main s given m o :
  (forall e, subject_err s given (o_subject o) = Some e -> is_errdef_error e = true) ->
  corr1 s given m o = true -> ok1_main s given m o = true.
Proof.
  unfold corr1, ok1_main. intros Hs H. destruct (subject_err s given (o_subject o)) as [e|] eqn:E; [|discriminate].
  apply andb_true_iff in H as [H H4]. apply andb_true_iff in H as [H H3]. apply andb_true_iff in H as [H1 H2].
  destruct (match e_def e with Some d => d_fmt d | None => None end) as [id|] eqn:F.
  - rewrite (formatter_replaces m e id "s" F) in H1. rewrite (formatter_replaces m e id "v" F) in H2.
    rewrite (formatter_replaces m e id "q" F) in H3. rewrite (formatter_replaces m e id "+v" F) in H4.
    now rewrite H1, H2, H3, H4.
  - destruct (plain_verbs m e F) as [A [B C]]. rewrite A in H1. rewrite B in H2. rewrite C in H3.
    rewrite H1, H2, H3. cbn [andb]. apply str_eqb_eq in H4. rewrite H4.
    apply plus_v_complete_in_order; [exact F|now apply Hs].
Qed.
