(* The unmarshaler's entry points AS TRANSLATED FROM THE SOURCE (Gen/GoLiteSrc.v, run by the GoLite interpreter with the
   primitives of Model/UnmarshalGL.v) compute exactly what the hand-written model Model/Unmarshal.v computes - for every
   configuration, every decoded tree of any depth (nil nodes included) and every sufficient fuel.  Every theorem about
   [unmarshal] / [unmarshal_cause] / [unmarshal_top] (C09, C10, C12, C13, C20) is thereby a theorem about the code srcgen
   read from /repo in this run; an edit of unmarshaler/unmarshaler.go changes Gen/GoLiteSrc.v and this file has to check
   again.

   Method: symbolic execution of the generated bodies by [cbn] over environments of fixed shape, one lemma per loop (the
   definition keys, the custom keys, the decoded fields, the causes, the nested causes), stated over an abstract [call]
   that is later instantiated with [run n]; the loops' bodies are named through accessors into the generated syntax
   (seq_nth / range_body), the skeletons that re-assemble a body from them are checked by [reflexivity]. *)
From Errdef Require Import Base.Str Base.Outcome Model.Core Model.Convert Model.Unmarshal Model.GoLite Model.GoLiteFacts Model.UnmarshalGL.
From Errdef Require Gen.GoLiteSrc.
From Errdef Require Import Proofs.C10Proofs Proofs.SortFields.
From Coq Require Import Permutation.
Import GoLiteSrc.

Arguments sort_strs : simpl never.
Arguments resolve_kind_u : simpl never.
Arguments resolve_kind_def : simpl never.
Arguments try_convert : simpl never.
Arguments named : simpl never.
Arguments lookup_sentinel : simpl never.
Arguments fields_entries : simpl never.
Arguments map_index : simpl never.
Arguments entry_names : simpl never.
Arguments cause_vals : simpl never.
Arguments key_vals : simpl never.
Arguments typed_of : simpl never.
Arguments unknown_of : simpl never.
Arguments causes_of : simpl never.
Arguments append_val : simpl never.
Arguments len_val : simpl never.

Definition body1 : stmt := Eval cbv in fn_body um_fn1.
Definition names1 : list string := Eval cbv in fn_names um_fn1.
Definition E1 (vals : list (value dom)) : env dom := combine names1 vals.
Definition fields_body : stmt := Eval cbv in range_body (seq_nth body1 5).
Definition keys_body : stmt := Eval cbv in range_body (seq_nth fields_body 4).
Definition custom_body : stmt := Eval cbv in range_body (seq_nth (if_then (seq_nth fields_body 5)) 0).

Tactic Notation "vals23" ident(vals) ident(H) :=
  do 23 (destruct vals as [|? vals]; [discriminate H|]); destruct vals; [clear H|discriminate H].

Ltac ex4 := first [ solve [do 4 eexists; reflexivity] | solve [exists VNil, VNil, VNil, VNil; reflexivity] ].

Section WithCall.
Variable call : string -> list (value dom) -> ires (value dom).

Lemma keys_loop : forall ks vals i v T,
  List.length vals = 23%nat -> nth 7 vals VNil = VD (DVal v) -> nth 4 vals VNil = VMap T ->
  exists g11 g12 g13 g14,
  range_loop dom (exec dom um_ext um_funs call keys_body) "_" "v11" i (key_vals ks) (E1 vals) =
    match first_convert ks v with
    | Ok (Some (k, b)) =>
        match map_set dom um_ext (VD (DKey k)) (VD (DBound b)) T with
        | Some T' => IOk (E1 (upd 4 (VMap T') (upd 9 (VBool true) (upd 11 g11 (upd 12 g12 (upd 13 g13 (upd 14 g14 vals)))))), CNext)
        | None => IStuck "map key comparison"
        end
    | Ok None => IOk (E1 (upd 11 g11 (upd 12 g12 (upd 13 g13 (upd 14 g14 vals)))), CNext)
    | Fail _ => IOk (E1 (upd 11 g11 (upd 12 g12 (upd 13 g13 (upd 14 g14 vals)))), CRet [VNil; VD (DErr internal_failure)])
    | Panic w => IPanic w
    end.
Proof.
  induction ks as [|k r IH]; intros vals i v T Hlen H7 H4.
  - vals23 vals Hlen. cbn in H7, H4. subst. cbn. ex4.
  - vals23 vals Hlen. cbn in H7, H4. subst.
    unfold key_vals; cbn [map range_loop first_convert]; fold (key_vals r).
    Time cbn.
    destruct (try_convert (uk_ty k) v) as [[b|]|cls|w] eqn:Etc; cbn.
    + destruct (map_set dom um_ext (VD (DKey k)) (VD (DBound b)) T); cbn; ex4.
    + match goal with |- context [range_loop _ _ _ _ ?i' _ ?en] =>
        let vals' := eval cbv [map snd] in (map snd en) in
        destruct (IH vals' i' v T eq_refl eq_refl eq_refl) as (g11 & g12 & g13 & g14 & Hr) end.
      unfold E1 in Hr. cbn in Hr |- *. rewrite Hr.
      destruct (first_convert r v) as [[[k' b']|]|cls|w]; cbn.
      * destruct (map_set dom um_ext (VD (DKey k')) (VD (DBound b')) T); ex4.
      * ex4.
      * ex4.
      * ex4.
    + ex4.
    + ex4.
Time Qed.

Lemma named_cons n k r : named n (k :: r) = if str_eqb (k_name (uk_key k)) n then k :: named n r else named n r.
Proof. reflexivity. Qed.

Lemma custom_loop : forall ks vals i v n T,
  List.length vals = 23%nat -> nth 7 vals VNil = VD (DVal v) -> nth 6 vals VNil = VStr n -> nth 4 vals VNil = VMap T ->
  exists g15 g16 g17 g18,
  range_loop dom (exec dom um_ext um_funs call custom_body) "_" "v15" i (key_vals ks) (E1 vals) =
    match first_convert (named n ks) v with
    | Ok (Some (k, b)) =>
        match map_set dom um_ext (VD (DKey k)) (VD (DBound b)) T with
        | Some T' => IOk (E1 (upd 4 (VMap T') (upd 9 (VBool true) (upd 15 g15 (upd 16 g16 (upd 17 g17 (upd 18 g18 vals)))))), CNext)
        | None => IStuck "map key comparison"
        end
    | Ok None => IOk (E1 (upd 15 g15 (upd 16 g16 (upd 17 g17 (upd 18 g18 vals)))), CNext)
    | Fail _ => IOk (E1 (upd 15 g15 (upd 16 g16 (upd 17 g17 (upd 18 g18 vals)))), CRet [VNil; VD (DErr internal_failure)])
    | Panic w => IPanic w
    end.
Proof.
  induction ks as [|k r IH]; intros vals i v n T Hlen H7 H6 H4.
  - vals23 vals Hlen. cbn in H7, H6, H4. subst. cbn. ex4.
  - vals23 vals Hlen. cbn in H7, H6, H4. subst.
    rewrite named_cons. unfold key_vals; cbn [map range_loop]; fold (key_vals r).
    cbn.
    destruct (str_eqb (k_name (uk_key k)) n) eqn:En; cbn.
    + destruct (try_convert (uk_ty k) v) as [[b|]|cls|w] eqn:Etc; cbn.
      * destruct (map_set dom um_ext (VD (DKey k)) (VD (DBound b)) T); cbn; ex4.
      * match goal with |- context [range_loop _ _ _ _ ?i' _ ?en] =>
          let vals' := eval cbv [map snd] in (map snd en) in
          destruct (IH vals' i' v n T eq_refl eq_refl eq_refl eq_refl) as (g15 & g16 & g17 & g18 & Hr) end.
        unfold E1 in Hr. cbn in Hr |- *. rewrite Hr.
        destruct (first_convert (named n r) v) as [[[k' b']|]|cls|w]; cbn.
        -- destruct (map_set dom um_ext (VD (DKey k')) (VD (DBound b')) T); ex4.
        -- ex4.
        -- ex4.
        -- ex4.
      * ex4.
      * ex4.
    + match goal with |- context [range_loop _ _ _ _ ?i' _ ?en] =>
          let vals' := eval cbv [map snd] in (map snd en) in
          destruct (IH vals' i' v n T eq_refl eq_refl eq_refl eq_refl) as (g15 & g16 & g17 & g18 & Hr) end.
      unfold E1 in Hr. cbn in Hr |- *. rewrite Hr.
      destruct (first_convert (named n r) v) as [[[k' b']|]|cls|w]; cbn.
      * destruct (map_set dom um_ext (VD (DKey k')) (VD (DBound b')) T); ex4.
      * ex4.
      * ex4.
      * ex4.
Time Qed.

(* ---- the maps of typed and unknown fields ---- *)
Definition encT (T : list (ukey * bval)) : list (value dom * value dom) :=
  map (fun kb => (VD (DKey (fst kb)), VD (DBound (snd kb)))) T.

(* an entry of the unknown-fields map: the name and a value that decodes to the model's *)
Definition invU (Ugl : list (value dom * value dom)) (U : list (string * dval)) : Prop :=
  Forall2 (fun g m => exists x, g = (VStr (fst m), x) /\ dval_of x = Some (snd m)) Ugl U.

Lemma map_set_T k x T :
  Forall (fun kb => k_name (uk_key (fst kb)) <> k_name (uk_key k)) T ->
  map_set dom um_ext (VD (DKey k)) x (encT T) = Some (encT T ++ [(VD (DKey k), x)]).
Proof.
  induction T as [|[k' b'] r IH]; intros H; cbn; [reflexivity|].
  inversion H as [|? ? Hn Hr]; subst. cbn in Hn.
  unfold val_eqb. cbn. unfold ukey_same.
  destruct (str_eqb (k_name (uk_key k)) (k_name (uk_key k'))) eqn:E.
  - apply str_eqb_eq in E. congruence.
  - rewrite andb_false_r. fold (encT r). rewrite (IH Hr). reflexivity.
Qed.

Lemma map_set_U n x Ugl U :
  invU Ugl U -> Forall (fun nu => fst nu <> n) U ->
  map_set dom um_ext (VStr n) x Ugl = Some (Ugl ++ [(VStr n, x)]).
Proof.
  intros H; induction H as [|g m gl ml (y & -> & Hy) _ IH]; intros F; cbn; [reflexivity|].
  inversion F as [|? ? Hn Hr]; subst.
  unfold val_eqb. cbn.
  destruct (str_eqb n (fst m)) eqn:E.
  - apply str_eqb_eq in E. congruence.
  - rewrite (IH Hr). reflexivity.
Qed.

Lemma invU_app Ugl U n x d : invU Ugl U -> dval_of x = Some d -> invU (Ugl ++ [(VStr n, x)]) (U ++ [(n, d)]).
Proof.
  intros H Hx. apply Forall2_app; [exact H|]. constructor; [|constructor]. exists x. split; [reflexivity|exact Hx].
Qed.

Lemma typed_of_encT T : typed_of (VMap (encT T)) = Some T.
Proof. unfold typed_of, encT. induction T as [|[k b] r IH]; simpl; [reflexivity|]. rewrite IH. reflexivity. Qed.

Lemma unknown_of_invU Ugl U : invU Ugl U -> unknown_of (VMap Ugl) = Some U.
Proof.
  intros H. unfold unknown_of. induction H as [|g [n d] gl ml (y & -> & Hy) _ IH]; simpl; [reflexivity|].
  simpl in Hy. rewrite Hy, IH. reflexivity.
Qed.


Fixpoint splice (i : nat) (gs l : list (value dom)) : list (value dom) :=
  match i, l with
  | _, [] => []
  | O, _ :: r => match gs with [] => l | g :: gr => g :: splice O gr r end
  | S j, y :: r => y :: splice j gs r
  end.

Lemma index_fields n v d :
  find (fun nv => str_eqb n (fst nv)) (dd_fields d) = Some (n, v) ->
  map_index (VStr n) (fields_entries d) = VD (DVal v).
Proof.
  unfold map_index, fields_entries. induction (dd_fields d) as [|[m w] r IH]; simpl; [discriminate|].
  destruct (str_eqb n m) eqn:E; [intros H; inversion H; subst; reflexivity|exact IH].
Qed.

Lemma first_convert_named n ks v k b : first_convert (named n ks) v = Ok (Some (k, b)) -> k_name (uk_key k) = n.
Proof.
  unfold named. induction ks as [|k' r IH]; simpl; [discriminate|].
  destruct (str_eqb (k_name (uk_key k')) n) eqn:E; [|exact IH].
  simpl. destruct (try_convert (uk_ty k') v) as [[b'|]|?|?]; try discriminate; [|exact IH].
  intros H; inversion H; subst. now apply str_eqb_eq.
Qed.

Fixpoint seq_drop (s : stmt) (i : nat) : stmt :=
  match i, s with
  | O, _ => s
  | S j, SSeq _ b => seq_drop b j
  | S _, _ => SSkip
  end.
Definition fields_rest : stmt := Eval cbv in seq_drop fields_body 4.
Definition fields_pre : stmt := Eval cbv in
  SSeq (seq_nth fields_body 0) (SSeq (seq_nth fields_body 1) (SSeq (seq_nth fields_body 2) (seq_nth fields_body 3))).

Definition bind_rest (c : ucfg) (d : udef) (kind name : string) (v : dval) : fres :=
  match first_convert (named name (ud_keys d)) v with
  | Ok (Some (k, b)) => FTyped k b
  | Fail _ => FFail {| fl_class := cls_internal; fl_kind := ""; fl_field := "" |}
  | Panic w => FPanic w
  | Ok None =>
      match first_convert (named name (u_custom c)) v with
      | Ok (Some (k, b)) => FTyped k b
      | Fail _ => FFail {| fl_class := cls_internal; fl_kind := ""; fl_field := "" |}
      | Panic w => FPanic w
      | Ok None =>
          if u_strict c then FFail {| fl_class := cls_field; fl_kind := kind; fl_field := name |}
          else FUnknown v
      end
  end.

Definition field_spec (r : fres) (T : list (ukey * bval)) (U : list (string * dval)) (n : string)
    (vals : list (value dom)) (res : ires (env dom * ctl dom)) : Prop :=
  match r with
  | FTyped k b => exists gs ct, List.length gs = 12%nat /\ (ct = CNext \/ ct = CCont) /\
      res = IOk (E1 (splice 7 gs (upd 4 (VMap (encT (T ++ [(k, b)]))) vals)), ct)
  | FUnknown x => exists gs ct Ugl', List.length gs = 12%nat /\ (ct = CNext \/ ct = CCont) /\ invU Ugl' (U ++ [(n, x)]) /\
      res = IOk (E1 (splice 7 gs (upd 5 (VMap Ugl') vals)), ct)
  | FFail f => exists en', res = IOk (en', CRet [VNil; VD (DErr f)])
  | FPanic w => res = IPanic w
  end.

Ltac gs12 := match goal with |- exists gs : list _, _ => eexists [_;_;_;_;_;_;_;_;_;_;_;_] end.

Definition rest3 : stmt := Eval cbv in seq_drop (if_then (seq_nth fields_body 5)) 1.
Definition rest_stmt : stmt :=
  SSeq (SRange "_" "v11" (EVar "v8") keys_body)
       (SIf SSkip (ENot (EVar "v9"))
            (SSeq (SRange "_" "v15" (ECall ".customFieldKeys" [EVar "v0"]) custom_body) rest3) SSkip).
Lemma rest_ok : fields_rest = rest_stmt.
Proof. reflexivity. Qed.
Arguments keys_body : simpl never.
Arguments custom_body : simpl never.

Lemma field_rest c d def n v vals T Ugl U :
  List.length vals = 23%nat ->
  nth 0 vals VNil = VD (DU c) -> nth 1 vals VNil = VD (DNode d) -> nth 2 vals VNil = VD (DDef def) ->
  nth 4 vals VNil = VMap (encT T) -> nth 5 vals VNil = VMap Ugl -> nth 6 vals VNil = VStr n ->
  nth 7 vals VNil = VD (DVal v) -> nth 8 vals VNil = VList (key_vals (named n (ud_keys def))) ->
  nth 9 vals VNil = VBool false ->
  invU Ugl U ->
  Forall (fun kb => k_name (uk_key (fst kb)) <> n) T ->
  Forall (fun nu => fst nu <> n) U ->
  field_spec (bind_rest c def (dd_kind d) n v) T U n vals (exec dom um_ext um_funs call fields_rest (E1 vals)).
Proof.
  intros Hlen H0 H1 H2 H4 H5 H6 H7 H8 H9 HU FT FU.
  vals23 vals Hlen. cbn in H0, H1, H2, H4, H5, H6, H7, H8, H9. subst.
  rewrite rest_ok. unfold bind_rest, rest_stmt.
  cbn.
  match goal with |- context [range_loop _ _ _ _ ?i' _ ?en] =>
    let vals' := eval cbv [map snd] in (map snd en) in
    destruct (keys_loop (named n (ud_keys def)) vals' i' v (encT T) eq_refl eq_refl eq_refl) as (g11 & g12 & g13 & g14 & Hr) end.
  unfold E1 in Hr. cbn in Hr. rewrite Hr. clear Hr.
  destruct (first_convert (named n (ud_keys def)) v) as [[[k b]|]|cls|w] eqn:Efc; cbn.
  - (* bound to a definition key *)
    rewrite map_set_T.
    2:{ apply first_convert_named in Efc. rewrite Efc. exact FT. }
    cbn. gs12. exists CNext. split; [reflexivity|]. split; [now left|].
    unfold encT. rewrite map_app. reflexivity.
  - (* no definition key accepted: the custom keys *)
    match goal with |- context [range_loop _ _ _ _ ?i' _ ?en] =>
      let vals' := eval cbv [map snd] in (map snd en) in
      destruct (custom_loop (u_custom c) vals' i' v n (encT T) eq_refl eq_refl eq_refl eq_refl) as (g15 & g16 & g17 & g18 & Hr) end.
    unfold E1 in Hr. cbn in Hr. rewrite Hr. clear Hr.
    destruct (first_convert (named n (u_custom c)) v) as [[[k b]|]|cls|w] eqn:Efc2; cbn.
    + rewrite map_set_T.
      2:{ apply first_convert_named in Efc2. rewrite Efc2. exact FT. }
      cbn. gs12. exists CCont. split; [reflexivity|]. split; [now right|].
      unfold encT. rewrite map_app. reflexivity.
    + destruct (u_strict c); cbn.
      * eexists. reflexivity.
      * rewrite (map_set_U n (VD (DVal v)) Ugl U HU FU). cbn.
        gs12. exists CNext. exists (Ugl ++ [(VStr n, VD (DVal v))]). split; [reflexivity|]. split; [now left|].
        split; [apply invU_app; [exact HU|reflexivity]|]. reflexivity.
    + eexists. reflexivity.
    + reflexivity.
  - eexists. reflexivity.
  - reflexivity.
Time Qed.

Definition fs0 : stmt := Eval cbv in seq_nth fields_body 0.
Definition fs1 : stmt := Eval cbv in seq_nth fields_body 1.
Definition fs2 : stmt := Eval cbv in seq_nth fields_body 2.
Definition fs3 : stmt := Eval cbv in seq_nth fields_body 3.
Lemma fields_body_ok : fields_body = SSeq fs0 (SSeq fs1 (SSeq fs2 (SSeq fs3 fields_rest))).
Proof. reflexivity. Qed.
Arguments fields_rest : simpl never.

Lemma bind_field_rest c def kind n v :
  bind_field c def kind n v =
  if is_placeholder v then FUnknown (DS {| s_id := 1; s_kind := KString |} (SStr redacted_str))
  else bind_rest c def kind n v.
Proof. reflexivity. Qed.

(* after the type switch: hand over to field_rest; the slots 7..18 are scratch *)
Ltac hand_over c d def n v T Ugl U HU FT FU :=
  let R := fresh "R" in
  let gs := fresh "gs" in let ct := fresh "ct" in let Hl := fresh "Hl" in let Hc := fresh "Hc" in
  let Ugl' := fresh "Ugl'" in let HU' := fresh "HU'" in let en' := fresh "en'" in
  match goal with |- field_spec _ _ _ _ _ (exec _ _ _ _ fields_rest ?en) =>
    let vals' := eval cbv [map snd] in (map snd en) in
    pose proof (field_rest c d def n v vals' T Ugl U eq_refl eq_refl eq_refl eq_refl eq_refl eq_refl eq_refl eq_refl eq_refl eq_refl HU FT FU) as R
  end;
  unfold field_spec in *; unfold E1 in *; cbn [combine names1] in *;
  destruct (bind_rest c def (dd_kind d) n v);
  [ destruct R as (gs & ct & Hl & Hc & ->); do 12 (destruct gs as [|? gs]; [discriminate Hl|]); destruct gs; [|discriminate Hl];
    gs12; exists ct; split; [reflexivity|]; split; [exact Hc|]; reflexivity
  | destruct R as (gs & ct & Ugl' & Hl & Hc & HU' & ->); do 12 (destruct gs as [|? gs]; [discriminate Hl|]); destruct gs; [|discriminate Hl];
    gs12; exists ct; exists Ugl'; split; [reflexivity|]; split; [exact Hc|]; split; [exact HU'|]; reflexivity
  | destruct R as (en' & ->); eexists; reflexivity
  | exact R ].

Lemma field_step c d def n v vals T Ugl U :
  List.length vals = 23%nat ->
  nth 0 vals VNil = VD (DU c) -> nth 1 vals VNil = VD (DNode d) -> nth 2 vals VNil = VD (DDef def) ->
  nth 4 vals VNil = VMap (encT T) -> nth 5 vals VNil = VMap Ugl -> nth 6 vals VNil = VStr n ->
  invU Ugl U ->
  find (fun nv => str_eqb n (fst nv)) (dd_fields d) = Some (n, v) ->
  Forall (fun kb => k_name (uk_key (fst kb)) <> n) T ->
  Forall (fun nu => fst nu <> n) U ->
  field_spec (bind_field c def (dd_kind d) n v) T U n vals (exec dom um_ext um_funs call fields_body (E1 vals)).
Proof.
  intros Hlen H0 H1 H2 H4 H5 H6 HU Hfind FT FU.
  vals23 vals Hlen. cbn in H0, H1, H2, H4, H5, H6. subst.
  rewrite fields_body_ok, bind_field_rest.
  cbn [exec E1 combine names1]. unfold fs0 at 1. cbn.
  rewrite (index_fields _ _ _ Hfind). cbn.
  destruct v as [|t sv|id tbl|bs|id kd conv].
  - cbn. hand_over c d def n DNil T Ugl U HU FT FU.
  - destruct sv as [b|s|z|z|z].
    + cbn. hand_over c d def n (DS t (SBool b)) T Ugl U HU FT FU.
    + cbn. destruct (N.eqb (s_id t) 1) eqn:Et; cbn.
      * destruct (str_eqb s redacted_str) eqn:Es; cbn.
        -- rewrite (map_set_U n (VStr redacted_str) Ugl U HU FU). cbn.
           gs12. exists CCont. exists (Ugl ++ [(VStr n, VStr redacted_str)]). split; [reflexivity|]. split; [now right|].
           split; [apply invU_app; [exact HU|reflexivity]|]. reflexivity.
        -- hand_over c d def n (DS t (SStr s)) T Ugl U HU FT FU.
      * hand_over c d def n (DS t (SStr s)) T Ugl U HU FT FU.
    + cbn. hand_over c d def n (DS t (SInt z)) T Ugl U HU FT FU.
    + cbn. hand_over c d def n (DS t (SF32 z)) T Ugl U HU FT FU.
    + cbn. hand_over c d def n (DS t (SF64 z)) T Ugl U HU FT FU.
  - cbn. hand_over c d def n (DJ id tbl) T Ugl U HU FT FU.
  - cbn. destruct (str_eqb bs redacted_json) eqn:Es; cbn.
    + rewrite (map_set_U n (VStr redacted_str) Ugl U HU FU). cbn.
      gs12. exists CCont. exists (Ugl ++ [(VStr n, VStr redacted_str)]). split; [reflexivity|]. split; [now right|].
      split; [apply invU_app; [exact HU|reflexivity]|]. reflexivity.
    + hand_over c d def n (DBytes bs) T Ugl U HU FT FU.
  - cbn. hand_over c d def n (DO id kd conv) T Ugl U HU FT FU.
Time Qed.


(* ---- the loop over the decoded fields ---- *)
Fixpoint mloop (c : ucfg) (def : udef) (kind : string) (l : list (string * dval))
    (T : list (ukey * bval)) (U : list (string * dval)) : ures (list (ukey * bval) * list (string * dval)) :=
  match l with
  | [] => UOk (T, U)
  | (n, v) :: r =>
      match bind_field c def kind n v with
      | FTyped k b => mloop c def kind r (T ++ [(k, b)]) U
      | FUnknown x => mloop c def kind r T (U ++ [(n, x)])
      | FFail f => UFail [f]
      | FPanic w => UPanic w
      end
  end.

Definition loop_spec (r : ures (list (ukey * bval) * list (string * dval))) (vals : list (value dom))
    (res : ires (env dom * ctl dom)) : Prop :=
  match r with
  | UOk (T', U') => exists gs Ugl', List.length gs = 13%nat /\ invU Ugl' U' /\
      res = IOk (E1 (splice 6 gs (upd 4 (VMap (encT T')) (upd 5 (VMap Ugl') vals))), CNext)
  | UFail [f] => exists en', res = IOk (en', CRet [VNil; VD (DErr f)])
  | UFail _ => False
  | UPanic w => res = IPanic w
  end.

Lemma bind_field_typed_name c def kind n v k b :
  bind_field c def kind n v = FTyped k b -> k_name (uk_key k) = n.
Proof.
  unfold bind_field. destruct (is_placeholder v); [discriminate|].
  destruct (first_convert (named n (ud_keys def)) v) as [[[k1 b1]|]|?|?] eqn:E1; try discriminate.
  - intros H; inversion H; subst. eapply first_convert_named; eassumption.
  - destruct (first_convert (named n (u_custom c)) v) as [[[k2 b2]|]|?|?] eqn:E2; try discriminate.
    + intros H; inversion H; subst. eapply first_convert_named; eassumption.
    + destruct (u_strict c); discriminate.
Qed.

Arguments fields_body : simpl never.

Ltac gs13 := match goal with |- exists gs : list _, _ => eexists [_;_;_;_;_;_;_;_;_;_;_;_;_] end.

Lemma fields_loop c d def : forall l vals i T Ugl U,
  List.length vals = 23%nat ->
  nth 0 vals VNil = VD (DU c) -> nth 1 vals VNil = VD (DNode d) -> nth 2 vals VNil = VD (DDef def) ->
  nth 4 vals VNil = VMap (encT T) -> nth 5 vals VNil = VMap Ugl -> invU Ugl U ->
  Forall (fun nv => find (fun x => str_eqb (fst nv) (fst x)) (dd_fields d) = Some nv) l ->
  NoDup (map fst l) ->
  Forall (fun kb => ~ In (k_name (uk_key (fst kb))) (map fst l)) T ->
  Forall (fun nu => ~ In (fst nu) (map fst l)) U ->
  loop_spec (mloop c def (dd_kind d) l T U) vals
    (range_loop dom (exec dom um_ext um_funs call fields_body) "_" "v6" i (map (fun nv => VStr (fst nv)) l) (E1 vals)).
Proof.
  induction l as [|[n v] r IH]; intros vals i T Ugl U Hlen H0 H1 H2 H4 H5 HU Hf Hnd FT FU.
  - vals23 vals Hlen. cbn in H0, H1, H2, H4, H5. subst. cbn. gs13. exists Ugl. split; [reflexivity|]. split; [exact HU|]. reflexivity.
  - vals23 vals Hlen. cbn in H0, H1, H2, H4, H5. subst.
    inversion Hf as [|? ? Hfn Hfr]; subst. inversion Hnd as [|? ? Hnin Hndr]; subst. cbn in Hfn, Hnin.
    assert (FTn : Forall (fun kb : ukey * bval => k_name (uk_key (fst kb)) <> n) T).
    { eapply Forall_impl; [|exact FT]. cbn. intros kb H E. apply H. now left. }
    assert (FUn : Forall (fun nu : string * dval => fst nu <> n) U).
    { eapply Forall_impl; [|exact FU]. cbn. intros nu H E. apply H. now left. }
    assert (FTr : Forall (fun kb : ukey * bval => ~ In (k_name (uk_key (fst kb))) (map fst r)) T).
    { eapply Forall_impl; [|exact FT]. cbn. intros kb H E. apply H. now right. }
    assert (FUr : Forall (fun nu : string * dval => ~ In (fst nu) (map fst r)) U).
    { eapply Forall_impl; [|exact FU]. cbn. intros nu H E. apply H. now right. }
    cbn [map range_loop fst mloop]. unfold E1. cbn [combine names1 bind1 update String.eqb Ascii.eqb Bool.eqb].
    match goal with |- context [exec _ _ _ _ fields_body ?en] =>
      let vals' := eval cbv [map snd] in (map snd en) in
      pose proof (field_step c d def n v vals' T Ugl U eq_refl eq_refl eq_refl eq_refl eq_refl eq_refl eq_refl HU Hfn FTn FUn) as R
    end.
    unfold E1 in R; cbn [combine names1] in R.
    destruct (bind_field c def (dd_kind d) n v) as [k b|x|f|w] eqn:Eb; unfold field_spec in R.
    + destruct R as (gs & ct & Hl & Hc & ->).
      do 12 (destruct gs as [|? gs]; [discriminate Hl|]); destruct gs; [|discriminate Hl].
      apply bind_field_typed_name in Eb.
      assert (FT' : Forall (fun kb : ukey * bval => ~ In (k_name (uk_key (fst kb))) (map fst r)) (T ++ [(k, b)])).
      { apply Forall_app. split; [exact FTr|]. constructor; [|constructor]. cbn. rewrite Eb. exact Hnin. }
      destruct Hc as [-> | ->]; cbn [ibind snd fst splice upd E1 combine names1];
      match goal with |- loop_spec _ _ (range_loop _ _ _ _ ?i' _ ?en) =>
        let vals' := eval cbv [map snd] in (map snd en) in
        pose proof (IH vals' i' (T ++ [(k, b)]) Ugl U eq_refl eq_refl eq_refl eq_refl eq_refl eq_refl HU Hfr Hndr FT' FUr) as R2
      end;
      unfold E1 in R2; cbn [combine names1] in R2;
      (destruct (mloop c def (dd_kind d) r (T ++ [(k, b)]) U) as [[T' U']|fs|w']; unfold loop_spec in *;
       [ destruct R2 as (gs & Ugl' & Hl2 & HU2 & ->);
         do 13 (destruct gs as [|? gs]; [discriminate Hl2|]); destruct gs; [|discriminate Hl2];
         gs13; exists Ugl'; split; [reflexivity|]; split; [exact HU2|]; reflexivity
       | destruct fs as [|f0 [|? ?]]; [exact R2| |exact R2]; destruct R2 as (en' & ->); eexists; reflexivity
       | exact R2 ]).
    + destruct R as (gs & ct & Ugl1 & Hl & Hc & HU1 & ->).
      do 12 (destruct gs as [|? gs]; [discriminate Hl|]); destruct gs; [|discriminate Hl].
      assert (FU' : Forall (fun nu : string * dval => ~ In (fst nu) (map fst r)) (U ++ [(n, x)])).
      { apply Forall_app. split; [exact FUr|]. constructor; [|constructor]. cbn. exact Hnin. }
      destruct Hc as [-> | ->]; cbn [ibind snd fst splice upd E1 combine names1];
      match goal with |- loop_spec _ _ (range_loop _ _ _ _ ?i' _ ?en) =>
        let vals' := eval cbv [map snd] in (map snd en) in
        pose proof (IH vals' i' T Ugl1 (U ++ [(n, x)]) eq_refl eq_refl eq_refl eq_refl eq_refl eq_refl HU1 Hfr Hndr FTr FU') as R2
      end;
      unfold E1 in R2; cbn [combine names1] in R2;
      (destruct (mloop c def (dd_kind d) r T (U ++ [(n, x)])) as [[T' U']|fs|w']; unfold loop_spec in *;
       [ destruct R2 as (gs & Ugl' & Hl2 & HU2 & ->);
         do 13 (destruct gs as [|? gs]; [discriminate Hl2|]); destruct gs; [|discriminate Hl2];
         gs13; exists Ugl'; split; [reflexivity|]; split; [exact HU2|]; reflexivity
       | destruct fs as [|f0 [|? ?]]; [exact R2| |exact R2]; destruct R2 as (en' & ->); eexists; reflexivity
       | exact R2 ]).
    + destruct R as (en' & ->). cbn. eexists. reflexivity.
    + rewrite R. reflexivity.
Time Qed.

(* ---- the loop over the causes ---- *)
Definition val_of_rcause (rc : rcause) : value dom :=
  match rc with
  | RCErr e => VD (DRErr e)
  | RCDef d => VD (DDef d)
  | _ => VD (DRCause rc)
  end.
Definition enc_causes (l : list rcause) : value dom :=
  match l with [] => VNil | _ => VList (map val_of_rcause l) end.
Definition enc_opt (o : option dd) : value dom := match o with Some cd => VD (DNode cd) | None => VNil end.
Definition enc_cause (r : ures rcause) : ires (value dom) :=
  match r with
  | UOk rc => IOk (VTuple [val_of_rcause rc; VNil])
  | UFail [f] => IOk (VTuple [VNil; VD (DErr f)])
  | UFail _ => IStuck "malformed failure"
  | UPanic w => IPanic w
  end.
Definition enc_rerr (r : ures rerr) : ires (value dom) :=
  match r with
  | UOk e => IOk (VTuple [VD (DRErr e); VNil])
  | UFail [f] => IOk (VTuple [VNil; VD (DErr f)])
  | UFail _ => IStuck "malformed failure"
  | UPanic w => IPanic w
  end.

Lemma rcause_of_val rc : rcause_of (val_of_rcause rc) = Some rc.
Proof. destruct rc; reflexivity. Qed.

Lemma causes_of_enc l : causes_of (enc_causes l) = Some l.
Proof.
  unfold causes_of, enc_causes. destruct l as [|x r]; [reflexivity|].
  generalize (x :: r). clear. induction l as [|y l IH]; simpl; [reflexivity|].
  rewrite rcause_of_val, IH. reflexivity.
Qed.

Lemma append_enc l rc :
  append_val (enc_causes l) (val_of_rcause rc) = XVal (enc_causes (l ++ [rc])).
Proof.
  destruct l as [|x r]; [reflexivity|]. cbn. rewrite map_app. reflexivity.
Qed.

Lemma len_enc l : len_val (enc_causes l) = XVal (VInt (Z.of_nat (List.length l))).
Proof. destruct l as [|x r]; [reflexivity|]. unfold enc_causes, len_val. rewrite map_length. reflexivity. Qed.

Definition causes_body : stmt := Eval cbv in range_body (seq_nth body1 7).
Arguments causes_body : simpl never.
Arguments enc_causes : simpl never.
Arguments val_of_rcause : simpl never.

Definition causes_spec (r : ures (list rcause)) (acc : list rcause) (vals : list (value dom))
    (res : ires (env dom * ctl dom)) : Prop :=
  match r with
  | UOk cs => exists g20 g21 g22,
      res = IOk (E1 (upd 19 (enc_causes (acc ++ cs)) (upd 20 g20 (upd 21 g21 (upd 22 g22 vals)))), CNext)
  | UFail [f] => exists en', res = IOk (en', CRet [VNil; VD (DErr f)])
  | UFail _ => res = IStuck "malformed failure"
  | UPanic w => res = IPanic w
  end.

Lemma cause_step c (cm : option dd -> ures rcause) o vals acc :
  List.length vals = 23%nat -> nth 0 vals VNil = VD (DU c) -> nth 19 vals VNil = enc_causes acc ->
  nth 20 vals VNil = enc_opt o ->
  call ".unmarshalCause" [VD (DU c); enc_opt o] = enc_cause (cm o) ->
  exec dom um_ext um_funs call causes_body (E1 vals) =
    match cm o with
    | UOk rc => IOk (E1 (upd 19 (enc_causes (acc ++ [rc])) (upd 21 (val_of_rcause rc) (upd 22 VNil vals))), CNext)
    | UFail [f] => IOk (E1 (upd 21 VNil (upd 22 (VD (DErr f)) vals)), CRet [VNil; VD (DErr f)])
    | UFail _ => IStuck "malformed failure"
    | UPanic w => IPanic w
    end.
Proof.
  intros Hlen H0 H19 H20 Hco. vals23 vals Hlen. cbn in H0, H19, H20. subst.
  unfold causes_body. cbn. unfold apply. cbn. rewrite Hco.
  destruct (cm o) as [rc|fs|w]; cbn.
  - rewrite append_enc. reflexivity.
  - destruct fs as [|f0 [|? ?]]; reflexivity.
  - reflexivity.
Qed.

Lemma causes_loop c (cm : option dd -> ures rcause) : forall os vals i acc,
  List.length vals = 23%nat -> nth 0 vals VNil = VD (DU c) -> nth 19 vals VNil = enc_causes acc ->
  Forall (fun o => call ".unmarshalCause" [VD (DU c); enc_opt o] = enc_cause (cm o)) os ->
  causes_spec (seq_causes (map cm os)) acc vals
    (range_loop dom (exec dom um_ext um_funs call causes_body) "_" "v20" i (map enc_opt os) (E1 vals)).
Proof.
  induction os as [|o r IH]; intros vals i acc Hlen H0 H19 Hc.
  - vals23 vals Hlen. cbn in H0, H19. subst. cbn. rewrite app_nil_r. do 3 eexists. reflexivity.
  - vals23 vals Hlen. cbn in H0, H19. subst.
    inversion Hc as [|? ? Hco Hcr]; subst.
    cbn [map range_loop seq_causes]. unfold E1. cbn [combine names1 bind1 update String.eqb Ascii.eqb Bool.eqb].
    match goal with |- context [exec _ _ _ _ causes_body ?en] =>
      let vals' := eval cbv [map snd] in (map snd en) in
      pose proof (cause_step c cm o vals' acc eq_refl eq_refl eq_refl eq_refl Hco) as R1
    end.
    unfold E1 in R1. cbn [combine names1] in R1. rewrite R1. clear R1.
    destruct (cm o) as [rc|fs|w]; cbn [ibind snd fst upd].
    + match goal with |- context [range_loop _ _ _ _ ?i' _ ?en] =>
        let vals' := eval cbv [map snd] in (map snd en) in
        pose proof (IH vals' i' (acc ++ [rc]) eq_refl eq_refl eq_refl Hcr) as R2
      end.
      unfold E1 in R2. cbn [combine names1] in R2.
      destruct (seq_causes (map cm r)) as [cs|fs|w]; unfold causes_spec in *.
      * destruct R2 as (g20 & g21 & g22 & ->). cbn. do 3 eexists. rewrite <- app_assoc. reflexivity.
      * destruct fs as [|f0 [|? ?]]; [rewrite R2; reflexivity| |rewrite R2; reflexivity].
        destruct R2 as (en' & ->). eexists. reflexivity.
      * rewrite R2. reflexivity.
    + destruct fs as [|f0 [|? ?]]; cbn; [reflexivity| |reflexivity]. eexists. reflexivity.
    + reflexivity.
Time Qed.

(* ---- Unmarshaler.unmarshal ---- *)
Definition enc_udef (r : ures udef) : ires (value dom) :=
  match r with
  | UOk d => IOk (VTuple [VD (DDef d); VNil])
  | UFail [f] => IOk (VTuple [VNil; VD (DErr f)])
  | UFail _ => IStuck "malformed failure"
  | UPanic w => IPanic w
  end.

Definition cause_model (c : ucfg) (o : option dd) : ures rcause :=
  match o with None => UFail [internal_failure] | Some cd => unmarshal_cause c cd end.

Definition b0 : stmt := Eval cbv in seq_nth body1 0.
Definition b1 : stmt := Eval cbv in seq_nth body1 1.
Definition b2 : stmt := Eval cbv in seq_nth body1 2.
Definition b3 : stmt := Eval cbv in seq_nth body1 3.
Definition b4 : stmt := Eval cbv in seq_nth body1 4.
Definition b6 : stmt := Eval cbv in seq_nth body1 6.
Definition b8 : stmt := Eval cbv in seq_nth body1 8.
Definition body1_skel : stmt :=
  SSeq b0 (SSeq b1 (SSeq b2 (SSeq b3 (SSeq b4
    (SSeq (SRange "_" "v6" (ECall "slices.Sorted" [ECall "maps.Keys" [ECall ".Fields" [EVar "v1"]]]) fields_body)
    (SSeq b6 (SSeq (SRange "_" "v20" (ECall ".Causes" [EVar "v1"]) causes_body) b8))))))).
Lemma body1_ok : body1 = body1_skel.
Proof. reflexivity. Qed.

Lemma entry_names_fields d : entry_names (fields_entries d) = Some (map fst (dd_fields d)).
Proof.
  unfold entry_names, fields_entries. induction (dd_fields d) as [|[n v] r IH]; simpl; [reflexivity|].
  rewrite IH. reflexivity.
Qed.

Lemma ins_str_field x l : ins_str (fst x) (map fst l) = map fst (ins_field x l).
Proof.
  induction l as [|y r IH]; simpl; [reflexivity|].
  destruct (String.leb (fst x) (fst y)); simpl; [reflexivity|]. rewrite IH. reflexivity.
Qed.

Lemma sort_strs_fields l : sort_strs (map fst l) = map fst (sort_fields l).
Proof.
  unfold sort_strs, sort_fields. induction l as [|x r IH]; simpl; [reflexivity|].
  rewrite IH. apply ins_str_field.
Qed.

Lemma go_causes c (causes : list (option dd)) :
  (fix go (l : list (option dd)) : list (ures rcause) :=
     match l with
     | [] => []
     | None :: r => UFail [internal_failure] :: go r
     | Some cd :: r => snd (both c cd) :: go r
     end) causes = map (cause_model c) causes.
Proof. induction causes as [|[cd|] r IH]; simpl; [reflexivity| |]; rewrite IH; reflexivity. Qed.

Lemma mloop_collect c def kind : forall l T U,
  let '(ty, un, fl, pn) := collect_fields (map (fun nv => (fst nv, bind_field c def kind (fst nv) (snd nv))) l) in
  pn = None /\
  match fl with
  | [] => mloop c def kind l T U = UOk (T ++ ty, U ++ un)
  | f :: _ => mloop c def kind l T U = UFail [f]
  end.
Proof.
  induction l as [|[n v] r IH]; intros T U; simpl.
  - rewrite !app_nil_r. split; reflexivity.
  - pose proof (bind_field_good c def kind n v) as Hnp.
    destruct (bind_field c def kind n v) as [k b|x|f|w] eqn:Eb; cbn in Hnp.
    + specialize (IH (T ++ [(k, b)]) U).
      destruct (collect_fields (map (fun nv => (fst nv, bind_field c def kind (fst nv) (snd nv))) r)) as [[[ty un] fl] pn].
      destruct IH as [-> IH]. split; [reflexivity|]. destruct fl; [|exact IH]. rewrite IH, <- app_assoc. reflexivity.
    + specialize (IH T (U ++ [(n, x)])).
      destruct (collect_fields (map (fun nv => (fst nv, bind_field c def kind (fst nv) (snd nv))) r)) as [[[ty un] fl] pn].
      destruct IH as [-> IH]. split; [reflexivity|]. destruct fl; [|exact IH]. rewrite IH, <- app_assoc. reflexivity.
    + specialize (IH T U).
      destruct (collect_fields (map (fun nv => (fst nv, bind_field c def kind (fst nv) (snd nv))) r)) as [[[ty un] fl] pn].
      destruct IH as [-> _]. split; reflexivity.
    + contradiction.
Qed.

Lemma sorted_find l : NoDup (map fst l) ->
  Forall (fun nv : string * dval => find (fun x => str_eqb (fst nv) (fst x)) l = Some nv) (sort_fields l).
Proof.
  intros Hnd. apply Forall_forall. intros [n v] Hin. apply (proj1 (sort_fields_in _ _)) in Hin. cbn.
  revert Hnd Hin. induction l as [|[m w] r IH]; intros Hnd Hin; [contradiction|]. simpl.
  inversion Hnd as [|? ? Hnin Hr]; subst. cbn in Hnin.
  simpl in Hin. destruct Hin as [E|Hin].
  - inversion E; subst. rewrite str_eqb_refl. reflexivity.
  - destruct (str_eqb n m) eqn:E.
    + apply str_eqb_eq in E. subst. exfalso. apply Hnin. apply in_map_iff. exists (m, v). split; [reflexivity|exact Hin].
    + apply IH; assumption.
Qed.

Arguments b0 : simpl never. Arguments b1 : simpl never. Arguments b2 : simpl never. Arguments b3 : simpl never.
Arguments b4 : simpl never. Arguments b6 : simpl never. Arguments b8 : simpl never.

Lemma unmarshal_body_ok c d :
  NoDup (map fst (dd_fields d)) ->
  (forall k, call ".resolveKind" [VD (DU c); VStr k] = enc_udef (resolve_kind_u c k)) ->
  Forall (fun o => call ".unmarshalCause" [VD (DU c); enc_opt o] = enc_cause (cause_model c o)) (dd_causes d) ->
  call_body dom um_ext um_funs call (fst (fst um_fn1)) (snd (fst um_fn1)) body1 [VD (DU c); VD (DNode d)]
  = enc_rerr (unmarshal c d).
Proof.
  intros Hnd Hrk Hcs.
  rewrite body1_ok. unfold body1_skel, call_body.
  cbn [um_fn1 fst snd bind_all map app bind1 update String.eqb Ascii.eqb Bool.eqb].
  unfold b0. cbn. unfold b1. cbn. unfold apply. cbn. rewrite Hrk.
  unfold unmarshal. destruct d as [msg kind ty fields stack causes unk]. cbn [both fst dd_kind].
  destruct (resolve_kind_u c kind) as [def|fs|w]; cbn.
  2:{ unfold b2. cbn. destruct fs as [|f0 [|? ?]]; reflexivity. }
  2:{ reflexivity. }
  unfold b2. cbn. unfold b3. cbn. unfold b4. cbn.
  rewrite entry_names_fields. cbn. rewrite sort_strs_fields, map_map.
  set (d := DD msg kind ty fields stack causes unk) in *.
  match goal with |- context [range_loop _ _ _ _ ?i' _ ?en] =>
    let vals' := eval cbv [map snd] in (map snd en) in
    pose proof (fields_loop c d def (sort_fields fields) vals' i' [] [] [] eq_refl eq_refl eq_refl eq_refl eq_refl eq_refl
                  (Forall2_nil _) (sorted_find fields Hnd)) as R
  end.
  assert (Hnd' : NoDup (map fst (sort_fields fields))).
  { eapply Permutation_NoDup; [apply Permutation_sym, sort_fields_names_perm|exact Hnd]. }
  specialize (R Hnd' (Forall_nil _) (Forall_nil _)).
  unfold E1 in R. cbn [combine names1] in R. change (dd_kind d) with kind in R.
  pose proof (mloop_collect c def kind (sort_fields fields) [] []) as MC.
  destruct (collect_fields (map (fun nv => (fst nv, bind_field c def kind (fst nv) (snd nv))) (sort_fields fields)))
    as [[[typed unknown] fails] pn].
  destruct MC as [-> MC].
  destruct fails as [|f fr].
  2:{ rewrite MC in R. destruct R as (en' & ->). reflexivity. }
  rewrite MC in R. cbn [app] in R. destruct R as (gs & Ugl' & Hl & HU' & ->).
  do 13 (destruct gs as [|? gs]; [discriminate Hl|]); destruct gs; [|discriminate Hl].
  cbn [ibind snd fst splice upd E1 combine names1].
  unfold b6. cbn.
  rewrite go_causes.
  match goal with |- context [range_loop _ _ _ _ ?i' _ ?en] =>
    let vals' := eval cbv [map snd] in (map snd en) in
    pose proof (causes_loop c (cause_model c) causes vals' i' [] eq_refl eq_refl eq_refl Hcs) as R2
  end.
  unfold E1 in R2. cbn [combine names1] in R2.
  change (cause_vals d) with (map enc_opt causes).
  destruct (seq_causes (map (cause_model c) causes)) as [cs|fs|w]; unfold causes_spec in R2.
  - destruct R2 as (g20 & g21 & g22 & ->). cbn [ibind snd fst upd E1 combine names1 app].
    unfold b8. cbn. rewrite causes_of_enc, typed_of_encT, (unknown_of_invU _ _ HU'). reflexivity.
  - destruct fs as [|f0 [|? ?]]; [rewrite R2; reflexivity| |rewrite R2; reflexivity].
    destruct R2 as (en' & ->). reflexivity.
  - rewrite R2. reflexivity.
Time Qed.

(* ---- Unmarshaler.unmarshalCause ---- *)
Definition body2 : stmt := Eval cbv in fn_body um_fn2.
Definition names2 : list string := Eval cbv in fn_names um_fn2.
Definition E2 (vals : list (value dom)) : env dom := combine names2 vals.
Definition then2 : stmt := Eval cbv in if_then (seq_nth body2 1).
Definition nested_body : stmt := Eval cbv in range_body (seq_nth then2 6).
Arguments nested_body : simpl never.

Tactic Notation "vals15" ident(vals) ident(H) :=
  do 15 (destruct vals as [|? vals]; [discriminate H|]); destruct vals; [clear H|discriminate H].

Definition nested_spec (r : ures (list rcause)) (acc : list rcause) (vals : list (value dom))
    (res : ires (env dom * ctl dom)) : Prop :=
  match r with
  | UOk cs => exists g7 g8 g9,
      res = IOk (E2 (upd 6 (enc_causes (acc ++ cs)) (upd 7 g7 (upd 8 g8 (upd 9 g9 vals)))), CNext)
  | UFail [f] => exists en', res = IOk (en', CRet [VNil; VD (DErr f)])
  | UFail _ => res = IStuck "malformed failure"
  | UPanic w => res = IPanic w
  end.

Lemma nested_step c (cm : option dd -> ures rcause) o vals acc :
  List.length vals = 15%nat -> nth 0 vals VNil = VD (DU c) -> nth 6 vals VNil = enc_causes acc ->
  nth 7 vals VNil = enc_opt o ->
  call ".unmarshalCause" [VD (DU c); enc_opt o] = enc_cause (cm o) ->
  exec dom um_ext um_funs call nested_body (E2 vals) =
    match cm o with
    | UOk rc => IOk (E2 (upd 6 (enc_causes (acc ++ [rc])) (upd 8 (val_of_rcause rc) (upd 9 VNil vals))), CNext)
    | UFail [f] => IOk (E2 (upd 8 VNil (upd 9 (VD (DErr f)) vals)), CRet [VNil; VD (DErr f)])
    | UFail _ => IStuck "malformed failure"
    | UPanic w => IPanic w
    end.
Proof.
  intros Hlen H0 H6 H7 Hco. vals15 vals Hlen. cbn in H0, H6, H7. subst.
  unfold nested_body. cbn. unfold apply. cbn. rewrite Hco.
  destruct (cm o) as [rc|fs|w]; cbn.
  - rewrite append_enc. reflexivity.
  - destruct fs as [|f0 [|? ?]]; reflexivity.
  - reflexivity.
Qed.

Lemma nested_loop c (cm : option dd -> ures rcause) : forall os vals i acc,
  List.length vals = 15%nat -> nth 0 vals VNil = VD (DU c) -> nth 6 vals VNil = enc_causes acc ->
  Forall (fun o => call ".unmarshalCause" [VD (DU c); enc_opt o] = enc_cause (cm o)) os ->
  nested_spec (seq_causes (map cm os)) acc vals
    (range_loop dom (exec dom um_ext um_funs call nested_body) "_" "v7" i (map enc_opt os) (E2 vals)).
Proof.
  induction os as [|o r IH]; intros vals i acc Hlen H0 H6 Hc.
  - vals15 vals Hlen. cbn in H0, H6. subst. cbn. rewrite app_nil_r. do 3 eexists. reflexivity.
  - vals15 vals Hlen. cbn in H0, H6. subst.
    inversion Hc as [|? ? Hco Hcr]; subst.
    cbn [map range_loop seq_causes]. unfold E2. cbn [combine names2 bind1 update String.eqb Ascii.eqb Bool.eqb].
    match goal with |- context [exec _ _ _ _ nested_body ?en] =>
      let vals' := eval cbv [map snd] in (map snd en) in
      pose proof (nested_step c cm o vals' acc eq_refl eq_refl eq_refl eq_refl Hco) as R1
    end.
    unfold E2 in R1. cbn [combine names2] in R1. rewrite R1. clear R1.
    destruct (cm o) as [rc|fs|w]; cbn [ibind snd fst upd].
    + match goal with |- context [range_loop _ _ _ _ ?i' _ ?en] =>
        let vals' := eval cbv [map snd] in (map snd en) in
        pose proof (IH vals' i' (acc ++ [rc]) eq_refl eq_refl eq_refl Hcr) as R2
      end.
      unfold E2 in R2. cbn [combine names2] in R2.
      destruct (seq_causes (map cm r)) as [cs|fs|w]; unfold nested_spec in *.
      * destruct R2 as (g7 & g8 & g9 & ->). cbn. do 3 eexists. rewrite <- app_assoc. reflexivity.
      * destruct fs as [|f0 [|? ?]]; [rewrite R2; reflexivity| |rewrite R2; reflexivity].
        destruct R2 as (en' & ->). eexists. reflexivity.
      * rewrite R2. reflexivity.
    + destruct fs as [|f0 [|? ?]]; cbn; [reflexivity| |reflexivity]. eexists. reflexivity.
    + reflexivity.
Qed.

Definition single_fail {A} (r : ures A) : Prop :=
  match r with UFail fs => exists f, fs = [f] | _ => True end.

Lemma seq_causes_single rs : Forall single_fail rs -> single_fail (seq_causes rs).
Proof.
  induction rs as [|r rest IH]; intros H; simpl; [exact I|].
  inversion H as [|? ? Hr Hrest]; subst.
  destruct r as [x|fs|w]; simpl; [|exact Hr|exact I].
  specialize (IH Hrest). destruct (seq_causes rest); simpl in *; auto.
Qed.

Lemma both_single c d : single_fail (fst (both c d)) /\ single_fail (snd (both c d)).
Proof.
  induction d as [m k t fs st cs u IH] using dd_ind'. cbn [both]. rewrite go_causes.
  assert (Hcs : single_fail (seq_causes (map (cause_model c) cs))).
  { apply seq_causes_single. apply Forall_forall. intros r Hin. apply in_map_iff in Hin as (o & <- & Hin).
    destruct o as [cd|]; cbn; [|eexists; reflexivity].
    apply (IH _ Hin). }
  set (cres := seq_causes (map (cause_model c) cs)) in *.
  assert (Herr : single_fail
    match resolve_kind_u c k with
    | UOk def =>
        let '(typed, unknown, fails, pn) :=
          collect_fields (map (fun nv => (fst nv, bind_field c def k (fst nv) (snd nv))) (sort_fields fs)) in
        match pn with
        | Some w => UPanic w
        | None => match fails with
                  | [] => match cres with UOk cs0 => UOk (RErr def m typed unknown st cs0) | UFail f => UFail f | UPanic w => UPanic w end
                  | f :: _ => UFail [f]
                  end
        end
    | UFail f => UFail f
    | UPanic w => UPanic w
    end).
  { unfold resolve_kind_u.
    destruct (u_default c); [destruct (u_strict c)|]; destruct (resolve_kind_def (u_defs c) k); cbn;
      try (eexists; reflexivity);
      (destruct (collect_fields _) as [[[ty un] fl] [w|]]; [exact I|];
       destruct fl; [|eexists; reflexivity]; destruct cres; cbn in *; auto). }
  split; [exact Herr|].
  cbn [fst snd].
  match goal with |- single_fail (match ?e with _ => _ end) => destruct e as [e0|fs0|w0] end; [exact I| |exact I].
  destruct (has_internal fs0); [eexists; reflexivity|].
  destruct cres as [[|x r]|f|w]; cbn in *; auto.
  - destruct (if str_eqb _ _ then _ else None); [exact I|]. destruct (lookup_sentinel _ _ _); exact I.
Qed.

Definition unmarshal_model (c : ucfg) (o : option dd) : ures rerr :=
  match o with None => UFail [internal_failure] | Some d => unmarshal c d end.

Definition t0 : stmt := Eval cbv in seq_nth then2 0.
Definition t1 : stmt := Eval cbv in seq_nth then2 1.
Definition t2 : stmt := Eval cbv in seq_nth then2 2.
Definition t3 : stmt := Eval cbv in seq_nth then2 3.
Definition t4 : stmt := Eval cbv in seq_nth then2 4.
Definition t5 : stmt := Eval cbv in seq_nth then2 5.
Definition t7 : stmt := Eval cbv in seq_nth then2 7.
Definition t8 : stmt := Eval cbv in seq_nth then2 8.
Definition t9 : stmt := Eval cbv in seq_nth then2 9.
Definition c0 : stmt := Eval cbv in seq_nth body2 0.
Definition c2 : stmt := Eval cbv in seq_nth body2 2.
Definition body2_skel : stmt :=
  SSeq c0 (SSeq
    (SIf SSkip (ENot (ECall "==" [EVar "v3"; ENilLit]))
       (SSeq t0 (SSeq t1 (SSeq t2 (SSeq t3 (SSeq t4 (SSeq t5
         (SSeq (SRange "_" "v7" (ECall ".Causes" [EVar "v1"]) nested_body)
         (SSeq t7 (SSeq t8 t9))))))))) SSkip) c2).
Lemma body2_ok : body2 = body2_skel.
Proof. reflexivity. Qed.
Arguments t0 : simpl never. Arguments t1 : simpl never. Arguments t2 : simpl never. Arguments t3 : simpl never.
Arguments t4 : simpl never. Arguments t5 : simpl never. Arguments t7 : simpl never. Arguments t8 : simpl never.
Arguments t9 : simpl never. Arguments c0 : simpl never. Arguments c2 : simpl never.

Lemma cause_body_ok c o :
  call ".unmarshal" [VD (DU c); enc_opt o] = enc_rerr (unmarshal_model c o) ->
  (forall m, call ".resolveDefinitionFromMessage" [VD (DU c); VStr m] = IOk (resolve_pair c m)) ->
  (forall d, o = Some d ->
     Forall (fun o' => call ".unmarshalCause" [VD (DU c); enc_opt o'] = enc_cause (cause_model c o')) (dd_causes d)) ->
  call_body dom um_ext um_funs call (fst (fst um_fn2)) (snd (fst um_fn2)) body2 [VD (DU c); enc_opt o]
  = enc_cause (cause_model c o).
Proof.
  intros Hun Hrd Hcs.
  rewrite body2_ok. unfold body2_skel, call_body.
  cbn [um_fn2 fst snd bind_all map app bind1 update String.eqb Ascii.eqb Bool.eqb].
  unfold c0. cbn. unfold apply. cbn. rewrite Hun.
  destruct o as [d|].
  2:{ cbn. unfold t0. cbn. reflexivity. }
  cbn [unmarshal_model cause_model enc_opt].
  pose proof (both_single c d) as [Hs _]. specialize (Hcs d eq_refl).
  unfold unmarshal_cause, unmarshal in *.
  destruct d as [msg kind ty fields stack causes unk]. cbn [both fst snd] in *. rewrite go_causes in *.
  match goal with |- context [enc_rerr ?e] => destruct e as [e0|fs|w] end.
  - cbn. unfold c2. cbn. reflexivity.
  - destruct Hs as (f & ->). cbn. unfold has_internal. cbn [existsb orb].
    unfold t0. cbn.
    destruct (str_eqb (fl_class f) cls_internal); cbn; [reflexivity|].
    unfold t1. cbn. unfold t2. cbn.
    destruct (str_eqb msg "") eqn:Em; cbn; unfold t3; cbn; unfold t4; cbn;
    destruct (str_eqb ty "") eqn:Et; cbn; unfold t5; cbn.
    all: change (cause_vals (DD msg kind ty fields stack causes unk)) with (map enc_opt causes).
    all: match goal with |- context [range_loop _ _ _ _ ?i' _ ?en] =>
      let vals' := eval cbv [map snd] in (map snd en) in
      pose proof (nested_loop c (cause_model c) causes vals' i' [] eq_refl eq_refl eq_refl Hcs) as R2
    end; unfold E2 in R2; cbn [combine names2] in R2.
    all: destruct (seq_causes (map (cause_model c) causes)) as [cs|fs|w]; unfold nested_spec in R2;
      [ destruct R2 as (g7 & g8 & g9 & ->); cbn [ibind snd fst upd E2 combine names2 app]
      | destruct fs as [|f0 [|? ?]]; [rewrite R2; reflexivity| |rewrite R2; reflexivity];
        destruct R2 as (en' & ->); reflexivity
      | rewrite R2; reflexivity ].
    all: unfold t7; cbn; rewrite len_enc; cbn.
    all: destruct cs as [|x r]; cbn.
    all: try (unfold t8; cbn; rewrite causes_of_enc; cbn; unfold t9; cbn; reflexivity).
    all: try rewrite Hrd; unfold resolve_pair.
    all: try (destruct (str_eqb ty definition_type_name); cbn; try rewrite Hrd; unfold resolve_pair).
    all: try (destruct (resolve_kind_def (u_defs c) _); cbn; try reflexivity).
    all: destruct (lookup_sentinel c _ _); cbn; try reflexivity.
    all: unfold t8; cbn; rewrite causes_of_enc; cbn; unfold t9; cbn; reflexivity.
  - reflexivity.
Time Qed.

(* ---- resolveKind, resolveDefinitionFromMessage, Unmarshal ---- *)
Lemma resolve_kind_body_ok c k :
  call_body dom um_ext um_funs call (fst (fst um_fn3)) (snd (fst um_fn3)) (fn_body um_fn3) [VD (DU c); VStr k]
  = enc_udef (resolve_kind_u c k).
Proof.
  unfold call_body, resolve_kind_u. cbn.
  destruct (u_default c) as [dflt|]; cbn.
  - destruct (u_strict c); cbn.
    + unfold resolve_pair. destruct (resolve_kind_def (u_defs c) k); cbn; reflexivity.
    + reflexivity.
  - unfold resolve_pair. destruct (resolve_kind_def (u_defs c) k); cbn; reflexivity.
Qed.

Lemma resolve_def_body_ok c m :
  call_body dom um_ext um_funs call (fst (fst um_fn4)) (snd (fst um_fn4)) (fn_body um_fn4) [VD (DU c); VStr m]
  = IOk (resolve_pair c m).
Proof. reflexivity. Qed.

Definition top_model (c : ucfg) (od : option dd) (decerr : bool) : ures rerr :=
  if decerr then UFail [{| fl_class := cls_decode; fl_kind := ""; fl_field := "" |}] else unmarshal_top c od.

Lemma top_body_ok c od decerr :
  call ".unmarshal" [VD (DU c); enc_opt od] = enc_rerr (unmarshal_model c od) ->
  call_body dom um_ext um_funs call (fst (fst um_fn0)) (snd (fst um_fn0)) (fn_body um_fn0) [VD (DU c); input_val od decerr]
  = enc_rerr (top_model c od decerr).
Proof.
  intros Hun. unfold call_body, top_model, input_val.
  destruct decerr; [reflexivity|].
  destruct od as [d|]; cbn; unfold apply; cbn; cbn in Hun; rewrite Hun; cbn.
  - destruct (unmarshal c d) as [e|fs|w]; cbn; [reflexivity| |reflexivity]. destruct fs as [|f0 [|? ?]]; reflexivity.
  - reflexivity.
Qed.
End WithCall.

(* ---------- the theorem: the translated source computes the model, for every configuration and document ---------- *)
(* field names are the keys of a Go map: distinct at every node *)
Fixpoint dd_nodup (d : dd) : Prop :=
  match d with
  | DD _ _ _ fs _ cs _ =>
      NoDup (map fst fs) /\
      (fix all (l : list (option dd)) : Prop :=
         match l with
         | [] => True
         | None :: r => all r
         | Some c :: r => dd_nodup c /\ all r
         end) cs
  end.

Lemma depth_child m k t fs st cs u cd :
  In (Some cd) cs -> (dd_depth cd < dd_depth (DD m k t fs st cs u))%nat.
Proof.
  cbn [dd_depth]. induction cs as [|[x|] r IH]; intros Hin; [contradiction| |].
  - destruct Hin as [E|Hin]; [inversion E; subst; lia|]. specialize (IH Hin). lia.
  - destruct Hin as [E|Hin]; [discriminate|]. apply IH. exact Hin.
Qed.

Lemma nodup_child m k t fs st cs u cd :
  dd_nodup (DD m k t fs st cs u) -> In (Some cd) cs -> dd_nodup cd.
Proof.
  cbn [dd_nodup]. intros [_ H]. induction cs as [|[x|] r IH]; intros Hin; [contradiction| |].
  - destruct H as [Hx Hr]. destruct Hin as [E|Hin]; [inversion E; subst; exact Hx|]. apply IH; assumption.
  - destruct Hin as [E|Hin]; [discriminate|]. apply IH; assumption.
Qed.

Lemma run_S n f vs :
  run dom um_ext um_funs (S n) f vs =
  match fun_lookup f um_funs with
  | Some (params, locals, body) => call_body dom um_ext um_funs (run dom um_ext um_funs n) params locals body vs
  | None => IStuck ("no such function " ++ f)
  end.
Proof. reflexivity. Qed.

Lemma run_resolve_kind n c k :
  um_run (S n) ".resolveKind" [VD (DU c); VStr k] = enc_udef (resolve_kind_u c k).
Proof. unfold um_run. rewrite run_S. apply resolve_kind_body_ok. Qed.

Lemma run_resolve_def n c m :
  um_run (S n) ".resolveDefinitionFromMessage" [VD (DU c); VStr m] = IOk (resolve_pair c m).
Proof. unfold um_run. rewrite run_S. apply resolve_def_body_ok. Qed.

Lemma run_unmarshal_nil n c :
  um_run (S n) ".unmarshal" [VD (DU c); VNil] = enc_rerr (UFail [internal_failure]).
Proof. reflexivity. Qed.

Lemma run_cause_nil n c :
  um_run (S (S n)) ".unmarshalCause" [VD (DU c); VNil] = enc_cause (UFail [internal_failure]).
Proof.
  unfold um_run. rewrite run_S.
  apply (cause_body_ok (run dom um_ext um_funs (S n)) c None).
  - apply run_unmarshal_nil.
  - intros m. apply run_resolve_def.
  - intros d E. discriminate.
Qed.

Theorem um_source_is_model c : forall d, dd_nodup d -> forall n, (2 * dd_depth d <= n)%nat ->
  um_run (S n) ".unmarshal" [VD (DU c); VD (DNode d)] = enc_rerr (unmarshal c d) /\
  um_run (S (S n)) ".unmarshalCause" [VD (DU c); VD (DNode d)] = enc_cause (unmarshal_cause c d).
Proof.
  induction d as [m k t fs st cs u IH] using dd_ind'. intros Hwf n Hn.
  set (d := DD m k t fs st cs u) in *.
  assert (Hd1 : (1 <= dd_depth d)%nat) by (cbn; lia).
  assert (Hchild : forall fuel, (2 * dd_depth d <= S fuel)%nat ->
            Forall (fun o => run dom um_ext um_funs (S fuel) ".unmarshalCause" [VD (DU c); enc_opt o] = enc_cause (cause_model c o)) cs).
  { intros fuel Hf. apply Forall_forall. intros [cd|] Hin.
    - pose proof (depth_child m k t fs st cs u cd Hin) as Hlt. fold d in Hlt.
      destruct fuel as [|fuel]; [lia|].
      apply (IH cd Hin (nodup_child m k t fs st cs u cd Hwf Hin) fuel). lia.
    - destruct fuel as [|fuel]; [lia|]. apply run_cause_nil. }
  assert (Hu : forall fuel, (2 * dd_depth d <= fuel)%nat ->
            um_run (S fuel) ".unmarshal" [VD (DU c); VD (DNode d)] = enc_rerr (unmarshal c d)).
  { intros fuel Hf. unfold um_run. rewrite run_S.
    apply (unmarshal_body_ok (run dom um_ext um_funs fuel) c d).
    - destruct Hwf as [H _]. exact H.
    - intros k0. destruct fuel as [|fuel]; [lia|]. apply run_resolve_kind.
    - destruct fuel as [|fuel]; [lia|]. apply Hchild. lia. }
  split; [apply Hu; exact Hn|].
  unfold um_run. rewrite run_S.
  apply (cause_body_ok (run dom um_ext um_funs (S n)) c (Some d)).
  - apply Hu. exact Hn.
  - intros m0. apply run_resolve_def.
  - intros d0 E. inversion E; subst d0. apply Hchild. lia.
Qed.

Theorem um_top_source_is_model c od decerr :
  match od with Some d => dd_nodup d | None => True end ->
  forall n, (2 * match od with Some d => dd_depth d | None => O end + 1 <= n)%nat ->
  um_run (S n) ".Unmarshal" [VD (DU c); input_val od decerr] = enc_rerr (top_model c od decerr).
Proof.
  intros Hwf n Hn. unfold um_run. rewrite run_S.
  apply (top_body_ok (run dom um_ext um_funs n) c od decerr).
  destruct od as [d|].
  - destruct n as [|n]; [lia|]. apply (um_source_is_model c d Hwf n). lia.
  - destruct n as [|n]; [lia|]. apply run_unmarshal_nil.
Qed.

Lemma source_total c od decerr :
  match od with Some d => dd_nodup d | None => True end ->
  exists r, src_unmarshal_top (fuel_for od) c od decerr = Some r /\
    match r with
    | UOk _ => True
    | UFail fs => exists f, fs = [f] /\ (fl_class f = cls_decode \/ fl_class f = cls_kind \/ fl_class f = cls_field \/ fl_class f = cls_internal)
    | UPanic _ => False
    end.
Proof.
  intros Hwf. exists (top_model c od decerr).
  unfold src_unmarshal_top, fuel_for.
  replace (2 * match od with Some d => dd_depth d | None => 0 end + 2)%nat
    with (S (2 * match od with Some d => dd_depth d | None => 0 end + 1))%nat by lia.
  fold (um_run (S (2 * match od with Some d => dd_depth d | None => 0%nat end + 1)) ".Unmarshal" [VD (DU c); input_val od decerr]).
  rewrite (um_top_source_is_model c od decerr Hwf) by lia.
  unfold top_model. destruct decerr.
  - split; [reflexivity|]. eexists. split; [reflexivity|]. now left.
  - pose proof (unmarshal_total c od) as Ht.
    assert (Hs : single_fail (unmarshal_top c od)).
    { destruct od as [d|]; cbn; [apply (both_single c d)|eexists; reflexivity]. }
    destruct (unmarshal_top c od) as [e|fs|w]; cbn in *.
    + split; [reflexivity|exact I].
    + destruct Hs as (f & ->). split; [reflexivity|]. exists f. split; [reflexivity|].
      destruct Ht as [_ Hf]. inversion Hf as [|? ? H1 _]; subst. destruct H1 as [H|[H|H]]; auto.
    + contradiction.
Qed.
