From Errdef Require Import Base.Str Model.Core Model.GoErrors Model.Prog Check.C01.

Definition consistent (ds : list defn) : Prop :=
  forall d1 d2, In d1 ds -> In d2 ds ->
    (root d1 = root d2 <-> d_org d1 = d_org d2) /\ (d_addr d1 = d_addr d2 -> d_org d1 = d_org d2).

Definition node_def (n : err) : option defn :=
  match n with EDef _ d _ _ _ _ | EDefn d | ERest _ d _ _ _ _ => Some d | _ => None end.

(* every definition occurring at a node errors.Is visits belongs to ds *)
Definition defs_within (ds : list defn) (e : err) : Prop :=
  forall n d, In n (reach e) -> node_def n = Some d -> In d ds.

Lemma reach_defn D : reach (EDefn D) = [EDefn D].
Proof. reflexivity. Qed.

Lemma root_org ds d1 d2 : consistent ds -> In d1 ds -> In d2 ds ->
  N.eqb (root d1) (root d2) = Nat.eqb (d_org d1) (d_org d2).
Proof.
  intros H H1 H2. destruct (H d1 d2 H1 H2) as [[A B] _].
  destruct (N.eqb_spec (root d1) (root d2)) as [E|E]; destruct (Nat.eqb_spec (d_org d1) (d_org d2)) as [F|F];
    try reflexivity.
  - apply A in E. congruence.
  - apply B in F. contradiction.
Qed.

Lemma defn_is_defn ds d D : consistent ds -> In d ds -> In D ds ->
  defn_is d (EDefn D) = Nat.eqb (d_org d) (d_org D).
Proof.
  intros H H1 H2. unfold defn_is, as_first. rewrite reach_defn. cbn.
  rewrite (root_org ds d D H H1 H2).
  destruct (N.eqb_spec (d_addr d) (d_addr D)) as [E|E]; cbn.
  - destruct (H d D H1 H2) as [_ A]. rewrite (A E). rewrite Nat.eqb_refl. reflexivity.
  - reflexivity.
Qed.

Lemma node_is ds n D : consistent ds -> In D ds ->
  (forall d, node_def n = Some d -> In d ds) ->
  same n (EDefn D) || is_method n (EDefn D) = has_org (d_org D) n.
Proof.
  intros H HD Hn. unfold has_org.
  destruct n; cbn [same is_defn_val is_method node_org node_def Bool.eqb andb orb] in *; try reflexivity.
  - rewrite (root_org ds d D H (Hn d eq_refl) HD). reflexivity.
  - rewrite (defn_is_defn ds d D H (Hn d eq_refl) HD).
    cbn [addr_of]. destruct (N.eqb_spec (d_addr d) (d_addr D)) as [E|E]; cbn [orb]; [|reflexivity].
    destruct (H d D (Hn d eq_refl) HD) as [_ A]. rewrite (A E). symmetry. apply Nat.eqb_refl.
  - rewrite (defn_is_defn ds d D H (Hn d eq_refl) HD). reflexivity.
Qed.

Theorem is_iff_origin ds e D : consistent ds -> In D ds -> defs_within ds e ->
  errors_is e (EDefn D) = spec_is e D.
Proof.
  intros H HD He. unfold errors_is, spec_is.
  unfold defs_within in He. induction (reach e) as [|n r IH]; [reflexivity|].
  cbn [existsb]. rewrite (node_is ds n D H HD).
  - f_equal. apply IH. intros n' d Hin. apply He. now right.
  - intros d. apply He. now left.
Qed.

(* ---------- the invariant of program execution ---------- *)
Definition Inv (s : st) : Prop :=
  consistent (s_defs s) /\
  (forall d, In d (s_defs s) -> (d_addr d < s_next s)%N /\ (root d < s_next s)%N /\ d_org d < s_norg s) /\
  (forall e, In (Some e) (s_errs s) -> defs_within (s_defs s) e).

Lemma apply_opt_ids d o :
  d_addr (apply_opt d o) = d_addr d /\ d_root (apply_opt d o) = d_root d /\ d_org (apply_opt d o) = d_org d.
Proof. destruct o; cbn; auto. Qed.

Lemma apply_opts_ids os : forall d,
  d_addr (apply_opts d os) = d_addr d /\ d_root (apply_opts d os) = d_root d /\ d_org (apply_opts d os) = d_org d.
Proof.
  unfold apply_opts. induction os as [|o r IH]; intros d; cbn; [auto|].
  destruct (IH (apply_opt d o)) as [A [B C]]. destruct (apply_opt_ids d o) as [A' [B' C']].
  repeat split; congruence.
Qed.

Lemma root_apply_opts d os : root (apply_opts d os) = root d.
Proof. unfold root. destruct (apply_opts_ids os d) as [A [B _]]. now rewrite A, B. Qed.

Lemma inv0 : Inv st0.
Proof. repeat split; cbn; intros; contradiction. Qed.

Lemma consistent_add ds d' :
  consistent ds ->
  (forall d, In d ds -> (root d' = root d <-> d_org d' = d_org d) /\ (d_addr d' = d_addr d -> d_org d' = d_org d)
                        /\ (d_addr d = d_addr d' -> d_org d = d_org d')) ->
  consistent (ds ++ [d']).
Proof.
  intros H Hn d1 d2 H1 H2. apply in_app_or in H1, H2.
  destruct H1 as [H1|[<-|[]]]; destruct H2 as [H2|[<-|[]]].
  - now apply H.
  - destruct (Hn d1 H1) as [[A B] [C D]]. split; [split; intros E; symmetry; [apply A|apply B]; now symmetry|exact D].
  - destruct (Hn d2 H2) as [A [C D]]. split; [exact A|exact C].
  - split; [tauto|reflexivity].
Qed.

Lemma defs_within_mono ds d e : defs_within ds e -> defs_within (ds ++ [d]) e.
Proof. intros H n d0 Hin Hd. apply in_or_app. left. eapply H; eauto. Qed.

Lemma nth_in_or_default {A} (l : list A) i d : i < List.length l -> In (nth i l d) l.
Proof. intros. now apply nth_In. Qed.

(* adding a definition that is fresh (Define) *)
Lemma inv_add_define s kind os : Inv s -> Inv (add_def s (define (s_next s) (s_norg s) kind os) 1 true).
Proof.
  intros [Hc [Hb He]].
  set (d' := define (s_next s) (s_norg s) kind os).
  assert (Ha : d_addr d' = s_next s /\ d_root d' = None /\ d_org d' = s_norg s)
    by (unfold d', define; destruct (apply_opts_ids os
         {| d_addr := s_next s; d_root := None; d_org := s_norg s; d_kind := kind; d_fields := fields_empty;
            d_notrace := false; d_skip := 0; d_depth := 0; d_srclines := 0; d_srcdepth := 0;
            d_fmt := None; d_json := None; d_log := None |}) as [A [B C]]; auto).
  destruct Ha as [Ha [Hr Ho]].
  assert (Hroot : root d' = s_next s) by (unfold root; now rewrite Hr, Ha).
  split; [|split]; cbn [add_def s_defs s_next s_norg s_errs].
  - apply consistent_add; [exact Hc|]. intros d Hd. destruct (Hb d Hd) as [A [B C]].
    rewrite Hroot, Ha, Ho. repeat split; intros; lia.
  - intros d Hd. apply in_app_or in Hd. destruct Hd as [Hd|[<-|[]]].
    + destruct (Hb d Hd) as [A [B C]]. repeat split; lia.
    + rewrite Hroot, Ha, Ho. repeat split; lia.
  - intros e Hin. apply defs_within_mono. now apply He.
Qed.

Lemma inv_add_derived s d d' :
  Inv s -> In d (s_defs s) ->
  d' = d \/ (d_addr d' = s_next s /\ root d' = root d /\ d_org d' = d_org d) ->
  Inv (add_def s d' 1 false).
Proof.
  intros [Hc [Hb He]] Hd Hd'.
  split; [|split]; cbn [add_def s_defs s_next s_norg s_errs].
  - apply consistent_add; [exact Hc|]. intros d2 H2.
    destruct Hd' as [->|[Ha [Hr Ho]]].
    + destruct (Hc d d2 Hd H2) as [A B]. destruct (Hc d2 d H2 Hd) as [_ C]. auto.
    + destruct (Hc d d2 Hd H2) as [A B]. destruct (Hb d2 H2) as [X _].
      rewrite Hr, Ho, Ha. repeat split; try apply A; intros; lia.
  - intros d2 H2. apply in_app_or in H2. destruct H2 as [H2|[<-|[]]].
    + destruct (Hb d2 H2) as [A [B C]]. repeat split; lia.
    + destruct (Hb d Hd) as [A [B C]]. destruct Hd' as [->|[Ha [Hr Ho]]].
      * repeat split; lia.
      * rewrite Ha, Hr, Ho. repeat split; lia.
  - intros e Hin. apply defs_within_mono. now apply He.
Qed.

Lemma inv_add_ctx s c : Inv s -> Inv (add_ctx s c).
Proof. intros H. exact H. Qed.

Lemma inv_add_err s oe used :
  Inv s -> (forall e, oe = Some e -> defs_within (s_defs s) e) -> Inv (add_err s oe used).
Proof.
  intros [Hc [Hb He]] Hn. split; [|split]; cbn [add_err s_defs s_next s_norg s_errs].
  - exact Hc.
  - intros d Hd. destruct (Hb d Hd) as [A [B C]]. repeat split; lia.
  - intros e Hin. apply in_app_or in Hin. destruct Hin as [Hin|[E|[]]]; [now apply He|now apply Hn].
Qed.

(* ---- defs_within for each way of building an error ---- *)
Lemma in_tl {A} (x : A) l : In x (tl l) -> In x l.
Proof. destruct l; cbn; auto. Qed.

Lemma dw_def ds a d m cause j stk :
  In d ds -> (forall c, cause = Some c -> defs_within ds c) -> defs_within ds (EDef a d m cause j stk).
Proof.
  intros Hd Hc n d0 Hin Hn. cbn [reach] in Hin. destruct Hin as [<-|Hin].
  - cbn in Hn. now inversion Hn; subst.
  - destruct cause as [c|]; [|contradiction].
    apply (Hc c eq_refl n d0); [|exact Hn].
    destruct (j && is_multi c); [now apply in_tl|exact Hin].
Qed.

Lemma dw_flat ds (es : list err) n :
  (forall e, In e es -> defs_within ds e) -> In n (flat_map reach es) ->
  forall d0, node_def n = Some d0 -> In d0 ds.
Proof.
  intros H Hin d0 Hn. apply in_flat_map in Hin as [e [He Hr]]. eapply H; eauto.
Qed.

Lemma dw_join ds a es : (forall e, In e es -> defs_within ds e) -> defs_within ds (EJoin a es).
Proof.
  intros H n d0 Hin Hn. cbn [reach] in Hin. destruct Hin as [<-|Hin]; [discriminate|].
  eapply dw_flat; eauto.
Qed.

Lemma dw_wrapf ds a m c : defs_within ds c -> defs_within ds (EWrapF a m c).
Proof. intros H n d0 [<-|Hin] Hn; [discriminate|]. eapply H; eauto. Qed.

Lemma dw_single ds a m oc : (forall c, oc = Some c -> defs_within ds c) -> defs_within ds (ESingle a m oc).
Proof.
  intros H n d0 Hin Hn. cbn [reach] in Hin. destruct Hin as [<-|Hin]; [discriminate|].
  destruct oc as [c|]; [|contradiction]. eapply (H c eq_refl); eauto.
Qed.

Lemma in_somes {A} (x : A) l : In x (somes l) <-> In (Some x) l.
Proof.
  induction l as [|[y|] r IH]; cbn; [tauto| |].
  - rewrite IH. split; intros [E|E]; auto; [left; now f_equal|left; now inversion E].
  - rewrite IH. split; [auto|intros [E|E]; [discriminate|auto]].
Qed.

Lemma dw_multi ds a m cs : (forall c, In (Some c) cs -> defs_within ds c) -> defs_within ds (EMulti a m cs).
Proof.
  intros H n d0 Hin Hn. cbn [reach] in Hin. destruct Hin as [<-|Hin]; [discriminate|].
  apply in_flat_map in Hin as [[c|] [Hc Hr]]; [|contradiction]. eapply H; eauto.
Qed.

Lemma dw_leaf ds a m t : defs_within ds (ELeaf a m t).
Proof. intros n d0 [<-|[]] Hn. discriminate. Qed.

Lemma dw_defn ds d : In d ds -> defs_within ds (EDefn d).
Proof. intros H n d0 [<-|[]] Hn. cbn in Hn. now inversion Hn; subst. Qed.

Lemma dw_panic ds a m id oe : (forall c, oe = Some c -> defs_within ds c) -> defs_within ds (EPanic a m id oe).
Proof.
  intros H n d0 Hin Hn. cbn [reach] in Hin. destruct Hin as [<-|Hin]; [discriminate|].
  destruct oe as [c|]; [|contradiction]. eapply (H c eq_refl); eauto.
Qed.

(* ---- pool lookups ---- *)
Lemma get_err_in s o e : get_err s o = Some e -> In (Some e) (s_errs s).
Proof.
  unfold get_err. destruct o as [i|]; [|discriminate]. intros H.
  destruct (Nat.lt_ge_cases i (List.length (s_errs s))) as [L|L].
  - rewrite <- H. now apply nth_In.
  - rewrite nth_overflow in H by exact L. discriminate.
Qed.

Lemma get_def_in s f : Nat.ltb f (List.length (s_defs s)) = true -> In (get_def s f) (s_defs s).
Proof. intros H. apply Nat.ltb_lt in H. now apply nth_In. Qed.

Lemma get_err_dw s o e : Inv s -> get_err s o = Some e -> defs_within (s_defs s) e.
Proof. intros [_ [_ He]] H. apply He. eapply get_err_in; eauto. Qed.

(* ---- Recover ---- *)
Definition res_dw (ds : list defn) (r : cbres) : Prop :=
  match r with
  | Normal (Some e) => defs_within ds e
  | Normal None => True
  | Panicking (PVErr e) => defs_within ds e
  | Panicking (PVOther _ _) => True
  end.

Lemma dw_recovered ds a d v stk :
  In d ds -> res_dw ds (Panicking v) -> defs_within ds (recovered a d v stk).
Proof.
  intros Hd Hv. unfold recovered, new_error. apply dw_def; [exact Hd|].
  intros c E. inversion E; subst; clear E. destruct v as [e|id f]; apply dw_panic; intros c E; inversion E; subst.
  exact Hv.
Qed.

Lemma dw_inner_panic ds x : defs_within ds x -> defs_within ds (inner_panic x).
Proof.
  intros H. destruct x as [a d m [c|] j stk| | | | | | | | |]; try exact H.
  destruct c; try exact H. cbn [inner_panic].
  intros n dd Hn Hd. apply (H n dd); [|exact Hd].
  cbn [reach]. right. cbn [is_multi]. rewrite Bool.andb_false_r. exact Hn.
Qed.

Lemma eval_cb_dw s : Inv s -> forall c next,
  cb_ok (List.length (s_defs s)) (List.length (s_errs s)) c = true ->
  res_dw (s_defs s) (fst (eval_cb s c next)).
Proof.
  intros HI. induction c as [e|e|e|id f|m t|c IH|f c IH stk|f c1 IH1 stk c2 IH2]; intros next Hok; cbn [eval_cb cb_ok] in *.
  - cbn. destruct (get_err s e) as [x|] eqn:G; [|exact I]. eapply get_err_dw; eauto.
  - destruct (get_err s (Some e)) as [x|] eqn:G; cbn; [eapply get_err_dw; eauto|apply dw_leaf].
  - destruct (get_err s (Some e)) as [x|] eqn:G; cbn; [apply dw_inner_panic; eapply get_err_dw; eauto|apply dw_leaf].
  - exact I.
  - cbn. apply dw_leaf.
  - now apply IH.
  - apply andb_true_iff in Hok as [Hf Hc]. specialize (IH next Hc).
    destruct (eval_cb s c next) as [[r|v] n]; cbn in *; [exact IH|].
    apply dw_recovered; [now apply get_def_in|exact IH].
  - apply andb_true_iff in Hok as [Hok Hc2]. apply andb_true_iff in Hok as [Hf Hc1].
    destruct (eval_cb s c1 next) as [[r|v] n]; now apply IH2.
Qed.

Lemma somes_map_get s cs e : In e (somes (map (get_err s) cs)) -> In (Some e) (s_errs s).
Proof.
  intros H. apply in_somes in H. apply in_map_iff in H as [o [G _]]. eapply get_err_in; eauto.
Qed.

(* ---- one statement ---- *)
Lemma inv_step s x : Inv s -> st_ok s x = true -> Inv (step s x).
Proof.
  intros HI Hok. pose proof HI as [Hc [Hb He]]. unfold st_ok in Hok.
  destruct x; cbn [step stmt_ok] in *.
  - now apply inv_add_define.
  - now apply inv_add_ctx.
  - apply andb_true_iff in Hok as [Hd _]. apply (inv_add_derived s (get_def s d)); [exact HI|now apply get_def_in|].
    unfold with_. destruct (get_ctx s ctx) as [|o1 r1]; [destruct os as [|o2 r2]; [now left|]|]; right.
    all: rewrite !root_apply_opts;
      destruct (apply_opts_ids os (apply_opts (clone (s_next s) (get_def s d)) (get_ctx s ctx))) as [A [_ C]] ||
      idtac.
    all: repeat match goal with |- context [apply_opts ?d ?o] =>
           let A := fresh in let B := fresh in let C := fresh in
           destruct (apply_opts_ids o d) as [A [B C]]; rewrite ?A, ?C; clear A B C end.
    all: cbn; auto.
  - apply (inv_add_derived s (get_def s d)); [exact HI|now apply get_def_in|].
    unfold with_options. destruct os as [|o r]; [now left|right].
    rewrite root_apply_opts. destruct (apply_opts_ids (o :: r) (clone (s_next s) (get_def s d))) as [A [_ C]].
    rewrite A, C. cbn. auto.
  - apply inv_add_err; [exact HI|]. intros e E. inversion E; subst. apply dw_def; [now apply get_def_in|discriminate].
  - apply inv_add_err; [exact HI|]. intros e E. inversion E; subst. apply dw_def; [now apply get_def_in|discriminate].
  - apply andb_true_iff in Hok as [Hf _]. apply inv_add_err; [exact HI|]. intros e E.
    unfold c_wrap in E. destruct (get_err s c) as [x|] eqn:G; [|discriminate]. inversion E; subst.
    apply dw_def; [now apply get_def_in|]. intros c0 E0. inversion E0; subst. eapply get_err_dw; eauto.
  - apply andb_true_iff in Hok as [Hf _]. apply inv_add_err; [exact HI|]. intros e E.
    unfold c_wrapf in E. destruct (get_err s c) as [x|] eqn:G; [|discriminate]. inversion E; subst.
    apply dw_def; [now apply get_def_in|]. intros c0 E0. inversion E0; subst. eapply get_err_dw; eauto.
  - apply andb_true_iff in Hok as [Hf _]. apply inv_add_err; [exact HI|]. intros e E.
    unfold c_join in E. destruct (somes (map (get_err s) cs)) as [|c1 [|c2 r]] eqn:S; [discriminate| |];
      inversion E; subst; (apply dw_def; [now apply get_def_in|]); intros c0 E0; inversion E0; subst.
    + apply He. apply (somes_map_get s cs). rewrite S. now left.
    + apply dw_join. intros e' Hin. apply He. apply (somes_map_get s cs). rewrite S. exact Hin.
  - apply andb_true_iff in Hok as [Hf Hcb]. unfold c_recover.
    pose proof (eval_cb_dw s HI c (s_next s) Hcb) as Hr.
    destruct (eval_cb s c (s_next s)) as [[r|v] n]; cbn [fst] in Hr.
    + apply inv_add_err; [exact HI|]. intros e E. subst r. exact Hr.
    + apply inv_add_err; [exact HI|]. intros e E. inversion E; subst.
      apply dw_recovered; [now apply get_def_in|exact Hr].
  - destruct (get_err s (Some c)) as [e|] eqn:G; apply inv_add_err; try exact HI; intros e' E; inversion E; subst.
    + apply dw_wrapf. eapply get_err_dw; eauto.
    + apply dw_leaf.
  - apply inv_add_err; [exact HI|]. intros e E. unfold errors_join in E.
    destruct (somes (map (get_err s) cs)) as [|c1 [|c2 r]] eqn:S; [discriminate| |].
    + assert (In (Some c1) (s_errs s)) by (apply (somes_map_get s cs); rewrite S; now left).
      destruct (is_multi c1); inversion E; subst; [now apply He|].
      apply dw_join. intros e' [<-|[]]. now apply He.
    + inversion E; subst. apply dw_join. intros e' Hin. apply He. apply (somes_map_get s cs). rewrite S. exact Hin.
  - apply inv_add_err; [exact HI|]. intros e E. inversion E; subst. apply dw_single.
    intros c0 G. eapply get_err_dw; eauto.
  - apply inv_add_err; [exact HI|]. intros e E. inversion E; subst. apply dw_multi.
    intros c0 Hin. apply in_map_iff in Hin as [o [G _]]. eapply get_err_dw; eauto.
  - apply inv_add_err; [exact HI|]. intros e E. inversion E; subst. apply dw_leaf.
  - apply inv_add_err; [exact HI|]. intros e E. inversion E; subst. apply dw_defn. now apply get_def_in.
Qed.

Theorem inv_run_from p : forall s, Inv s -> prog_ok_from s p = true -> Inv (fold_left step p s).
Proof.
  induction p as [|x r IH]; intros s HI Hok; [exact HI|]. cbn in *.
  apply andb_true_iff in Hok as [H1 H2]. apply IH; [now apply inv_step|exact H2].
Qed.

Theorem inv_run p : prog_ok p = true -> Inv (run p).
Proof. apply inv_run_from. exact inv0. Qed.

(* ---------- the reverse direction: errors.Is(D, e) ---------- *)
Lemma find_some_in {A} (p : A -> bool) l x : find p l = Some x -> In x l /\ p x = true.
Proof. apply find_some. Qed.

Theorem rev_is_direct ds D e : consistent ds -> In D ds -> defs_within ds e ->
  errors_is (EDefn D) e = spec_rev D e.
Proof.
  intros H HD He. unfold errors_is. rewrite reach_defn. cbn [existsb is_method]. rewrite orb_false_r.
  unfold spec_rev, defn_is, as_first.
  assert (S : same (EDefn D) e = true -> match e with EDefn td => N.eqb (d_addr D) (d_addr td) | _ => false end = true).
  { unfold same. destruct e; cbn; try discriminate. intros E. exact E. }
  assert (F1 : match find is_defined_error (reach e) with
               | Some (EDef _ dd _ _ _ _) => N.eqb (root D) (root dd) | _ => false end
             = match find is_defined_error (reach e) with Some n => has_org (d_org D) n | None => false end).
  { destruct (find is_defined_error (reach e)) as [n|] eqn:F; [|reflexivity].
    apply find_some in F as [Hin Hp]. destruct n; try discriminate Hp.
    unfold has_org. cbn. rewrite (root_org ds D d H HD (He _ d Hin eq_refl)). apply Nat.eqb_sym. }
  assert (F2 : match find is_definition (reach e) with
               | Some (EDefn td) => N.eqb (root D) (root td) | _ => false end
             = match find is_definition (reach e) with Some n => has_org (d_org D) n | None => false end).
  { destruct (find is_definition (reach e)) as [n|] eqn:F; [|reflexivity].
    apply find_some in F as [Hin Hp]. destruct n; try discriminate Hp.
    unfold has_org. cbn. rewrite (root_org ds D d H HD (He _ d Hin eq_refl)). apply Nat.eqb_sym. }
  rewrite F1, F2.
  destruct (same (EDefn D) e) eqn:E; [rewrite (S eq_refl); reflexivity|reflexivity].
Qed.

(* ---------- the matrices of the check ---------- *)
Lemma map_ext_in2 {A B} (f g : A -> B) l : (forall a, In a l -> f a = g a) -> map f l = map g l.
Proof. apply map_ext_in. Qed.

Theorem model_is_spec p : prog_ok p = true ->
  model_is (run p) = spec_is_mat (run p) /\ model_rev (run p) = spec_rev_mat (run p).
Proof.
  intros Hok. pose proof (inv_run p Hok) as [Hc [_ He]]. split.
  - unfold model_is, spec_is_mat. apply map_ext_in. intros oe Hoe. apply map_ext_in. intros d Hd.
    destruct oe as [e|]; [|reflexivity]. cbn. apply (is_iff_origin (s_defs (run p))); auto.
  - unfold model_rev, spec_rev_mat. apply map_ext_in. intros d Hd. apply map_ext_in. intros oe Hoe.
    destruct oe as [e|]; [|reflexivity]. cbn. apply (rev_is_direct (s_defs (run p))); auto.
Qed.

Theorem corr_implies_ok c : prog_ok (c_prog c) = true -> corr c = true -> ok c = true.
Proof.
  intros Hp. unfold corr, ok. rewrite Hp. destruct (model_is_spec _ Hp) as [-> ->]. auto.
Qed.

(* two separately defined definitions: different origins never match *)
Theorem separate_defines_disjoint ds e D : consistent ds -> In D ds -> defs_within ds e ->
  (forall n d, In n (reach e) -> node_def n = Some d -> d_org d <> d_org D) ->
  errors_is e (EDefn D) = false.
Proof.
  intros H HD He Hno. rewrite (is_iff_origin ds) by assumption. unfold spec_is.
  apply not_true_is_false. intros E. apply existsb_exists in E as [n [Hin Ho]].
  unfold has_org in Ho. destruct n; cbn in Ho; try discriminate; apply Nat.eqb_eq in Ho;
    eapply Hno; eauto; reflexivity.
Qed.
