From Errdef Require Import Base.Str Base.Outcome Model.Value Model.Resolver.

(* ---------- specification side ---------- *)
Definition spec_kind (defs : list rdef) (k : string) : option rdef :=
  find (fun d => str_eqb (rd_kind d) k) defs.

Definition unwrap1 (v : rv) : rv := match v with RFV i => i | _ => v end.

Definition spec_match (key : N) (want : rv) (d : rdef) : bool :=
  match rd_get d key with
  | Some (_, v) => go_eq v (unwrap1 want)
  | None => false
  end.
Definition spec_field (defs : list rdef) (key : N) (want : rv) : option rdef :=
  find (spec_match key want) defs.

(* definitions are Go pointers: one identity, one content *)
Definition wf_defs (defs : list rdef) : Prop :=
  forall d1 d2, In d1 defs -> In d2 defs -> rd_id d1 = rd_id d2 -> d1 = d2.

Lemma wf_tail x l : wf_defs (x :: l) -> wf_defs l.
Proof. intros H d1 d2 H1 H2. apply H; now right. Qed.

(* ---------- compaction does not change "first match" ---------- *)
Lemma find_compact (p : rdef -> bool) l : wf_defs l -> find p (compact l) = find p l.
Proof.
  induction l as [|x r IH]; intros Hwf; [reflexivity|].
  destruct r as [|y r'].
  - reflexivity.
  - change (compact (x :: y :: r')) with
      (if N.eqb (rd_id x) (rd_id y) then compact (y :: r') else x :: compact (y :: r')).
    destruct (N.eqb (rd_id x) (rd_id y)) eqn:E.
    + apply N.eqb_eq in E.
      assert (x = y) by (apply Hwf; [now left | right; now left | exact E]). subst y.
      rewrite IH by (eapply wf_tail; eauto).
      cbn [find]. destruct (p x); reflexivity.
    + cbn [find]. destruct (p x); [reflexivity|].
      apply IH. eapply wf_tail; eauto.
Qed.

(* ---------- the first-wins map equals "first in the list" ---------- *)
Definition kfind (m : list (string * rdef)) (k : string) :=
  option_map snd (find (fun kv => str_eqb (fst kv) k) m).

Lemma kfind_app m1 m2 k :
  kfind (m1 ++ m2) k = match kfind m1 k with Some d => Some d | None => kfind m2 k end.
Proof.
  unfold kfind. induction m1 as [|[k1 d1] r IH]; simpl; [reflexivity|].
  destruct (str_eqb k1 k); simpl; [reflexivity|exact IH].
Qed.

Lemma existsb_kfind m k :
  existsb (fun kv : string * rdef => str_eqb (fst kv) k) m = true <-> kfind m k <> None.
Proof.
  unfold kfind. induction m as [|[k1 d1] r IH]; simpl.
  - split; [discriminate|congruence].
  - destruct (str_eqb k1 k); simpl; [split; [discriminate|reflexivity]|exact IH].
Qed.

Lemma kfind_insert m d k :
  kfind (kind_insert m d) k =
  match kfind m k with
  | Some x => Some x
  | None => if str_eqb (rd_kind d) k then Some d else None
  end.
Proof.
  unfold kind_insert.
  destruct (existsb (fun kv => str_eqb (fst kv) (rd_kind d)) m) eqn:E.
  - destruct (kfind m k) eqn:F; [reflexivity|].
    destruct (str_eqb (rd_kind d) k) eqn:Ek; [|reflexivity].
    apply str_eqb_eq in Ek. subst k. apply existsb_kfind in E. congruence.
  - rewrite kfind_app. destruct (kfind m k); [reflexivity|].
    unfold kfind. simpl. destruct (str_eqb (rd_kind d) k); reflexivity.
Qed.

Lemma kfind_fold ds : forall m k,
  kfind (fold_left kind_insert ds m) k =
  match kfind m k with Some x => Some x | None => spec_kind ds k end.
Proof.
  induction ds as [|d r IH]; intros m k; simpl.
  - destruct (kfind m k); reflexivity.
  - rewrite IH, kfind_insert. destruct (kfind m k); [reflexivity|].
    unfold spec_kind. simpl. destruct (str_eqb (rd_kind d) k); reflexivity.
Qed.

Lemma resolve_kind_first defs k :
  wf_defs defs -> resolve_kind (new_resolver defs) k = spec_kind defs k.
Proof.
  intros Hwf. unfold resolve_kind, new_resolver. cbn [r_by_kind].
  change (kfind (fold_left kind_insert (compact defs) []) k = spec_kind defs k).
  rewrite kfind_fold. cbn. unfold spec_kind. now apply find_compact.
Qed.

Lemma resolve_kind_none_iff defs k :
  wf_defs defs ->
  (resolve_kind (new_resolver defs) k = None <-> forall d, In d defs -> rd_kind d <> k).
Proof.
  intros Hwf. rewrite resolve_kind_first by assumption. unfold spec_kind. split.
  - intros H d Hin E. eapply find_none in H; eauto. cbn in H. subst k.
    rewrite str_eqb_refl in H. discriminate.
  - intros H. destruct (find _ defs) as [d|] eqn:F; [|reflexivity].
    apply find_some in F as [Hin E]. apply str_eqb_eq in E. now apply H in Hin.
Qed.

(* ---------- Equal ---------- *)
Lemma go_eq_dyn a b : go_eq a b = true -> dyn a = dyn b.
Proof.
  destruct a, b; simpl; try discriminate; try reflexivity; intros H;
    repeat (apply andb_true_iff in H as [H ?]);
    try (apply N.eqb_eq in H; now subst).
  all: destruct u; try discriminate; destruct u0; try discriminate; reflexivity.
Qed.

Definition not_fv (v : rv) : bool := match v with RFV _ => false | _ => true end.
Definition plain (v : rv) : bool := match v with RFV _ | RNil => false | _ => true end.

(* what other.(T) needs: a stored value always has static type T *)
Definition stored_ok (T : st) (v : rv) : bool :=
  plain v && match T with STy t => opt_N_eqb (dyn v) (Some t) | SAny => true end.

Lemma opt_N_eqb_eq a b : opt_N_eqb a b = true <-> a = b.
Proof. apply option_eqb_eq. intros; apply N.eqb_eq. Qed.

Lemma go_eq_false a b : dyn a <> dyn b -> go_eq a b = false.
Proof. intros H. destruct (go_eq a b) eqn:G; [|reflexivity]. apply go_eq_dyn in G. contradiction. Qed.

Lemma fv_equal_raw T stored other :
  stored_ok T stored = true -> not_fv other = true ->
  fv_equal T stored other = Ok (go_eq stored other).
Proof.
  intros Hs Ho. apply andb_true_iff in Hs as [Hp HT].
  assert (Hfv : fv_equal T stored other =
     if asserts T other then
       if negb (opt_N_eqb (dyn stored) (dyn other)) then Ok false else
       match stored with
       | RUrl a => match a, other with
                   | Some _, RUrl (Some _) => Ok (go_eq stored other)
                   | _, RUrl b => Ok (match a, b with None, None => true | _, _ => false end)
                   | _, _ => Ok false end
       | RNil | RFV _ => Ok false
       | _ => Ok (go_eq stored other) end
     else Ok false).
  { destruct other; try discriminate Ho; cbn [fv_equal]; destruct (asserts T _); try reflexivity;
    destruct (negb _); try reflexivity; destruct stored; try reflexivity;
    try (destruct (builtin_scalar _); reflexivity). }
  rewrite Hfv; clear Hfv.
  destruct (asserts T other) eqn:A.
  - destruct (opt_N_eqb (dyn stored) (dyn other)) eqn:D; cbn [negb].
    + destruct stored; try discriminate Hp; try reflexivity.
      destruct other; try discriminate Ho; try (destruct u; reflexivity).
      destruct u, u0; reflexivity.
    + rewrite go_eq_false; [reflexivity|]. intro E. apply opt_N_eqb_eq in E. congruence.
  - rewrite go_eq_false; [reflexivity|].
    destruct other; try discriminate Ho.
    all: try (destruct stored; try discriminate Hp; discriminate).
    all: destruct T as [t|]; [|discriminate A]; cbn [asserts] in A.
    all: apply opt_N_eqb_eq in HT; rewrite HT; intro E; rewrite <- E in A.
    all: rewrite (proj2 (opt_N_eqb_eq _ _) eq_refl) in A; discriminate.
Qed.

(* ---------- ResolveField ---------- *)
Definition defs_ok (defs : list rdef) : Prop :=
  forall d key T v, In d defs -> rd_get d key = Some (T, v) -> stored_ok T v = true.
Definition want_ok (want : rv) : bool := match want with RFV (RFV _) => false | _ => true end.

Lemma resolve_field_func_find ds key w :
  not_fv w = true -> defs_ok ds ->
  resolve_field_func ds key (fun T v => fv_equal T v w)
  = Ok (find (fun d => match rd_get d key with Some (_, v) => go_eq v w | None => false end) ds).
Proof.
  intros Hw. induction ds as [|d r IH]; intros Hok; [reflexivity|].
  assert (Hr : defs_ok r) by (intros d' k T v Hin; apply Hok; now right).
  cbn [resolve_field_func find].
  destruct (rd_get d key) as [[T v]|] eqn:G; [|now apply IH].
  rewrite fv_equal_raw; [|eapply Hok; [now left|exact G]|exact Hw].
  destruct (go_eq v w); [reflexivity|now apply IH].
Qed.

Lemma defs_ok_compact defs : defs_ok defs -> defs_ok (compact defs).
Proof.
  intros H d key T v Hin. apply (H d key T v). clear - Hin.
  induction defs as [|x r IH]; [contradiction|].
  destruct r as [|y r']; [exact Hin|].
  change (compact (x :: y :: r')) with
    (if N.eqb (rd_id x) (rd_id y) then compact (y :: r') else x :: compact (y :: r')) in Hin.
  destruct (N.eqb (rd_id x) (rd_id y)); [right; now apply IH|].
  destruct Hin as [->|Hin]; [now left|right; now apply IH].
Qed.

Lemma resolve_field_first defs key want :
  wf_defs defs -> defs_ok defs -> want_ok want = true ->
  resolve_field (new_resolver defs) key want = Ok (spec_field defs key want).
Proof.
  intros Hwf Hok Hw. unfold resolve_field, new_resolver, spec_field. cbn [r_defs].
  rewrite <- (find_compact (spec_match key want)) by assumption.
  unfold spec_match.
  destruct want as [| | | | | | |inner]; cbn [unwrap1];
    try (apply resolve_field_func_find; [reflexivity|now apply defs_ok_compact]).
  destruct inner; try discriminate Hw;
    (apply resolve_field_func_find; [reflexivity|now apply defs_ok_compact]).
Qed.

Lemma or_default_iff {A} (dflt : A) o r :
  or_default dflt o = r <-> (exists a, o = Some a /\ r = a) \/ (o = None /\ r = dflt).
Proof.
  destruct o as [a|]; cbn; split.
  - intros <-. left. now exists a.
  - intros [[a' [E ->]]|[E _]]; [now inversion E|discriminate].
  - intros <-. now right.
  - intros [[a' [E _]]|[_ ->]]; [discriminate|reflexivity].
Qed.
