From Errdef Require Import Base.Str Model.Core Model.GoErrors Model.Prog Model.Tree0 Model.Slog Check.Render Check.C19.

(* two groups related by sv_eqb have the same keys and related attributes *)
Lemma group_eqb_keys l1 l2 : sv_eqb (SVGroup l1) (SVGroup l2) = true ->
  list_eqb str_eqb (map fst l1) (map fst l2) = true /\
  forall k, option_eqb sv_eqb (option_map snd (find (fun a => str_eqb (fst a) k) l1))
                              (option_map snd (find (fun a => str_eqb (fst a) k) l2)) = true.
Proof.
  cbn [sv_eqb]. revert l2. induction l1 as [|[k1 x] r1 IH]; intros [|[k2 y] r2] H; try discriminate.
  - split; [reflexivity|]. intros k. reflexivity.
  - apply andb_true_iff in H as [H Hr]. apply andb_true_iff in H as [Hk Hx].
    destruct (IH r2 Hr) as [A B]. split.
    + cbn. now rewrite Hk, A.
    + intros k. cbn. apply str_eqb_eq in Hk. subst k2. destruct (str_eqb k1 k); [exact Hx|apply B].
Qed.

Lemma keys_of_eqb o m : sv_eqb o (SVGroup m) = true -> list_eqb str_eqb (keys_of o) (map fst m) = true.
Proof. destruct o; try discriminate. intros H. now apply group_eqb_keys. Qed.

Lemma attr_eqb o m k : sv_eqb o (SVGroup m) = true ->
  option_eqb sv_eqb (attr k o) (option_map snd (find (fun a => str_eqb (fst a) k) m)) = true.
Proof. destruct o; try discriminate. intros H. now apply group_eqb_keys. Qed.

Lemma find_app_l {A} (p : A -> bool) l1 l2 x : find p l1 = Some x -> find p (l1 ++ l2) = Some x.
Proof. induction l1 as [|y r IH]; cbn; [discriminate|]. destruct (p y); auto. Qed.
Lemma find_app_r {A} (p : A -> bool) l1 l2 : find p l1 = None -> find p (l1 ++ l2) = find p l2.
Proof. induction l1 as [|y r IH]; cbn; [reflexivity|]. destruct (p y); [discriminate|auto]. Qed.

(* the error's own log value: exactly message, kind, fields, origin - never stack or causes *)
Theorem error_group e :
  (match e_def e with Some d => d_log d | None => None end) = None ->
  keys_of (log_value e) =
    ["message"] ++ (if str_eqb (e_kind e) "" then [] else ["kind"])
                ++ (match e_fields_all e with [] => [] | _ => ["fields"] end)
                ++ (match e_stack e with [] => [] | _ => ["origin"] end) /\
  attr "message" (log_value e) = Some (SVStr (err_msg e)) /\
  (str_eqb (e_kind e) "" = false -> attr "kind" (log_value e) = Some (SVStr (e_kind e))) /\
  (e_fields_all e <> [] -> attr "fields" (log_value e) = Some (fields_sv (e_fields_all e))) /\
  (forall f r, e_stack e = f :: r -> attr "origin" (log_value e) = Some (frame_sv f)) /\
  attr "stack" (log_value e) = None /\ attr "causes" (log_value e) = None.
Proof.
  intros Hl. unfold log_value. rewrite Hl.
  destruct (str_eqb (e_kind e) "") eqn:Ek; destruct (e_fields_all e) as [|x all] eqn:Ea; destruct (e_stack e) as [|f r] eqn:Es;
    cbn; repeat split; try reflexivity; try discriminate; try congruence;
    try (intros f0 r0 E; inversion E; reflexivity).
Qed.

Theorem valuer_local e id :
  (match e_def e with Some d => d_log d | None => None end) = Some id -> log_value e = custom_log id (err_msg e).
Proof. intros H. unfold log_value. now rewrite H. Qed.

(* a node's log value carries the whole subtree: one entry per child, each the child's own node value *)
Theorem node_full_subtree e kids :
  exists attrs, node_log_value (T e kids) = SVGroup attrs /\
  option_map snd (find (fun a => str_eqb (fst a) "message") attrs) = Some (SVStr (err_msg e)) /\
  (kids <> [] ->
   option_map snd (find (fun a => str_eqb (fst a) "causes") attrs)
   = Some (SVList (map (fun k => match node_log_value k with SVGroup a => SVMap (to_map a) | o => o end) kids))) /\
  (is_errdef_error e = true -> e_stack e <> [] ->
   option_map snd (find (fun a => str_eqb (fst a) "stack") attrs) = Some (SVFrames (e_stack e))).
Proof.
  cbn [node_log_value]. destruct (is_errdef_error e); eexists; (split; [reflexivity|]); (split; [reflexivity|]).
  - split.
    + intros Hk. destruct kids as [|k r]; [congruence|].
      destruct (str_eqb (e_kind e) ""); destruct (e_fields_all e); destruct (e_stack e); cbn; reflexivity.
    + intros _ Hs. destruct (e_stack e) as [|f r]; [congruence|].
      destruct (str_eqb (e_kind e) ""); destruct (e_fields_all e); destruct kids; cbn; reflexivity.
  - split; [|discriminate]. intros Hk. destruct kids as [|k r]; [congruence|]. cbn. reflexivity.
Qed.

Theorem corr_implies_ok s given o : corr1 s given o = true -> ok1 s given o = true.
Proof.
  unfold corr1, ok1. destruct (subject_err s given (o_subject o)) as [e|]; [|discriminate].
  unfold model_obs. intros H. apply andb_true_iff in H as [H Hh]. apply andb_true_iff in H as [H Hs].
  apply andb_true_iff in H as [He Hn]. rewrite Hs. cbn [andb].
  rewrite Hn, andb_true_r. rewrite andb_true_r.
  destruct (match e_def e with Some d => d_log d | None => None end) as [id|] eqn:El.
  - now rewrite (valuer_local e id El) in He.
  - unfold log_value in He. rewrite El in He.
    pose proof (keys_of_eqb _ _ He) as K. pose proof (fun k => attr_eqb _ _ k He) as A.
    repeat rewrite map_app in K. 
    destruct (str_eqb (e_kind e) "") eqn:Ek; destruct (e_fields_all e) as [|x all] eqn:Ea; destruct (e_stack e) as [|f r] eqn:Es;
      cbn in K |- *; rewrite K; cbn [andb orb];
      repeat match goal with |- context [attr ?k (o_err o)] => let X := fresh in pose proof (A k) as X; unfold fields_sv in X; cbn in X; rewrite X; clear X end;
      cbn; try reflexivity; try exact Hh.
Qed.
