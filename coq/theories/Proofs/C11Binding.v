(* C11 at the level of a decoded field: which key a value binds to when several keys carry its name. *)
From Coq Require Import List Bool.
From Errdef Require Import Base.Str Base.Outcome Model.Core Model.Convert Model.Unmarshal.
Import ListNotations.

(* the keys a decoded field of name n can bind to, in the order the code tries them: the definition's
   keys of that name in All() order, then the custom keys of that name in registration order *)
Definition cands (c : ucfg) (d : udef) (n : string) : list ukey :=
  (named n (ud_keys d) ++ named n (u_custom c))%list.

Definition declines (v : dval) (k : ukey) : Prop := try_convert (uk_ty k) v = Ok None.
Definition accepts (v : dval) (k : ukey) (b : bval) : Prop := try_convert (uk_ty k) v = Ok (Some b).

Lemma first_convert_app l1 l2 v :
  first_convert (l1 ++ l2) v =
  match first_convert l1 v with
  | Ok None => first_convert l2 v
  | r => r
  end.
Proof.
  induction l1 as [|k l1 IH]; cbn [app first_convert]; [reflexivity|].
  destruct (try_convert (uk_ty k) v) as [[b|]|cl|w]; try reflexivity. exact IH.
Qed.

Lemma first_convert_some l v key b :
  first_convert l v = Ok (Some (key, b)) <->
  exists l1 l2, l = (l1 ++ key :: l2)%list /\ Forall (declines v) l1 /\ accepts v key b.
Proof.
  split.
  - revert key b. induction l as [|k l IH]; cbn [first_convert]; intros key b H; [discriminate|].
    destruct (try_convert (uk_ty k) v) as [[b'|]|cl|w] eqn:E; try discriminate.
    + inversion H; subst. exists [], l. repeat split; [constructor|exact E].
    + destruct (IH _ _ H) as [l1 [l2 [-> [F A]]]]. exists (k :: l1), l2. repeat split; [constructor; assumption|exact A].
  - intros [l1 [l2 [-> [F A]]]]. induction F as [|k l1 Hk F IH]; cbn [app first_convert].
    + unfold accepts in A. rewrite A. reflexivity.
    + unfold declines in Hk. rewrite Hk. exact IH.
Qed.

Lemma first_convert_none l v : first_convert l v = Ok None <-> Forall (declines v) l.
Proof.
  split.
  - induction l as [|k l IH]; cbn [first_convert]; intros H; [constructor|].
    destruct (try_convert (uk_ty k) v) as [[b'|]|cl|w] eqn:E; try discriminate.
    constructor; [exact E|exact (IH H)].
  - intros F. induction F as [|k l Hk F IH]; cbn [first_convert]; [reflexivity|].
    unfold declines in Hk. rewrite Hk. exact IH.
Qed.

(* bind_field is first_convert over the candidate list *)
Lemma bind_field_cands c d k n v : is_placeholder v = false ->
  bind_field c d k n v =
  match first_convert (cands c d n) v with
  | Ok (Some (key, b)) => FTyped key b
  | Fail _ => FFail {| fl_class := cls_internal; fl_kind := ""; fl_field := "" |}
  | Panic w => FPanic w
  | Ok None => if u_strict c then FFail {| fl_class := cls_field; fl_kind := k; fl_field := n |} else FUnknown v
  end.
Proof.
  intros Hp. unfold bind_field, cands. rewrite Hp, first_convert_app.
  destruct (first_convert (named n (ud_keys d)) v) as [[[key b]|]|cl|w]; reflexivity.
Qed.

(* a bound field is bound to the FIRST candidate that accepts the value, with the value try_convert gives *)
Theorem bound_is_first_accepting c d k n v key b :
  bind_field c d k n v = FTyped key b ->
  exists l1 l2, cands c d n = (l1 ++ key :: l2)%list /\ Forall (declines v) l1 /\ accepts v key b.
Proof.
  intros H. destruct (is_placeholder v) eqn:Hp.
  - unfold bind_field in H. rewrite Hp in H. discriminate.
  - rewrite (bind_field_cands _ _ _ _ _ Hp) in H. apply first_convert_some.
    destruct (first_convert (cands c d n) v) as [[[key' b']|]|cl|w]; try discriminate.
    + inversion H; subst. reflexivity.
    + destruct (u_strict c); discriminate.
Qed.

(* completeness: if some candidate accepts the value and every candidate before it declines, the field is
   bound - to that candidate - whatever the number of same-named keys and wherever they are registered *)
Theorem accepted_is_bound c d k n v l1 key l2 b :
  is_placeholder v = false ->
  cands c d n = (l1 ++ key :: l2)%list -> Forall (declines v) l1 -> accepts v key b ->
  bind_field c d k n v = FTyped key b.
Proof.
  intros Hp E F A. rewrite (bind_field_cands _ _ _ _ _ Hp).
  assert (H : first_convert (cands c d n) v = Ok (Some (key, b))) by (apply first_convert_some; exists l1, l2; auto).
  rewrite H. reflexivity.
Qed.

(* a field that stays unknown (lenient) or fails with ErrUnknownField (strict) was declined by EVERY candidate *)
Theorem unbound_was_declined_by_all c d k n v :
  is_placeholder v = false ->
  (bind_field c d k n v = FUnknown v \/
   bind_field c d k n v = FFail {| fl_class := cls_field; fl_kind := k; fl_field := n |}) ->
  Forall (declines v) (cands c d n).
Proof.
  intros Hp H. rewrite (bind_field_cands _ _ _ _ _ Hp) in H. apply first_convert_none.
  destruct (first_convert (cands c d n) v) as [[[key' b']|]|cl|w]; try reflexivity;
    destruct H as [H|H]; try discriminate.
Qed.

Theorem all_declined_is_unknown_or_strict_failure c d k n v :
  is_placeholder v = false -> Forall (declines v) (cands c d n) ->
  bind_field c d k n v =
  if u_strict c then FFail {| fl_class := cls_field; fl_kind := k; fl_field := n |} else FUnknown v.
Proof.
  intros Hp F. rewrite (bind_field_cands _ _ _ _ _ Hp). apply first_convert_none in F. rewrite F. reflexivity.
Qed.
