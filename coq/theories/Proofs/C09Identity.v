(* C09, identity: the restored error carries, node for node, the definitions of the original's
   cause tree - hence the same errors.Is answers for every registered definition. *)
From Errdef Require Import Base.Str Base.Outcome Model.Core Model.GoErrors Model.Prog Model.Tree0 Model.Json
  Model.Convert Model.Unmarshal Model.Decode Check.UM Check.C01 Check.C09 Proofs.C01Proofs Proofs.C08Proofs Proofs.C09Proofs
  Proofs.C10Proofs Proofs.C13Proofs Proofs.C12Proofs Proofs.C09Structure.

(* ---------- every definition of a restored tree is the resolver's answer ---------- *)
Fixpoint rdefs_ok (c : ucfg) (r : rerr) : Prop :=
  match r with
  | RErr d _ _ _ _ cs =>
      (exists k, resolve_kind_u c k = UOk d) /\
      (fix go (l : list rcause) : Prop := match l with [] => True | x :: t => cdefs_ok c x /\ go t end) cs
  end
with cdefs_ok (c : ucfg) (x : rcause) : Prop :=
  match x with
  | RCErr e => rdefs_ok c e
  | RCDef d => In d (u_defs c)
  | RCSentinel _ => True
  | RCUnknown _ _ cs => (fix go (l : list rcause) : Prop := match l with [] => True | x :: t => cdefs_ok c x /\ go t end) cs
  end.

Lemma cdefs_list c l : (fix go (l : list rcause) : Prop := match l with [] => True | x :: t => cdefs_ok c x /\ go t end) l <-> Forall (cdefs_ok c) l.
Proof. induction l as [|x t IH]; cbn; split; intros H; [constructor|exact I| |]; [destruct H; constructor; [assumption|now apply IH]|inversion H; subst; split; [assumption|now apply IH]]. Qed.

Lemma seq_causes_ok c rs l : seq_causes rs = UOk l -> Forall (fun r => forall x, r = UOk x -> cdefs_ok c x) rs -> Forall (cdefs_ok c) l.
Proof.
  revert l. induction rs as [|r rest IH]; intros l E H; cbn in E; [inversion E; constructor|].
  inversion H; subst. destruct r as [x|f|w]; try discriminate.
  destruct (seq_causes rest) as [xs|f|w] eqn:Er; try discriminate. inversion E; subst.
  constructor; [now apply H2|]. now apply IH.
Qed.

Theorem unmarshal_defs_from_resolver c : forall d,
  (forall r, fst (both c d) = UOk r -> rdefs_ok c r) /\ (forall x, snd (both c d) = UOk x -> cdefs_ok c x).
Proof.
  induction d as [m k t fs st cs u IH] using dd_ind'.
  rewrite both_unfold. cbv zeta.
  assert (Hc : forall l, seq_causes (cause_results c cs) = UOk l -> Forall (cdefs_ok c) l).
  { intros l E. apply (seq_causes_ok c _ _ E). clear E l.
    induction cs as [|o r IHr]; [constructor|]. destruct o as [x|]; constructor.
    - intros y Hy. apply (proj2 (IH x (or_introl eq_refl))). exact Hy.
    - apply IHr. intros d Hd. apply IH. now right.
    - intros y Hy. discriminate.
    - apply IHr. intros d Hd. apply IH. now right. }
  set (cres := seq_causes (cause_results c cs)) in *.
  assert (He : forall r, match resolve_kind_u c k with
                         | UFail f => UFail f | UPanic w => UPanic w
                         | UOk def =>
                             let '(typed, unknown, fails, pn) := collect_fields (map (fun nv => (fst nv, bind_field c def k (fst nv) (snd nv))) (sort_fields fs)) in
                             match pn, fails with
                             | Some w, _ => UPanic w | None, f :: _ => UFail [f]
                             | None, [] => match cres with UOk cs0 => UOk (RErr def m typed unknown st cs0) | UFail f => UFail f | UPanic w => UPanic w end
                             end
                         end = UOk r -> rdefs_ok c r).
  { intros r E. destruct (resolve_kind_u c k) as [def|f|w] eqn:Ek; try discriminate.
    destruct (collect_fields _) as [[[ty un] fl] pn]. destruct pn; [discriminate|]. destruct fl; [|discriminate].
    destruct cres as [cs0|f|w] eqn:Ec; try discriminate. inversion E; subst. cbn [rdefs_ok]. split; [exists k; exact Ek|].
    apply cdefs_list. now apply Hc. }
  split; cbn [fst snd].
  - exact He.
  - intros x E.
    match type of E with match ?ae with _ => _ end = _ => destruct ae as [e|ffs|w] eqn:Ea end; try discriminate.
    + inversion E; subst. cbn [cdefs_ok]. now apply He.
    + destruct (has_internal ffs); [discriminate|].
      destruct cres as [[|c1 r1]|f|w] eqn:Ec; try discriminate.
      * destruct (if str_eqb (if str_eqb t "" then "<unknown>" else t) definition_type_name then _ else None) as [rd|] eqn:Er.
        -- inversion E; subst. cbn [cdefs_ok].
           destruct (str_eqb _ definition_type_name); [|discriminate]. unfold resolve_kind_def in Er. now apply find_some in Er.
        -- destruct (lookup_sentinel c _ _); inversion E; subst; cbn; exact I.
      * inversion E; subst. cbn [cdefs_ok]. apply (cdefs_list c (c1 :: r1)). now apply Hc.
Qed.

(* ---------- origins, node for node ---------- *)
Definition node_orgs (e : err) : list nat := match node_org e with Some o => [o] | None => [] end.
Fixpoint torgs (t : tree) : list nat :=
  match t with
  | T e kids => node_orgs e ++ (fix go (l : list tree) : list nat := match l with [] => [] | k :: r => torgs k ++ go r end) kids
  end.
Fixpoint rorgs (r : rerr) : list nat :=
  match r with
  | RErr d _ _ _ _ cs => d_org (ud_def d) :: (fix go (l : list rcause) : list nat := match l with [] => [] | x :: t => corgs x ++ go t end) cs
  end
with corgs (x : rcause) : list nat :=
  match x with
  | RCErr e => rorgs e
  | RCDef d => [d_org (ud_def d)]
  | RCSentinel _ => []
  | RCUnknown _ _ cs => (fix go (l : list rcause) : list nat := match l with [] => [] | x :: t => corgs x ++ go t end) cs
  end.

Lemma torgs_unfold e kids : torgs (T e kids) = node_orgs e ++ flat_map torgs kids.
Proof. cbn. f_equal. Qed.
Lemma rorgs_unfold d m ty un st cs : rorgs (RErr d m ty un st cs) = d_org (ud_def d) :: flat_map corgs cs.
Proof. cbn. f_equal. Qed.
Lemma corgs_unknown m t cs : corgs (RCUnknown m t cs) = flat_map corgs cs.
Proof. reflexivity. Qed.

(* the resolver's answer for the kind of every errdef node of the original belongs to the Define
   that node was created from (registration agrees with the sender) *)
Fixpoint registered (c : ucfg) (t : tree) : Prop :=
  match t with
  | T e kids =>
      (forall ud d, resolve_kind_u c (e_kind e) = UOk ud -> e_def e = Some d -> d_org (ud_def ud) = d_org d) /\
      (fix go (l : list tree) : Prop := match l with [] => True | k :: r => registered c k /\ go r end) kids
  end.
Lemma registered_kids c e kids : registered c (T e kids) -> Forall (registered c) kids.
Proof. cbn. intros [_ H]. induction kids as [|k r IH]; [constructor|]. destruct H. constructor; auto. Qed.

Lemma resolve_u_kind c k d : foreign_fails c -> resolve_kind_u c k = UOk d -> d_kind (ud_def d) = k.
Proof.
  intros [Hf _] H. unfold resolve_kind_u in *.
  destruct (u_default c) as [dflt|].
  - destruct (u_strict c); [|discriminate].
    destruct (resolve_kind_def (u_defs c) k) as [x|] eqn:E; [|discriminate]. inversion H; subst.
    unfold resolve_kind_def in E. apply find_some in E as [_ Q]. now apply str_eqb_eq in Q.
  - destruct (resolve_kind_def (u_defs c) k) as [x|] eqn:E; [|discriminate]. inversion H; subst.
    unfold resolve_kind_def in E. apply find_some in E as [_ Q]. now apply str_eqb_eq in Q.
Qed.

Lemma errdef_node_orgs e : is_errdef_error e = true -> exists d, e_def e = Some d /\ node_orgs e = [d_org d].
Proof. destruct e; try discriminate; intros _; eexists; split; reflexivity. Qed.
Lemma foreign_node_orgs e : is_errdef_error e = false -> type_name e <> definition_type_name -> node_orgs e = [].
Proof. destruct e; try discriminate; try reflexivity. intros _ H. exfalso. apply H. reflexivity. Qed.

Lemma map_flat_eq {A B C} (f : A -> list C) (g : B -> list C) la lb : Forall2 (fun a b => f a = g b) la lb -> flat_map f la = flat_map g lb.
Proof. induction 1 as [|a b la lb H _ IH]; cbn; [reflexivity|]. now rewrite H, IH. Qed.

Theorem orgs_restored c : foreign_fails c ->
  forall t, mdom t -> udom c t -> registered c t ->
  (forall rc, cshape rc = tshape t -> cdefs_ok c rc -> corgs rc = torgs t).
Proof.
  intros Hff. induction t as [e kids IH] using tree_ind'. intros Hm Hu Hr rc Hs Hd.
  pose proof (mdom_kids e kids Hm) as Hmk. pose proof (udom_kids c e kids Hu) as Huk. pose proof (registered_kids c e kids Hr) as Hrk.
  destruct Hm as [Hmsg [Hme _]]. destruct Hu as [Hue _]. destruct Hr as [Hre _].
  rewrite torgs_unfold.
  (* the children, given equal child shapes and ok children *)
  assert (Hkids : forall cs, map cshape cs = map tshape kids -> Forall (cdefs_ok c) cs -> flat_map corgs cs = flat_map torgs kids).
  { intros cs Hmap Hok. apply map_flat_eq. apply map_eq_forall2 in Hmap.
    clear - IH Hmk Huk Hrk Hmap Hok. revert cs Hmap Hok.
    induction kids as [|kid r IHr]; intros cs Hmap Hok; inversion Hmap; subst; constructor.
    - inversion IH; subst. inversion Hmk; subst. inversion Huk; subst. inversion Hrk; subst. inversion Hok; subst.
      apply H1; assumption.
    - inversion IH; subst. inversion Hmk; subst. inversion Huk; subst. inversion Hrk; subst. inversion Hok; subst.
      apply IHr; assumption. }
  cbn [tshape] in Hs. destruct (is_errdef_error e) eqn:Ee.
  - (* an errdef node *)
    destruct (errdef_node_orgs e Ee) as [de [Ede Eno]]. rewrite Eno.
    destruct rc as [r|d|id|m ty cs].
    + destruct r as [d m ty un st cs]. cbn [cshape] in Hs. rewrite rshape_unfold in Hs. injection Hs as E1 E2 E3 E4 E5.
      cbn [corgs]. rewrite rorgs_unfold. cbn [cdefs_ok rdefs_ok] in Hd. destruct Hd as [[k Hk] Hcs].
      apply cdefs_list in Hcs.
      pose proof (resolve_u_kind c k d Hff Hk) as Kk. rewrite E2 in Kk. subst k.
      rewrite (Hre d de Hk Ede). cbn [app]. f_equal. apply Hkids; assumption.
    + cbn in Hs. inversion Hs.
    + cbn in Hs. inversion Hs. congruence.
    + rewrite cshape_unknown in Hs. injection Hs as E1 E2 E3 E4.
      (* an errdef node of the domain has a registered, hence non-empty-resolvable kind *)
      exfalso. destruct Hff as [Hf _]. rewrite <- E2 in Hue.
      unfold resolve_kind_u in Hf. destruct (u_default c); [destruct (u_strict c)|];
        destruct (resolve_kind_def (u_defs c) ""); try discriminate; now apply Hue.
  - (* a foreign node *)
    destruct Hue as [Hty Hnd]. rewrite (foreign_node_orgs e Ee Hnd). cbn [app].
    destruct rc as [r|d|id|m ty cs].
    + destruct r as [d m ty un st cs]. cbn [cshape] in Hs. rewrite rshape_unfold in Hs. injection Hs as E1 E2 E3 E4 E5. congruence.
    + cbn in Hs. inversion Hs. congruence.
    + cbn in Hs. inversion Hs. congruence.
    + rewrite cshape_unknown in Hs. injection Hs as E1 E2 E3. rewrite corgs_unknown. cbn [cdefs_ok] in Hd. apply cdefs_list in Hd.
      apply Hkids; assumption.
Qed.

(* the round trip, identity part: the restored error carries at every node of its cause tree, in
   pre-order, the Define (origin) of the corresponding node of the original *)
Theorem roundtrip_identity c tbl unks e :
  foreign_fails c -> is_errdef_error e = true -> mdom (tree_of e) -> udom c (tree_of e) -> registered c (tree_of e) ->
  exists doc r, marshal_error e = Ok doc /\ unmarshal c (fst (decode tbl doc unks)) = UOk r /\
                rshape r = tshape (tree_of e) /\ rorgs r = torgs (tree_of e).
Proof.
  intros Hf He Hm Hu Hr. destruct (roundtrip_structure c tbl unks e Hf He Hm Hu) as [doc [r [Em [Eu Sr]]]].
  exists doc, r. repeat split; try assumption.
  apply (orgs_restored c Hf (tree_of e) Hm Hu Hr (RCErr r)); [exact Sr|].
  cbn [cdefs_ok]. apply (proj1 (unmarshal_defs_from_resolver c (fst (decode tbl doc unks))) r). exact Eu.
Qed.

(* errors.Is on the restored value: embed it into the error universe of Model/Core.v *)
Definition no_rf : rfields := {| rf_typed := []; rf_unknown := [] |}.
Fixpoint err_of_rerr (r : rerr) : err :=
  match r with
  | RErr d m _ _ st cs => ERest 0 (ud_def d) m no_rf st ((fix go (l : list rcause) : list err := match l with [] => [] | x :: t => err_of_rcause x :: go t end) cs)
  end
with err_of_rcause (x : rcause) : err :=
  match x with
  | RCErr e => err_of_rerr e
  | RCDef d => EDefn (ud_def d)
  | RCSentinel id => ELeaf id "" ""
  | RCUnknown m t cs => EUnk 0 m t ((fix go (l : list rcause) : list err := match l with [] => [] | x :: t => err_of_rcause x :: go t end) cs)
  end.

Lemma go_map cs : (fix go (l : list rcause) : list err := match l with [] => [] | x :: t => err_of_rcause x :: go t end) cs = map err_of_rcause cs.
Proof. induction cs; cbn; [reflexivity|]. now f_equal. Qed.

Lemma flat_orgs_app a b : flat_map node_orgs (a ++ b) = flat_map node_orgs a ++ flat_map node_orgs b.
Proof. apply flat_map_app. Qed.

Fixpoint reach_orgs_r (r : rerr) : flat_map node_orgs (reach (err_of_rerr r)) = rorgs r
with reach_orgs_c (x : rcause) : flat_map node_orgs (reach (err_of_rcause x)) = corgs x.
Proof.
  - destruct r as [d m ty un st cs]. cbn [err_of_rerr]. rewrite go_map, rorgs_unfold. cbn [reach flat_map node_orgs node_org app].
    f_equal. induction cs as [|x t IH]; cbn; [reflexivity|]. rewrite flat_orgs_app, reach_orgs_c. now f_equal.
  - destruct x as [e|d|id|m t cs].
    + cbn [err_of_rcause corgs]. apply reach_orgs_r.
    + reflexivity.
    + reflexivity.
    + cbn [err_of_rcause]. rewrite go_map, corgs_unknown. cbn [reach flat_map node_orgs node_org app].
      induction cs as [|x r IH]; cbn; [reflexivity|]. rewrite flat_orgs_app, reach_orgs_c. now f_equal.
Qed.

Lemma existsb_has_org o l : existsb (has_org o) l = existsb (fun x => Nat.eqb x o) (flat_map node_orgs l).
Proof.
  induction l as [|n r IH]; [reflexivity|]. cbn [existsb flat_map]. rewrite existsb_app, <- IH. f_equal.
  unfold has_org, node_orgs. destruct (node_org n); cbn; [now rewrite orb_false_r|reflexivity].
Qed.

(* errors.Is(restored, D) for every definition D of a consistent family: some node of the restored
   tree carries D's origin - and by roundtrip_identity these are the origins of the original's tree *)
Theorem restored_is ds r D : consistent ds -> In D ds -> defs_within ds (err_of_rerr r) ->
  errors_is (err_of_rerr r) (EDefn D) = existsb (fun x => Nat.eqb x (d_org D)) (rorgs r).
Proof.
  intros Hc HD Hw. rewrite (is_iff_origin ds _ D Hc HD Hw). unfold spec_is.
  now rewrite existsb_has_org, reach_orgs_r.
Qed.
