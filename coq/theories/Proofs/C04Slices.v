(* C04, slices: the statements of Properties/C04.v about Model/SliceFlow.v and Gen/SliceOps.v
   (kept in a file of their own because SliceFlow's run/step/state clash with Model/Prog.v's). *)
From Coq Require Import List Arith Bool String.
Import ListNotations.
Open Scope string_scope.
From Errdef Require Import Model.SliceFlow Proofs.SliceFlowProofs Gen.Effects.
From Errdef Require Gen.SliceOps.

(* ---- caller-owned slices: a memory model with aliasing, and an analysis of the SOURCE --------

   Model/SliceFlow.v is a memory model for Go slices: backing arrays with identity, views with
   offset / length / capacity, append that writes IN PLACE whenever the capacity suffices and
   allocates otherwise, copy / element assignment / slices.CompactFunc & co. as writes within the
   capacity window, reslicing.  A function is described by the set of its slice operations
   (PAssign, PAppend, PWrite, PStore over parameters, retained slices, local variables, nil and
   fresh allocations).  The ownership analysis [accepts] is flow-insensitive; it is PROVED SOUND:
   whatever heap the call starts from, whatever slices are handed in (any spare capacity, any
   aliasing among themselves or with the library's retained slices), in whatever order and however
   often the operations run (branches, loops), an accepted function writes to no array that existed
   before the call and stores only slices of arrays the call itself allocated (or empty ones). *)
Lemma slice_analysis_sound : forall ops, accepts ops = true ->
  forall (h0 : heap) (params retained : string -> slice) (sched : list choice),
  let st := run params retained ops sched (init_state h0) in
  firstn (List.length h0) (st_h st) = h0 /\
  forall s, In s (st_stored st) -> fresh_or_empty (List.length h0) s.
Proof. exact accepts_sound. Qed.

(* Gen/SliceOps.v holds the slice operations of EVERY exported function and method of the three
   packages (callees of the same package inlined), translated from /repo by srcgen on every run.
   All of them are accepted - hence, by the theorem above: no API call writes into an option slice,
   a format-argument slice, a cause slice, a definition list or a key list handed in by the caller,
   nor into a slice another object retains (a parent context's options, a resolver's definitions,
   an unmarshaler's keys), and nothing it keeps aliases them, so later mutation by the caller cannot
   reach it.  An `append(parentOpts, opts...)`, a `slices.DeleteFunc(causes, ..)`, a dropped
   `slices.Clone`, a `u.keys = keys` makes this theorem fail and names the function. *)
Definition rejected_functions : list string :=
  map fst (filter (fun f => negb (accepts (snd f))) Gen.SliceOps.functions).

Lemma caller_slices_never_written :
  Gen.SliceOps.sliceflow_matched = true /\ rejected_functions = [] /\
  forall name ops, In (name, ops) Gen.SliceOps.functions ->
  forall (h0 : heap) (params retained : string -> slice) (sched : list choice),
  let st := run params retained ops sched (init_state h0) in
  firstn (List.length h0) (st_h st) = h0 /\
  forall s, In s (st_stored st) -> fresh_or_empty (List.length h0) s.
Proof.
  assert (R : rejected_functions = []) by (vm_compute; reflexivity).
  split; [reflexivity|]. split; [exact R|].
  intros name ops Hin. apply accepts_sound.
  destruct (accepts ops) eqn:A; [reflexivity|exfalso].
  assert (H0 : In (name, ops) (filter (fun f : string * list sop => negb (accepts (snd f))) Gen.SliceOps.functions)).
  { apply (proj2 (filter_In (fun f : string * list sop => negb (accepts (snd f))) (name, ops) Gen.SliceOps.functions)).
    split; [exact Hin|]. cbn [snd]. rewrite A. reflexivity. }
  assert (H : In name rejected_functions) by exact (in_map fst _ _ H0).
  rewrite R in H. exact H.
Qed.

(* the three assumptions the translation makes, as read from the source on this run:
   - the stdlib callees that received a slice are callees that only read it;
   - the object an unmarshaler Option closure receives is the unmarshaler New is constructing
     (tied to the source: New hands a freshly allocated unmarshaler to the dynamic Option calls -
     the row of Gen/Effects.mutator_calls);
   - what a Decoder returns (DecodedData) belongs to the library: the restored error keeps
     decoded.Stack (observation, outside the statement's list of caller slices: a custom decoder
     that later mutates the DecodedData it returned changes the restored error's frames). *)
Lemma slice_assumptions_audited :
  forallb (fun c => existsb (String.eqb c)
       ["bytes.Equal"; "errors.Join"; "fmt.Sprintf"; "fmt.Fprintf"; "fmt.Errorf"; "json.Marshal"; "json.Unmarshal"; "len"; "cap";
        "runtime.Callers"; "runtime.CallersFrames"; "slog.Any"; "slog.AnyValue"; "slog.GroupValue"; "strings.Join"; "slices.Contains"]) Gen.SliceOps.readonly_callees = true /\
  Gen.SliceOps.assumed_fresh_objects =
    ["unmarshaler.WithCustomFields: u"; "unmarshaler.WithSentinelErrors: u"; "unmarshaler.WithStrictMode: u"] /\
  In ("unmarshaler", "New", "dynamic Option", "fresh u.unmarshaler") mutator_calls /\
  Gen.SliceOps.transferred_slices =
    ["unmarshaler.(*Unmarshaler).Unmarshal: decoded.Stack (stored in unmarshaledError.stack)"].
Proof.
  split; [vm_compute; reflexivity|split; [reflexivity|split; [|reflexivity]]].
  unfold mutator_calls. repeat (try (left; reflexivity); right). 
Qed.

(* non-vacuity: the analysis rejects the two historical defects (F1: Wrapf appended to the caller's
   argument slice; F2: resolver.New compacted the caller's slice in place and kept it), and in the
   memory model the rejected operation really does write into the caller's array *)
Lemma slice_example :
  accepts [PAppend "args2" (XParam "args")] = false /\
  accepts [PWrite (XParam "defs"); PStore "StrictResolver.defs" (XParam "defs")] = false /\
  accepts [PAssign "d#1" XFresh; PWrite (XVar "d#1"); PStore "StrictResolver.defs" (XVar "d#1")] = true /\
  (let h0 := [[1; 2; 0; 0]] in
   let caller := {| sl_arr := 0; sl_off := 0; sl_len := 2; sl_cap := 4 |} in
   let st := run (fun _ => caller) (fun _ => nil_slice) [PAppend "args2" (XParam "args")]
                 [{| c_op := 0; c_xs := [9]; c_extra := 0; c_a := 0; c_b := 0; c_c := 0; c_rel := 0 |}] (init_state h0) in
   st_h st = [[1; 2; 9; 0]]).
Proof. vm_compute. repeat split; reflexivity. Qed.

