(* C12: the document-level fixpoint on nodes whose fields are JSON scalars bound to scalar keys. *)
From Coq Require Import ZArith Reals Bool Lia Sorting.Permutation.
From Flocq Require Import Core IEEE754.BinarySingleNaN.
From Errdef Require Import Base.Str Base.Outcome Model.Core Model.Convert Model.Unmarshal Model.JsonVal Model.Redoc Check.UM Check.C12
  Proofs.C10Proofs Proofs.SortFields Proofs.C13Proofs Proofs.C12Proofs Proofs.C11Proofs Proofs.ValueRoundtrip.
Local Open Scope Z_scope.

Section DocFix.
Variable reparse32 : Z -> Z.
Hypothesis reparse32_ok : forall b, is_finite (f32_of_bits b) = true ->
  is_finite (f64_of_bits (reparse32 b)) = true /\ f64_to_f32 (f64_of_bits (reparse32 b)) = f32_of_bits b.

(* the keys a decoded field of name n can bind to, in the order the code tries them *)
Definition candidates (c : ucfg) (d : udef) (n : string) : list ukey := (named n (ud_keys d) ++ named n (u_custom c))%list.

Definition scalar_key (k : ukey) : Prop := exists t, uk_ty k = FScalar t /\ sty_wf t = true.

(* a field of the domain: its value is what a JSON document decodes a scalar or null to, and at most
   one key of its name exists (on the definition or among the custom keys), of a scalar type *)
Definition simple_field (c : ucfg) (d : udef) (n : string) (v : dval) : Prop :=
  (v = DNil \/ json_native_scalar v = true) /\
  (List.length (candidates c d n) <= 1)%nat /\ Forall scalar_key (candidates c d n).

Lemma first_convert_nil v : first_convert [] v = Ok None.
Proof. reflexivity. Qed.

Lemma first_convert_one k v : first_convert [k] v =
  match try_convert (uk_ty k) v with
  | Ok (Some b) => Ok (Some (k, b)) | Ok None => Ok None | Fail cl => Fail cl | Panic w => Panic w end.
Proof. cbn. destruct (try_convert (uk_ty k) v) as [[b|]|cl|w]; reflexivity. Qed.

(* bind_field in terms of the candidate list, when there is at most one candidate *)
Lemma bind_field_cands c d k n v : (List.length (candidates c d n) <= 1)%nat ->
  bind_field c d k n v =
  if is_placeholder v then FUnknown (DS {| s_id := 1; s_kind := KString |} (SStr redacted_str))
  else match first_convert (candidates c d n) v with
       | Ok (Some (key, b)) => FTyped key b
       | Fail _ => FFail {| fl_class := cls_internal; fl_kind := ""; fl_field := "" |}
       | Panic w => FPanic w
       | Ok None => if u_strict c then FFail {| fl_class := cls_field; fl_kind := k; fl_field := n |} else FUnknown v
       end.
Proof.
  intros Hl. unfold bind_field, candidates in *. destruct (is_placeholder v); [reflexivity|].
  destruct (named n (ud_keys d)) as [|k1 [|k2 r]] eqn:E1; cbn [app] in *.
  - rewrite first_convert_nil. reflexivity.
  - destruct (named n (u_custom c)) as [|c1 r]; [|cbn in Hl; lia].
    cbn [app first_convert].
    destruct (try_convert (uk_ty k1) v) as [[b|]|cl|w]; reflexivity.
  - cbn in Hl. lia.
Qed.

Lemma try_convert_scalar_result t v b : try_convert (FScalar t) v = Ok (Some b) ->
  (v = DNil \/ json_native_scalar v = true) -> json_native_scalar v = true /\ exists sv, bval_scalar b = Some sv.
Proof.
  intros H [->|Hn].
  - exfalso. cbn in H. discriminate.
  - split; [exact Hn|]. destruct v as [|vt sv| | |]; try discriminate.
    unfold try_convert in H. cbn [dval_ty fty_id] in H.
    destruct (N.eqb (s_id vt) (s_id t)); [inversion H; subst; eexists; reflexivity|].
    destruct (is_f64_val (DS vt sv)) as [bb|].
    + destruct (conv_f64 (s_kind t) bb); cbn in H; [inversion H; eexists; reflexivity|].
      destruct sv; cbn in H; destruct (skind_eqb (s_kind t) (s_kind vt)); inversion H; eexists; reflexivity.
    + destruct (is_i64_val (DS vt sv)) as [zz|].
      * destruct (conv_i64 (s_kind t) zz); cbn in H; [inversion H; eexists; reflexivity|].
        destruct (skind_eqb (s_kind t) (s_kind vt)); inversion H; eexists; reflexivity.
      * cbn in H. destruct (skind_eqb (s_kind t) (s_kind vt)); inversion H; eexists; reflexivity.
Qed.

Lemma placeholder_after_redecode t v b sv d' :
  json_native_scalar v = true -> try_convert (FScalar t) v = Ok (Some b) -> bval_scalar b = Some sv ->
  redecode reparse32 sv = Some d' -> is_placeholder v = false -> is_placeholder d' = false.
Proof.
  intros Hn Hb Hv Hd Hp.
  destruct sv as [bb|s|z|fb|fb]; cbn [redecode] in Hd;
    try (destruct (is_finite _) in Hd; [|discriminate]); inversion Hd; subst d'; try reflexivity.
  (* a string: it is the decoded string itself *)
  destruct v as [|vt sv| | |]; try discriminate. destruct vt as [vid vk].
  destruct sv as [b0|s0|z0|f0|f0]; try discriminate; cbn [json_native_scalar s_id s_kind] in Hn;
    apply andb_prop in Hn; destruct Hn as [Hid Hk]; apply N.eqb_eq in Hid; apply skind_eqb_eq in Hk; subst vid vk.
  - (* bool source cannot give a string *)
    unfold try_convert in Hb. cbn [dval_ty fty_id s_id is_f64_val is_i64_val] in Hb.
    destruct (N.eqb 14 (s_id t)); [inversion Hb; subst b; inversion Hv|].
    cbn in Hb. destruct (skind_eqb (s_kind t) KBool); inversion Hb; subst b; inversion Hv.
  - unfold try_convert in Hb. cbn [dval_ty fty_id s_id is_f64_val is_i64_val] in Hb.
    assert (s = s0).
    { destruct (N.eqb 1 (s_id t)); [inversion Hb; subst b; now inversion Hv|].
      cbn in Hb. destruct (skind_eqb (s_kind t) KString); inversion Hb; subst b; now inversion Hv. }
    subst s0. exact Hp.
  - (* a number source cannot give a string *)
    unfold try_convert in Hb. cbn [dval_ty fty_id s_id] in Hb.
    destruct (N.eqb 13 (s_id t)); [inversion Hb; subst b; inversion Hv|].
    cbn [is_f64_val s_id N.eqb Pos.eqb] in Hb. cbn -[conv_f64] in Hb.
    destruct (conv_f64 (s_kind t) f0) as [w|] eqn:Ec; cbn in Hb.
    + inversion Hb; subst b. cbn in Hv. inversion Hv; subst w.
      destruct (Check.C11.is_int_kind (s_kind t)) eqn:Hk.
      * rewrite (conv_f64_int_spec _ _ Hk) in Ec. cbv zeta in Ec. destruct (_ && _ && _) in Ec; discriminate.
      * destruct (s_kind t); try discriminate; rewrite conv_f64_gen in Ec; cbn in Ec; try discriminate.
        -- unfold conv_f64_ref in Ec. cbn [is_signed is_unsigned] in Ec.
           destruct (Bltb _ _) in Ec; discriminate.
    + destruct (skind_eqb (s_kind t) KFloat64); inversion Hb; subst b; inversion Hv.
Qed.

(* PER FIELD: what the field was bound to (or kept as) is reproduced when the value it marshals to is
   bound again *)
Lemma bind_field_fix c d k n v : simple_field c d n v ->
  match bind_field c d k n v with
  | FTyped key b =>
      exists sv, bval_scalar b = Some sv /\
      (not_max32 sv -> forall v', redecode reparse32 sv = Some v' ->
         exists b', bind_field c d k n v' = FTyped key b' /\ bval_scalar b' = Some sv)
  | FUnknown v0 => bind_field c d k n v0 = FUnknown v0
  | _ => True
  end.
Proof.
  intros [Hv [Hl Hk]].
  assert (BC : forall w, bind_field c d k n w =
     if is_placeholder w then FUnknown (DS {| s_id := 1; s_kind := KString |} (SStr redacted_str))
     else match first_convert (candidates c d n) w with
          | Ok (Some (key, b)) => FTyped key b
          | Fail _ => FFail {| fl_class := cls_internal; fl_kind := ""; fl_field := "" |}
          | Panic w0 => FPanic w0
          | Ok None => if u_strict c then FFail {| fl_class := cls_field; fl_kind := k; fl_field := n |} else FUnknown w
          end) by (intro w; apply bind_field_cands; exact Hl).
  rewrite (BC v).
  destruct (is_placeholder v) eqn:Hp.
  - rewrite BC. reflexivity.
  - destruct (candidates c d n) as [|key [|k2 r]] eqn:Ec; [| |cbn in Hl; lia].
    + cbn [first_convert]. destruct (u_strict c) eqn:Es; [exact I|].
      rewrite BC, Hp. cbn [first_convert]. reflexivity.
    + rewrite first_convert_one. inversion Hk as [|? ? [t [Ht Hwf]] _]; subst.
      rewrite Ht. destruct (try_convert (FScalar t) v) as [[b|]|cl|w] eqn:Et; try exact I.
      * destruct (try_convert_scalar_result t v b Et Hv) as [Hn [sv Hsv]].
        exists sv. split; [exact Hsv|]. intros H32 v' Hd.
        destruct (binding_fixpoint reparse32 reparse32_ok t v b sv Hwf Hn Et Hsv H32 v' Hd) as [b' [Eb' Hsv']].
        exists b'. split; [|exact Hsv'].
        rewrite BC, (placeholder_after_redecode t v b sv v' Hn Et Hsv Hd Hp).
        rewrite first_convert_one, Ht, Eb'. reflexivity.
      * destruct (u_strict c) eqn:Es; [exact I|].
        rewrite BC, Hp, first_convert_one, Ht, Et. reflexivity.
Qed.

(* ---------- one node: all its fields ---------- *)
(* what a decoded field looks like after Unmarshal, Marshal and decoding again *)
Definition image (fr : fres) : option dval :=
  match fr with
  | FTyped _ b => match bval_scalar b with Some sv => redecode reparse32 sv | None => None end
  | FUnknown v0 => Some v0
  | _ => None
  end.

Fixpoint images (rs : list (string * fres)) : option (list (string * dval)) :=
  match rs with
  | [] => Some []
  | (n, fr) :: r => match image fr, images r with Some v, Some l => Some ((n, v) :: l) | _, _ => None end
  end.

Definition fres_ok (fr : fres) : Prop :=
  match fr with
  | FTyped _ b => match bval_scalar b with Some sv => not_max32 sv /\ redecode reparse32 sv <> None | None => False end
  | FUnknown _ => True
  | _ => False
  end.

(* same outcome up to the representation of the bound value *)
Definition fres_eq (a b : fres) : Prop :=
  match a, b with
  | FTyped k x, FTyped k' y => k = k' /\ bval_scalar x = bval_scalar y /\ bval_scalar x <> None
  | FUnknown v, FUnknown w => v = w
  | _, _ => False
  end.

Definition bindl (c : ucfg) (d : udef) (k : string) (l : list (string * dval)) : list (string * fres) :=
  map (fun nv => (fst nv, bind_field c d k (fst nv) (snd nv))) l.

Lemma images_names rs l : images rs = Some l -> map fst l = map fst rs.
Proof.
  revert l. induction rs as [|[n fr] r IH]; intros l H; cbn in H; [inversion H; reflexivity|].
  destruct (image fr); [|discriminate]. destruct (images r) as [l0|]; [|discriminate]. inversion H; subst.
  cbn. f_equal. now apply IH.
Qed.

Lemma fields_fix c d k (l : list (string * dval)) :
  (forall n v, In (n, v) l -> simple_field c d n v) ->
  Forall (fun nr => fres_ok (snd nr)) (bindl c d k l) ->
  exists l', images (bindl c d k l) = Some l' /\
             Forall2 (fun a b => fst a = fst b /\ fres_eq (snd a) (snd b)) (bindl c d k l) (bindl c d k l').
Proof.
  induction l as [|[n v] r IH]; intros Hs Hok; [exists []; split; [reflexivity|constructor]|].
  cbn [bindl map fst snd] in *. inversion Hok as [|? ? Hok1 Hok2]; subst. cbn [snd] in Hok1.
  destruct (IH (fun n0 v0 H => Hs n0 v0 (or_intror H)) Hok2) as [l' [El' F2]].
  pose proof (bind_field_fix c d k n v (Hs n v (or_introl eq_refl))) as Hf.
  cbn [images]. fold (bindl c d k r). rewrite El'.
  destruct (bind_field c d k n v) as [key b|v0|f|w] eqn:Eb; cbn [fres_ok] in Hok1; try contradiction.
  - destruct Hf as [sv [Hsv Hf]]. rewrite Hsv in Hok1. cbn [image]. rewrite Hsv.
    destruct (redecode reparse32 sv) as [v'|] eqn:Ed.
    + destruct (Hf (proj1 Hok1) v' eq_refl) as [b' [Eb' Hsv']].
      exists ((n, v') :: l'). split; [reflexivity|]. cbn [bindl map fst snd]. constructor; [|exact F2].
      cbn [fst snd]. split; [reflexivity|]. rewrite Eb'. cbn. repeat split; [congruence|congruence].
    + exfalso. exact (proj2 Hok1 eq_refl).
  - cbn [image]. exists ((n, v0) :: l'). split; [reflexivity|]. cbn [bindl map fst snd]. constructor; [|exact F2].
    cbn [fst snd]. split; [reflexivity|]. rewrite Hf. reflexivity.
Qed.

(* the document a restored error marshals to, decoded again: Model/Redoc.v (validated by the C12 run) *)
Local Notation typed_part := (Redoc.typed_part reparse32).
Local Notation refields := (Redoc.refields reparse32).
Local Notation redoc := (Redoc.redoc reparse32).

(* the images of the fields, in visiting order, are a permutation of "typed part ++ unknown part" *)
Lemma typed_unknown_perm c d k (l : list (string * dval)) l' :
  (forall n v, In (n, v) l -> forall key b, bind_field c d k n v = FTyped key b -> k_name (uk_key key) = n) ->
  images (bindl c d k l) = Some l' ->
  exists t, typed_part (flat_map typed_of (bindl c d k l)) = Some t /\
            Permutation (t ++ flat_map unknown_of_f (bindl c d k l)) l'.
Proof.
  revert l'. induction l as [|[n v] r IH]; intros l' Hn H; cbn [bindl map flat_map images fst snd] in *.
  - inversion H; subst. exists []. split; [reflexivity|constructor].
  - fold (bindl c d k r) in *.
    destruct (bind_field c d k n v) as [key b|v0|f|w] eqn:Eb; cbn [image] in H; try discriminate.
    + destruct (bval_scalar b) as [sv|] eqn:Es; [|discriminate].
      destruct (redecode reparse32 sv) as [vv|] eqn:Er; [|discriminate].
      destruct (images (bindl c d k r)) as [l0|] eqn:Ei; [|discriminate]. inversion H; subst.
      destruct (IH l0 (fun n0 v0 Hin => Hn n0 v0 (or_intror Hin)) eq_refl) as [t [Et Pt]].
      cbn [typed_of unknown_of_f snd fst app Redoc.typed_part]. rewrite Es, Er, Et.
      rewrite (Hn n v (or_introl eq_refl) key b Eb).
      exists ((n, vv) :: t). split; [reflexivity|]. cbn [app]. now constructor.
    + destruct (images (bindl c d k r)) as [l0|] eqn:Ei; [|discriminate]. inversion H; subst.
      destruct (IH l0 (fun n0 v1 Hin => Hn n0 v1 (or_intror Hin)) eq_refl) as [t [Et Pt]].
      cbn [typed_of unknown_of_f snd fst app]. exists t. split; [exact Et|].
      apply Permutation_sym. apply Permutation_cons_app. now apply Permutation_sym.
Qed.

(* ---------- helpers ---------- *)
Lemma both_err_cause c d e : fst (both c d) = UOk e -> snd (both c d) = UOk (RCErr e).
Proof. destruct d as [m k t fs st cs u]. rewrite both_unfold. cbv zeta. cbn [fst snd]. intros ->. reflexivity. Qed.

Lemma first_convert_in ks v key b : first_convert ks v = Ok (Some (key, b)) -> In key ks.
Proof.
  induction ks as [|x r IH]; cbn; [discriminate|].
  destruct (try_convert (uk_ty x) v) as [[b0|]|cl|w]; try discriminate.
  - intros H. inversion H; subst. now left.
  - intros H. right. now apply IH.
Qed.

Lemma named_name n ks key : In key (named n ks) -> k_name (uk_key key) = n.
Proof. unfold named. intros H. apply filter_In in H as [_ H]. now apply str_eqb_eq in H. Qed.

Lemma bind_typed_name c d k n v key b : bind_field c d k n v = FTyped key b -> k_name (uk_key key) = n.
Proof.
  unfold bind_field. destruct (is_placeholder v); [discriminate|].
  destruct (first_convert (named n (ud_keys d)) v) as [[[k1 b1]|]|cl|w] eqn:E1; try discriminate.
  - intros H. inversion H; subst. eapply named_name, first_convert_in; eauto.
  - destruct (first_convert (named n (u_custom c)) v) as [[[k2 b2]|]|cl|w] eqn:E2; try discriminate.
    + intros H. inversion H; subst. eapply named_name, first_convert_in; eauto.
    + destruct (u_strict c); discriminate.
Qed.

Lemma sorted_same_names (l1 l2 : list (string * dval)) :
  map fst l1 = map fst l2 -> Sorting.Sorted.StronglySorted name_le l1 -> Sorting.Sorted.StronglySorted name_le l2.
Proof.
  revert l2. induction l1 as [|a r IH]; intros [|b r2] H S; try discriminate; [constructor|].
  inversion H as [[Hab Hr]]. inversion S as [|? ? S1 F1]; subst. constructor; [now apply IH|].
  clear - Hab Hr F1. revert r2 Hr. induction F1 as [|x r Hx _ IHf]; intros [|y r2] Hr; try discriminate; constructor.
  - inversion Hr. unfold name_le in *. congruence.
  - apply IHf. now inversion Hr.
Qed.

Definition fres_acc (fr : fres) : Prop := match fr with FTyped _ _ | FUnknown _ => True | _ => False end.

Lemma collect_of_acc rs : Forall (fun nr : string * fres => fres_acc (snd nr)) rs ->
  proj_panic (collect_fields rs) = None /\ proj_fails (collect_fields rs) = [].
Proof.
  induction 1 as [|[n fr] r H _ IH]; [split; reflexivity|].
  cbn [collect_fields]. destruct (collect_fields r) as [[[ty un] fl] pn]. unfold proj_panic, proj_fails in *. cbn [fst snd] in *.
  destruct IH as [-> ->]. destruct fr; cbn in H; try contradiction; split; reflexivity.
Qed.

Lemma fres_ok_acc fr : fres_ok fr -> fres_acc fr.
Proof. destruct fr; cbn; auto. Qed.

Lemma eq_rel_parts (rs rs' : list (string * fres)) :
  Forall2 (fun a b => fst a = fst b /\ fres_eq (snd a) (snd b)) rs rs' ->
  typed_part (flat_map typed_of rs') = typed_part (flat_map typed_of rs) /\
  flat_map unknown_of_f rs' = flat_map unknown_of_f rs /\
  Forall (fun nr => fres_acc (snd nr)) rs'.
Proof.
  induction 1 as [|[n a] [n' b] r r' [Hn He] _ IH]; [repeat split; constructor|].
  cbn [fst snd] in *. subst n'. destruct IH as [A [B C]].
  destruct a as [ka x|va|fa|wa], b as [kb y|vb|fb|wb]; cbn [fres_eq] in He; try contradiction.
  - destruct He as [-> [E N]]. cbn [flat_map typed_of unknown_of_f snd fst app Redoc.typed_part]. rewrite <- E, A, B.
    repeat split; [constructor; [exact I|exact C]].
  - subst vb. cbn [flat_map typed_of unknown_of_f snd fst app]. rewrite A, B. repeat split. constructor; [exact I|exact C].
Qed.

(* ---------- the domain and the theorem ---------- *)
Definition cfg_plain (c : ucfg) : Prop := u_default c = None \/ u_strict c = true.

Lemma resolve_plain c k d : cfg_plain c -> resolve_kind_u c k = UOk d -> resolve_kind_u c (d_kind (ud_def d)) = UOk d.
Proof.
  intros Hc H. assert (E : resolve_kind_def (u_defs c) k = Some d /\ d_kind (ud_def d) = k).
  { unfold resolve_kind_u in H. unfold cfg_plain in Hc. destruct (u_default c) as [dflt|].
    - destruct Hc as [Hc|Hc]; [discriminate Hc|]. rewrite Hc in H.
      destruct (resolve_kind_def (u_defs c) k) as [x|] eqn:E; [|discriminate]. inversion H; subst.
      split; [reflexivity|]. unfold resolve_kind_def in E. apply find_some in E as [_ Q]. now apply str_eqb_eq in Q.
    - destruct (resolve_kind_def (u_defs c) k) as [x|] eqn:E; [|discriminate]. inversion H; subst.
      split; [reflexivity|]. unfold resolve_kind_def in E. apply find_some in E as [_ Q]. now apply str_eqb_eq in Q. }
  destruct E as [E ->]. exact H.
Qed.

Lemma resolve_plain_kind c k d : cfg_plain c -> resolve_kind_u c k = UOk d -> d_kind (ud_def d) = k.
Proof.
  intros Hc H. unfold resolve_kind_u in H. unfold cfg_plain in Hc. destruct (u_default c) as [dflt|].
  - destruct Hc as [Hc|Hc]; [discriminate Hc|]. rewrite Hc in H.
    destruct (resolve_kind_def (u_defs c) k) as [x|] eqn:E; [|discriminate]. inversion H; subst.
    unfold resolve_kind_def in E. apply find_some in E as [_ Q]. now apply str_eqb_eq in Q.
  - destruct (resolve_kind_def (u_defs c) k) as [x|] eqn:E; [|discriminate]. inversion H; subst.
    unfold resolve_kind_def in E. apply find_some in E as [_ Q]. now apply str_eqb_eq in Q.
Qed.

(* documents of the domain: at every node the field names are distinct, every field is simple for the
   resolved definition and is bound to a value that marshals (or kept unknown), and every cause is
   restored as an errdef error *)
Fixpoint ddom (c : ucfg) (x : dd) : Prop :=
  match x with
  | DD m k t fs st cs u =>
      NoDup (map fst fs) /\
      (forall def, resolve_kind_u c k = UOk def ->
         (forall n v, In (n, v) fs -> simple_field c def n v) /\
         Forall (fun nr => fres_ok (snd nr)) (bindl c def k (sort_fields fs))) /\
      (fix go (l : list (option dd)) : Prop :=
         match l with
         | [] => True
         | Some cd :: r => ddom c cd /\ (exists e, fst (both c cd) = UOk e) /\ go r
         | None :: _ => False
         end) cs
  end.

Lemma ddom_causes c cs :
  (fix go (l : list (option dd)) : Prop :=
     match l with
     | [] => True
     | Some cd :: r => ddom c cd /\ (exists e, fst (both c cd) = UOk e) /\ go r
     | None :: _ => False
     end) cs ->
  exists cds, cs = map Some cds /\ Forall (fun cd => ddom c cd /\ exists e, fst (both c cd) = UOk e) cds.
Proof.
  induction cs as [|[cd|] r IH]; intros H.
  - exists []. split; [reflexivity|constructor].
  - destruct H as [H1 [H2 H3]]. destruct (IH H3) as [cds [-> F]]. exists (cd :: cds). split; [reflexivity|constructor; auto].
  - contradiction.
Qed.

Lemma cres_of_errs c cds es :
  Forall2 (fun cd e => fst (both c cd) = UOk e) cds es -> cres_of c (map Some cds) = UOk (map RCErr es).
Proof.
  unfold cres_of. induction 1 as [|cd e cds es H _ IH]; [reflexivity|].
  cbn [map]. rewrite (both_err_cause c cd e H). cbn [seq_causes]. cbn [map] in IH. rewrite IH. reflexivity.
Qed.

Lemma redoc_causes es ys :
  Forall2 (fun e y => redoc e = Some y) es ys ->
  (fix go (l : list rcause) : option (list (option dd)) :=
     match l with
     | [] => Some []
     | RCErr e :: t => match redoc e, go t with Some x, Some xs => Some (Some x :: xs) | _, _ => None end
     | _ :: _ => None
     end) (map RCErr es) = Some (map Some ys).
Proof. induction 1 as [|e y es ys H _ IH]; [reflexivity|]. cbn [map]. rewrite H, IH. reflexivity. Qed.

(* THE THEOREM: for every document of the domain that Unmarshal accepts, the restored error marshals to
   a document y (redoc), Unmarshal accepts y, and the error restored from y marshals to y again *)
Theorem doc_fixpoint c : cfg_plain c -> forall x, ddom c x -> forall r, unmarshal c x = UOk r ->
  exists y r', redoc r = Some y /\ unmarshal c y = UOk r' /\ redoc r' = Some y.
Proof.
  intros Hc. induction x as [m k t fs st cs u IH] using dd_ind'. intros Hd r Hr.
  destruct Hd as [Hnd [Hf Hcs]]. destruct (ddom_causes c cs Hcs) as [cds [-> Fc]].
  rewrite unmarshal_unfold3 in Hr. destruct (resolve_kind_u c k) as [def|f|w] eqn:Ek; try discriminate.
  destruct (Hf def eq_refl) as [Hsimple Hok]. clear Hf.
  set (l := sort_fields fs) in *. fold (bindl c def k l) in Hr.
  (* first pass *)
  destruct (collect_of_acc (bindl c def k l)) as [Hp1 Hf1].
  { eapply Forall_impl; [|exact Hok]. intros a. apply fres_ok_acc. }
  cbv zeta in Hr. rewrite Hp1, Hf1 in Hr.
  destruct (collect_as_flat_map (bindl c def k l)) as [Ety [Eun _]].
  (* the causes: each restores to an error with a fixpoint document *)
  assert (Hcauses : exists es ys rs', Forall2 (fun cd e => fst (both c cd) = UOk e) cds es /\
            Forall2 (fun e y => redoc e = Some y) es ys /\
            Forall2 (fun y e' => fst (both c y) = UOk e') ys rs' /\ Forall2 (fun e' y => redoc e' = Some y) rs' ys).
  { clear Hr Hcs. induction cds as [|cd r0 IHc].
    - exists [], [], []. repeat split; constructor.
    - inversion Fc as [|? ? [Hd1 [e He]] Fc2]; subst.
      destruct (IHc (fun d Hin => IH d (or_intror Hin)) Fc2) as [es [ys [rs' [A [B [C D]]]]]].
      destruct (IH cd (or_introl eq_refl) Hd1 e He) as [y [e' [R1 [R2 R3]]]].
      exists (e :: es), (y :: ys), (e' :: rs'). repeat split; constructor; assumption. }
  destruct Hcauses as [es [ys [rs' [A [B [C D]]]]]].
  rewrite (cres_of_errs c cds es A) in Hr. inversion Hr; subst r. clear Hr.
  (* the fields *)
  assert (Hsl : forall n v, In (n, v) l -> simple_field c def n v).
  { intros n v Hin. apply Hsimple. unfold l in Hin. exact (proj1 (sort_fields_in fs (n, v)) Hin). }
  destruct (fields_fix c def k l Hsl Hok) as [l' [El' F2]].
  destruct (typed_unknown_perm c def k l l') as [tp [Etp Ptp]]; [intros; eapply bind_typed_name; eauto|exact El'|].
  pose proof (images_names _ _ El') as Hnames.
  assert (Hnl : map fst (bindl c def k l) = map fst l) by (unfold bindl; rewrite map_map; reflexivity).
  assert (Hsorted' : sort_fields l' = l').
  { apply sort_fields_of_sorted. apply (sorted_same_names l l'); [now rewrite Hnames, Hnl|apply sort_fields_sorted]. }
  assert (Hnd' : NoDup (map fst (tp ++ flat_map unknown_of_f (bindl c def k l)))).
  { apply (Permutation_NoDup (l := map fst l')); [apply Permutation_sym, Permutation_map, Ptp|].
    rewrite Hnames, Hnl. apply (Permutation_NoDup (l := map fst fs)); [apply Permutation_sym, sort_fields_names_perm|exact Hnd]. }
  assert (Hre : refields (proj_typed (collect_fields (bindl c def k l))) (proj_unknown (collect_fields (bindl c def k l))) = Some l').
  { unfold Redoc.refields. rewrite Ety, Eun, Etp. cbn [option_map]. f_equal.
    rewrite (sort_fields_perm_invariant _ l' Ptp Hnd'). exact Hsorted'. }
  set (y := DD m (d_kind (ud_def def)) "" l' st (map Some ys) "").
  exists y.
  (* second pass *)
  destruct (eq_rel_parts _ _ F2) as [Tp2 [Un2 Acc2]].
  destruct (collect_of_acc _ Acc2) as [Hp2 Hf2].
  destruct (collect_as_flat_map (bindl c def k l')) as [Ety2 [Eun2 _]].
  exists (RErr def m (proj_typed (collect_fields (bindl c def k l'))) (proj_unknown (collect_fields (bindl c def k l'))) st (map RCErr rs')).
  pose proof (resolve_plain_kind c k def Hc Ek) as Hkk.
  assert (Hre2 : refields (proj_typed (collect_fields (bindl c def k l'))) (proj_unknown (collect_fields (bindl c def k l'))) = Some l').
  { unfold Redoc.refields. rewrite Ety2, Eun2, Tp2, Un2, Etp. cbn [option_map]. f_equal.
    rewrite (sort_fields_perm_invariant _ l' Ptp Hnd'). exact Hsorted'. }
  split; [|split].
  - cbn [Redoc.redoc]. rewrite Hre, (redoc_causes es ys B). reflexivity.
  - unfold y. rewrite unmarshal_unfold3, (resolve_plain c k def Hc Ek), Hsorted', Hkk. fold (bindl c def k l').
    cbv zeta. rewrite Hp2, Hf2, (cres_of_errs c ys rs' C). reflexivity.
  - cbn [Redoc.redoc]. rewrite Hre2, (redoc_causes rs' ys D). reflexivity.
Qed.
End DocFix.

(* ---------- a document of the domain (used by the Example of Properties/C12.v) ---------- *)
Definition ex_kn := {| uk_key := {| k_id := 1; k_name := "n"; k_ty := 2 |}; uk_ty := FScalar {| s_id := 2; s_kind := KInt |} |}.
Definition ex_d := {| ud_def := define 1000 0 "k1" [ONoTrace]; ud_keys := [ex_kn] |}.
Definition ex_c := {| u_defs := [ex_d]; u_default := None; u_strict := false; u_custom := []; u_sentinels := [] |}.
Definition ex_f3 := DS ty_float64 (SF64 4613937818241073152).
Definition ex_s := DS ty_string (SStr "x").
Definition ex_inner := DD "inner" "k1" "" [("n", ex_f3)] [] [] "".
Definition ex_x := DD "top" "k1" "" [("z", ex_s); ("n", ex_f3)] [] [Some ex_inner] "".

Lemma ex_simple n v : In (n, v) [("z", ex_s); ("n", ex_f3)] -> simple_field ex_c ex_d n v.
Proof.
  intros [H|[H|[]]]; inversion H; subst; (split; [right; reflexivity|]).
  - split; [vm_compute; lia|]. vm_compute. constructor.
  - split; [vm_compute; lia|]. vm_compute. constructor; [|constructor]. exists {| s_id := 2; s_kind := KInt |}. split; reflexivity.
Qed.

Lemma ex_resolve def : resolve_kind_u ex_c "k1" = UOk def -> def = ex_d.
Proof. intros H. vm_compute in H. now inversion H. Qed.

