(* K12 in the model: a cycle of value-kinded (untracked) errors makes buildNode recurse for ever. *)
From Coq Require Import List ZArith Lia.
From Errdef Require Import Base.Str Model.Tree.
Import ListNotations.

(* a = VS{..} -> b = VS{..} -> a, both struct values (no address to track), below an errdef error *)
Definition vcycle : graph :=
  [ {| g_key := None; g_unwrap := USingle (Some 1%nat); g_errdef := false |};
    {| g_key := None; g_unwrap := USingle (Some 0%nat); g_errdef := false |};
    {| g_key := Some 3%N; g_unwrap := UMulti [Some 0%nat]; g_errdef := true |} ].

(* for EVERY amount of fuel buildNode of either member runs out of it *)
Lemma vcycle_build_node_diverges : forall fuel vm,
  build_node fuel vcycle 0 vm = None /\ build_node fuel vcycle 1 vm = None.
Proof.
  induction fuel as [|f IH]; intros vm; [split; reflexivity|].
  destruct (IH vm) as [IH0 IH1]. split.
  - cbn [build_node nth_error vcycle g_key causes_of g_unwrap build_list]. now rewrite IH1.
  - cbn [build_node nth_error vcycle g_key causes_of g_unwrap build_list]. now rewrite IH0.
Qed.

Theorem vcycle_unwrap_tree_diverges : forall fuel, build_cause_tree fuel vcycle 2 = None.
Proof.
  intros fuel. unfold build_cause_tree, build_nodes.
  cbn [nth_error vcycle causes_of g_unwrap build_list].
  now rewrite (proj1 (vcycle_build_node_diverges fuel [])).
Qed.
