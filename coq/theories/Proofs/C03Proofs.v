From Errdef Require Import Base.Str Model.Core Model.GoErrors Model.Prog Check.C01 Check.C03 Proofs.C01Proofs.

(* ---------- fields: set / get ---------- *)
Lemma key_eqb_refl k : key_eqb k k = true.
Proof. apply N.eqb_refl. Qed.

Lemma key_eqb_trans_false k1 k2 k : key_eqb k1 k = true -> key_eqb k2 k1 = false -> key_eqb k2 k = false.
Proof. unfold key_eqb. intros A B. apply N.eqb_eq in A. apply N.eqb_neq in B. apply N.eqb_neq. congruence. Qed.

Lemma find_app {A} (p : A -> bool) l1 l2 :
  find p (l1 ++ l2) = match find p l1 with Some x => Some x | None => find p l2 end.
Proof. induction l1 as [|x r IH]; cbn; [reflexivity|]. destruct (p x); [reflexivity|exact IH]. Qed.

Lemma find_remove_same k l : find (fun e : key * (fval * nat) => key_eqb (fst e) k) (f_remove k l) = None.
Proof.
  unfold f_remove. induction l as [|x r IH]; cbn; [reflexivity|].
  destruct (key_eqb (fst x) k) eqn:E; cbn; [exact IH|]. rewrite E. exact IH.
Qed.

Lemma find_remove_other k' k l : key_eqb k' k = false ->
  find (fun e : key * (fval * nat) => key_eqb (fst e) k) (f_remove k' l)
  = find (fun e => key_eqb (fst e) k) l.
Proof.
  intros Hne. unfold f_remove. induction l as [|x r IH]; cbn; [reflexivity|].
  destruct (key_eqb (fst x) k') eqn:E; cbn.
  - destruct (key_eqb (fst x) k) eqn:F; [|exact IH].
    exfalso. unfold key_eqb in *. apply N.eqb_eq in E, F. apply N.eqb_neq in Hne. congruence.
  - destruct (key_eqb (fst x) k); [reflexivity|exact IH].
Qed.

(* a write through one constructor is seen by that constructor and by no other,
   whatever the names of the keys *)
Lemma get_set k' v f k : f_get (f_set k' v f) k = if key_eqb k' k then Some v else f_get f k.
Proof.
  unfold f_get, f_set. cbn [f_data]. rewrite find_app.
  destruct (key_eqb k' k) eqn:E.
  - assert (R : find (fun e : key * (fval * nat) => key_eqb (fst e) k) (f_remove k' (f_data f)) = None).
    { unfold key_eqb in E. apply N.eqb_eq in E.
      replace (fun e : key * (fval * nat) => key_eqb (fst e) k) with (fun e : key * (fval * nat) => key_eqb (fst e) k').
      - apply find_remove_same.
      - unfold key_eqb. now rewrite E. }
    rewrite R. cbn. rewrite E. reflexivity.
  - rewrite (find_remove_other k' k _ E).
    destruct (find _ (f_data f)); [reflexivity|]. cbn. rewrite E. reflexivity.
Qed.

Lemma get_apply_opt d o k :
  f_get (d_fields (apply_opt d o)) k =
  match o with OField k' v => if key_eqb k' k then Some v else f_get (d_fields d) k | _ => f_get (d_fields d) k end.
Proof. destruct o; cbn; try reflexivity. apply get_set. Qed.

Lemma last_field_app k a b :
  last_field k (a ++ b) = match last_field k b with Some v => Some v | None => last_field k a end.
Proof.
  induction a as [|o r IH]; cbn.
  - destruct (last_field k b); reflexivity.
  - destruct o; try exact IH. rewrite IH. destruct (last_field k b); [reflexivity|]. reflexivity.
Qed.

(* last writer wins over any option sequence *)
Lemma get_apply_opts os : forall d k,
  f_get (d_fields (apply_opts d os)) k =
  match last_field k os with Some v => Some v | None => f_get (d_fields d) k end.
Proof.
  unfold apply_opts. induction os as [|o r IH]; intros d k; cbn; [reflexivity|].
  rewrite IH, get_apply_opt. destruct o; try reflexivity.
  destruct (last_field k r); [reflexivity|]. destruct (key_eqb k0 k); reflexivity.
Qed.

Lemma get_empty k : f_get fields_empty k = None.
Proof. reflexivity. Qed.

Lemma get_define a org kind os k : f_get (d_fields (define a org kind os)) k = last_field k os.
Proof. unfold define. rewrite get_apply_opts. cbn. destruct (last_field k os); reflexivity. Qed.

(* ---------- the option sequences computed from the program text ---------- *)
Definition FInv (s : st) (q : seqs) : Prop :=
  List.length (q_defs q) = List.length (s_defs s) /\
  q_ctxs q = s_ctxs s /\
  (forall i k, i < List.length (s_defs s) ->
     f_get (d_fields (nth i (s_defs s) dummy_def)) k = last_field k (nth i (q_defs q) [])).

Lemma get_clone a d k : f_get (d_fields (clone a d)) k = f_get (d_fields d) k.
Proof. reflexivity. Qed.

Lemma finv_add_def s q d' os' used b :
  FInv s q -> (forall k, f_get (d_fields d') k = last_field k os') ->
  FInv (add_def s d' used b) {| q_defs := q_defs q ++ [os']; q_ctxs := q_ctxs q |}.
Proof.
  intros [Hl [Hc Hf]] Hn. split; [|split]; cbn [add_def s_defs s_ctxs q_defs q_ctxs].
  - rewrite !app_length. cbn. lia.
  - exact Hc.
  - intros i k Hi. rewrite app_length in Hi. cbn in Hi.
    destruct (Nat.lt_ge_cases i (List.length (s_defs s))) as [L|L].
    + rewrite !app_nth1 by lia. now apply Hf.
    + assert (i = List.length (s_defs s)) by lia. subst i.
      rewrite app_nth2 by lia. rewrite Nat.sub_diag. cbn.
      rewrite <- Hl at 1. rewrite app_nth2 by lia. rewrite Nat.sub_diag. cbn. apply Hn.
Qed.

Lemma finv_step s q x : FInv s q -> st_ok s x = true -> FInv (step s x) (seq_step q x).
Proof.
  intros HF Hok. pose proof HF as [Hl [Hc Hf]]. unfold st_ok in Hok.
  destruct x; cbn [step seq_step stmt_ok] in *;
    try (split; [|split]; cbn [add_err s_defs s_ctxs]; assumption).
  - apply finv_add_def; [exact HF|]. intros k. apply get_define.
  - split; [|split]; cbn [add_ctx s_defs s_ctxs q_defs q_ctxs]; try assumption.
    unfold q_ctx, get_ctx, ctx_with. rewrite Hc. destruct os; [now rewrite app_nil_r|reflexivity].
  - apply andb_true_iff in Hok as [Hd _]. apply Nat.ltb_lt in Hd.
    apply finv_add_def; [exact HF|]. intros k. unfold with_.
    rewrite !last_field_app. unfold q_ctx, get_ctx. rewrite Hc.
    set (co := match ctx with Some n => nth n (s_ctxs s) [] | None => [] end).
    assert (G : forall l1 l2, f_get (d_fields (apply_opts (apply_opts (clone (s_next s) (get_def s d)) l1) l2)) k
                = match last_field k l2 with Some v => Some v | None =>
                  match last_field k l1 with Some v => Some v | None => last_field k (nth d (q_defs q) []) end end).
    { intros l1 l2. rewrite !get_apply_opts, get_clone. unfold get_def. rewrite (Hf d k Hd). reflexivity. }
    destruct co as [|o1 r1]; [destruct os as [|o2 r2]|];
      try (rewrite G; repeat match goal with |- context [match last_field ?a ?b with _ => _ end] =>
             destruct (last_field a b) end; reflexivity).
    cbn [last_field]. unfold get_def. now apply Hf.
  - apply Nat.ltb_lt in Hok. apply finv_add_def; [exact HF|]. intros k. unfold with_options.
    rewrite last_field_app. destruct os as [|o r].
    + cbn [last_field]. unfold get_def. now apply Hf.
    + rewrite get_apply_opts, get_clone. unfold get_def. rewrite (Hf d k Hok). reflexivity.
  - destruct (c_recover s f c stk) as [r n]. split; [|split]; cbn [add_err s_defs s_ctxs]; assumption.
  - destruct (get_err s (Some c)); split; [|split| |split]; cbn [add_err s_defs s_ctxs]; assumption.
Qed.

Lemma finv_run_from p : forall s q, FInv s q -> prog_ok_from s p = true ->
  FInv (fold_left step p s) (fold_left seq_step p q).
Proof.
  induction p as [|x r IH]; intros s q H Hok; [exact H|]. cbn in *.
  apply andb_true_iff in Hok as [H1 H2]. apply IH; [now apply finv_step|exact H2].
Qed.

Lemma finv_run p : prog_ok p = true -> FInv (run p) (seqs_of p).
Proof. apply finv_run_from. split; [reflexivity|split; [reflexivity|]]. intros i k Hi. cbn in Hi. lia. Qed.

(* ---------- factories are identified by their address ---------- *)
Definition uniq (ds : list defn) : Prop :=
  forall d1 d2, In d1 ds -> In d2 ds -> d_addr d1 = d_addr d2 -> d1 = d2.

Lemma uniq_add ds d' (bound : N) :
  uniq ds -> (forall d, In d ds -> (d_addr d < bound)%N) ->
  (In d' ds \/ d_addr d' = bound) -> uniq (ds ++ [d']).
Proof.
  intros U B H d1 d2 H1 H2 E. apply in_app_or in H1, H2.
  destruct H1 as [H1|[<-|[]]]; destruct H2 as [H2|[<-|[]]]; try reflexivity.
  - now apply U.
  - destruct H as [H|H]; [now apply U|]. specialize (B d1 H1). lia.
  - destruct H as [H|H]; [now apply U|]. specialize (B d2 H2). lia.
Qed.

Lemma uniq_step s x : Inv s -> uniq (s_defs s) -> st_ok s x = true -> uniq (s_defs (step s x)).
Proof.
  intros [_ [Hb _]] U Hok. unfold st_ok in Hok.
  assert (B : forall d, In d (s_defs s) -> (d_addr d < s_next s)%N) by (intros d Hd; now destruct (Hb d Hd)).
  destruct x; cbn [step stmt_ok] in *; try exact U.
  - apply (uniq_add _ _ (s_next s)); try assumption. right.
    unfold define. now destruct (apply_opts_ids os {| d_addr := s_next s; d_root := None; d_org := s_norg s; d_kind := kind;
      d_fields := fields_empty; d_notrace := false; d_skip := 0; d_depth := 0; d_srclines := 0; d_srcdepth := 0;
      d_fmt := None; d_json := None; d_log := None |}) as [A _].
  - apply andb_true_iff in Hok as [Hd _]. apply (uniq_add _ _ (s_next s)); try assumption.
    unfold with_. destruct (get_ctx s ctx) as [|o1 r1]; [destruct os as [|o2 r2]; [left; now apply get_def_in|]|]; right.
    all: repeat match goal with |- context [apply_opts ?d ?o] =>
           let A := fresh in destruct (apply_opts_ids o d) as [A _]; rewrite A; clear A end; reflexivity.
  - apply (uniq_add _ _ (s_next s)); try assumption.
    unfold with_options. destruct os as [|o r]; [left; now apply get_def_in|right].
    now destruct (apply_opts_ids (o :: r) (clone (s_next s) (get_def s d))) as [A _].
  - now destruct (c_recover s f c stk).
  - now destruct (get_err s (Some c)).
Qed.

Lemma both_run_from p : forall s, Inv s -> uniq (s_defs s) -> prog_ok_from s p = true ->
  uniq (s_defs (fold_left step p s)).
Proof.
  induction p as [|x r IH]; intros s HI U Hok; [exact U|]. cbn in *.
  apply andb_true_iff in Hok as [H1 H2]. apply IH; [now apply inv_step|now apply uniq_step|exact H2].
Qed.

Lemma uniq_run p : prog_ok p = true -> uniq (s_defs (run p)).
Proof. apply both_run_from; [exact inv0|]. intros d1 d2 []. Qed.

Lemma index_of_addr_spec ds d : uniq ds -> In d ds -> forall pre,
  uniq (pre ++ ds) ->
  exists i, index_of_addr ds (d_addr d) (List.length pre) = Some (List.length pre + i) /\ nth i ds dummy_def = d /\ i < List.length ds.
Proof.
  intros _ Hin. induction ds as [|x r IH]; intros pre U; [contradiction|].
  cbn [index_of_addr]. destruct (N.eqb_spec (d_addr x) (d_addr d)) as [E|E].
  - exists 0. split; [f_equal; lia|]. split; [|cbn; lia]. cbn. apply U; [apply in_or_app; right; now left| |exact E].
    apply in_or_app. right. exact Hin.
  - destruct Hin as [->|Hin]; [congruence|].
    destruct (IH Hin (pre ++ [x])) as [i [A [B C]]]; [now rewrite <- app_assoc|].
    exists (S i). rewrite app_length in A. cbn in A. replace (S (List.length pre)) with (List.length pre + 1) by lia.
    split; [rewrite A; f_equal; lia|]. split; [exact B|cbn; lia].
Qed.

(* ---------- the theorem: extractors read the program's last write ---------- *)
Theorem extract_last_writer p k e :
  prog_ok p = true -> defs_within (s_defs (run p)) e ->
  extract k e = spec_extract (run p) (seqs_of p) k e.
Proof.
  intros Hok He. destruct (finv_run p Hok) as [Hl [_ Hf]]. pose proof (uniq_run p Hok) as U.
  unfold extract, spec_extract, as_first.
  destruct (find has_fields (reach e)) as [n|] eqn:F; [|reflexivity].
  apply find_some in F as [Hin Hp].
  assert (G : forall d, node_def n = Some d ->
     f_get (d_fields d) k = match index_of_addr (s_defs (run p)) (d_addr d) 0 with
                            | Some i => last_field k (nth i (q_defs (seqs_of p)) []) | None => None end).
  { intros d Hd. pose proof (He n d Hin Hd) as Hdin.
    destruct (index_of_addr_spec _ d U Hdin [] U) as [i [A [B C]]]. cbn in A. rewrite A.
    rewrite <- (Hf i k C), B. reflexivity. }
  destruct n; try discriminate Hp; cbn [node_fields]; try (apply G; reflexivity).
  reflexivity.
Qed.

Theorem ext_model_is_spec p e kz :
  prog_ok p = true -> defs_within (s_defs (run p)) e ->
  ext_of e kz = spec_ext (run p) (seqs_of p) e kz.
Proof.
  intros Hok He. destruct kz as [[k z] d]. unfold ext_of, spec_ext.
  now rewrite (extract_last_writer p k e Hok He).
Qed.

(* no collision between constructors, whatever the names *)
Theorem no_collision k1 k2 v f : k_id k1 <> k_id k2 -> f_get (f_set k1 v f) k2 = f_get f k2.
Proof. intros H. rewrite get_set. unfold key_eqb. apply N.eqb_neq in H. now rewrite H. Qed.

(* every extractor answers from the first carrier in errors.As order and from nothing beneath it *)
Theorem first_layer_only keys e n :
  as_first has_fields e = Some n ->
  (forall k, extract k e = f_get (node_fields n) k) /\
  o_kind (model_obs keys e) = Some (node_kind n) /\
  (forall n', as_first has_stack e = Some n' ->
     o_stack (model_obs keys e) = match node_stack_len n' with O => None | l => Some l end).
Proof.
  intros H. unfold extract, model_obs. cbn. rewrite H. repeat split. intros n' H'. now rewrite H'.
Qed.

Theorem corr_implies_ok c : corr c = true -> ok c = true.
Proof.
  unfold corr, ok. intros H. apply andb_true_iff in H as [Hp H]. rewrite Hp. cbn [andb].
  pose proof (inv_run _ Hp) as [_ [_ He]].
  revert H. generalize (c_obs c) as obs.
  assert (Hs : forall oe, In oe (s_errs (run (c_prog c))) -> forall e, oe = Some e -> defs_within (s_defs (run (c_prog c))) e).
  { intros oe Hin e ->. now apply He. }
  revert Hs. generalize (s_errs (run (c_prog c))) as pool.
  induction pool as [|oe r IH]; intros Hs obs H; destruct obs as [|oo obs']; cbn in *; try discriminate; [reflexivity|].
  apply andb_true_iff in H as [H1 H2]. apply andb_true_iff. split.
  - destruct oe as [e|], oo as [o|]; cbn in H1; try discriminate; [|reflexivity].
    cbn. apply andb_true_iff in H1 as [H1 _]. apply andb_true_iff in H1 as [H1 _].
    apply andb_true_iff in H1 as [H1 _]. apply andb_true_iff in H1 as [H1 _].
    cbn [o_ext model_obs] in H1.
    replace (map (spec_ext (run (c_prog c)) (seqs_of (c_prog c)) e) (c_keys c)) with (map (ext_of e) (c_keys c)); [exact H1|].
    apply map_ext. intros kz. apply ext_model_is_spec; [exact Hp|]. apply (Hs (Some e)); [now left|reflexivity].
  - apply IH; [|exact H2]. intros oe' Hin. apply Hs. now right.
Qed.
