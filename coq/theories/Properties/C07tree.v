(* C07 (tree renderers part) - every renderer that walks the pruned tree terminates.
   Error(), %s %v %q, %+v, the slog value / Node.LogValue and DebugStack only follow
   node.Causes of the tree that UnwrapTree returned.  Theorem C07_tree_build_total says that,
   for every cause graph under C06's guard G (cyclic graphs included), building that tree with
   the explicit fuel [fuel_bound g] never runs out of fuel: the result is a value of the
   inductive type [tree], i.e. finite.  The renderers are then structural recursions over that
   inductive value (as [has_cycle_node], [preorder], [tsize], [walk_node] in Model/Tree.v and
   Spec/Unfold.v already are); Coq's guard checker accepts exactly such definitions, and that
   acceptance is their termination proof.  The renderers' text is NOT modelled here (C18/C19),
   and json.Marshal is different (Node.MarshalJSON re-enters json.Marshal(err) for errdef nodes,
   finding K1) and is not covered by this file. *)
From Errdef Require Import Base.Str Model.Tree Spec.Unfold Check.C06 Proofs.C06Proofs.

Theorem C07_tree_build_total : forall g cs, G g ->
  (forall c, In (Some c) cs -> c < List.length g) ->
  exists ts vm, build_nodes (fuel_bound g) g cs [] = Some (ts, vm).
Proof. exact tree_build_total. Qed.
Print Assumptions C07_tree_build_total.

Theorem C07_unwrap_tree_total : forall g recv, G g -> recv < List.length g ->
  exists ts, unwrap_tree g recv = Some ts.
Proof. exact unwrap_tree_total. Qed.
Print Assumptions C07_unwrap_tree_total.

(* a structural traversal of the result visits finitely many nodes: as many as Walk yields *)
Theorem C07_tree_finite : forall ts, List.length (walk ts) = list_sum (map tsize ts).
Proof. exact walk_length. Qed.
Print Assumptions C07_tree_finite.
