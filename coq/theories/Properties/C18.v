(* C18 — text formatting shows the whole tree, in order.
   Statements only; proofs in Proofs/C18Proofs.v.  The correspondence compares the
   model's %s %v %q %+v texts with the real output by string equality. *)
From Errdef Require Import Base.Str Model.Core Model.GoErrors Model.Prog Model.Tree0 Model.Fmt Check.Render Check.C18 Proofs.C18Proofs.
Local Open Scope string_scope.

Theorem C18_plain_verbs : forall m e,
  (match e_def e with Some d => d_fmt d | None => None end) = None ->
  format_error m "s" e = err_msg e /\ format_error m "v" e = err_msg e /\ format_error m "q" e = go_quote (err_msg e).
Proof. exact plain_verbs. Qed.
Print Assumptions C18_plain_verbs.

(* %+v of every errdef error (native or restored; cause tree of any shape and depth): the
   text starts with the message and then contains, as non-overlapping substrings in this
   order, each at the start of a line with the indentation of its depth (details of the
   error itself at column 0; node labels of depth d at 2+4(d-1) columns, their details four
   columns deeper), for the error and then for every node of its cause tree in depth-first
   pre-order: the node's label "[i] message", "kind: K" when present, "fields:" and every
   field as "name: value" (a multi-line value as "name: |" followed by each of its lines,
   indented), "stack:" and every frame's function and file:line, for the frames configured
   by StackSource the marked line "> <line>: <text of the frame's own line>", and the causes
   header carrying the number of children.  [srcmap_wf]: no source line contains a newline. *)
Theorem C18_complete_in_order : forall m e, srcmap_wf m = true ->
  (match e_def e with Some d => d_fmt d | None => None end) = None ->
  is_errdef_error e = true ->
  exists R, format_error m "+v" e = (err_msg e ++ R)%string /\ Embeds (plus_toks m e) R.
Proof. exact plus_v_shows. Qed.
Print Assumptions C18_complete_in_order.

(* ... and the oracle's search accepts it *)
Theorem C18_oracle_accepts : forall m e, srcmap_wf m = true ->
  (match e_def e with Some d => d_fmt d | None => None end) = None ->
  is_errdef_error e = true ->
  shows_after_msg (err_msg e) (plus_toks m e) (format_error m "+v" e) = true.
Proof. exact plus_v_complete_in_order. Qed.
Print Assumptions C18_oracle_accepts.

(* the marked snippet line is the frame's own line: the one numbered with the frame's line
   and holding the text the harness read at that line *)
Theorem C18_marks_own_line : forall ind w line t,
  forallb (fun l => negb (has_nl l)) (w_lines w) = true -> marked_line w line = Some t ->
  str_eqb (frame_source w line) "" = false /\
  Embeds [(nl ++ ind ++ "    " ++ t)%string]
    (String.concat "" (map (fun l => (nl ++ ind ++ "    " ++ l)%string) (split_nl (frame_source w line)))).
Proof. exact embeds_snippet. Qed.
Print Assumptions C18_marks_own_line.

(* the substring search used by the oracle finds every ordered embedding *)
Theorem C18_search_complete : forall ts s, Embeds ts s -> in_order ts s = true.
Proof. exact embeds_in_order. Qed.
Print Assumptions C18_search_complete.

(* snippets: none unless StackSource is enabled (around > 0), none beyond the configured depth *)
Theorem C18_snippets_only_when_enabled : forall sl sd i f,
  (sl <= 0)%Z \/ sd = 0%Z \/ (0 < sd /\ sd <= Z.of_nat i)%Z -> want_source sl sd i f = false.
Proof. exact no_snippet_when_disabled. Qed.
Print Assumptions C18_snippets_only_when_enabled.

(* a Formatter option replaces everything when an error of that definition is the value
   being formatted - and for no other error: nested nodes ignore their Formatter *)
Theorem C18_formatter_local :
  (forall m e id verb, (match e_def e with Some d => d_fmt d | None => None end) = Some id ->
     format_error m verb e = custom_fmt id (match verb with "+v" => "v" | x => x end) (err_msg e)) /\
  (forall m indent i e kids, fmt_node m indent i (T e kids) = fmt_node m indent i (T (strip_fmt e) kids)).
Proof. exact (conj formatter_replaces nested_formatter_not_invoked). Qed.
Print Assumptions C18_formatter_local.

(* the oracle minus its snippet-count clause (which counts "> " in the whole output and
   is only valid for generated messages that do not contain it) follows from the correspondence *)
Theorem C18_corr_implies_ok_partial : forall s given m o, srcmap_wf m = true ->
  (forall e, subject_err s given (o_subject o) = Some e -> is_errdef_error e = true) ->
  corr1 s given m o = true -> ok1_main s given m o = true.
Proof. exact corr_implies_ok_main. Qed.
Print Assumptions C18_corr_implies_ok_partial.

Example C18_example :
  let ka := {| k_id := 1; k_name := "a"; k_ty := 1 |} in
  let v s := {| fv_repr := s; fv_plus := s; fv_json := s |} in
  let fr := {| fr_func := "f"; fr_file := "x.go"; fr_line := 3 |} in
  let p := [SDefine "k" [OField ka (v (cat ["l1"; ch 10; "l2"])); OSource 1 1]; SLeaf "leaf" "*errors.errorString";
            SWrap 0 (Some 0) [fr]] in
  let m := [("x.go", 3%Z, {| w_start := 2; w_lines := ["two"; "three"; "four"] |})] in
  option_map (format_error m "+v") (nth 1 (s_errs (run p)) None) =
  Some (cat ["leaf"; ch 10; "---"; ch 10; "kind: k"; ch 10; "fields:"; ch 10; "  a: |"; ch 10; "    l1"; ch 10; "    l2"; ch 10;
             ch 10; "stack:"; ch 10; "  f"; ch 10; "    x.go:3"; ch 10; "      2: two"; ch 10; "    > 3: three"; ch 10; "      4: four";
             ch 10; "causes: (1 error)"; ch 10; "  [1] leaf"]).
Proof. vm_compute. reflexivity. Qed.

Example C18_example_tokens :
  let ka := {| k_id := 1; k_name := "a"; k_ty := 1 |} in
  let v s := {| fv_repr := s; fv_plus := s; fv_json := s |} in
  let fr := {| fr_func := "f"; fr_file := "x.go"; fr_line := 3 |} in
  let p := [SDefine "k" [OField ka (v (cat ["l1"; ch 10; "l2"])); OSource 1 1]; SLeaf "leaf" "*errors.errorString";
            SWrap 0 (Some 0) [fr]] in
  let m := [("x.go", 3%Z, {| w_start := 2; w_lines := ["two"; "three"; "four"] |})] in
  srcmap_wf m = true /\
  option_map (plus_toks m) (nth 1 (s_errs (run p)) None) =
  Some [cat [ch 10; "kind: k"]; cat [ch 10; "fields:"]; cat [ch 10; "  a: |"]; cat [ch 10; "    l1"]; cat [ch 10; "    l2"];
        cat [ch 10; "stack:"]; cat [ch 10; "  f"]; cat [ch 10; "    x.go:3"]; cat [ch 10; "    > 3: three"];
        cat [ch 10; "causes: (1 error)"]; cat [ch 10; "  [1] leaf"]].
Proof. vm_compute. split; reflexivity. Qed.
