(* C02 — wrapping keeps every cause reachable; nil in means nil out; messages compose.
   Statements only; proofs in Proofs/C02Proofs.v. *)
From Errdef Require Import Base.Str Model.Core Model.GoErrors Model.Prog Check.C02 Proofs.C02Proofs.

(* nil in, nil out - for every factory, address and stack *)
Theorem C02_nil_in_nil_out :
  (forall a d stk, c_wrap a d None stk = None) /\
  (forall a d ref stk, c_wrapf a d None ref stk = None) /\
  (forall a d c stk, c_wrap a d (Some c) stk <> None) /\
  (forall a d c ref stk, c_wrapf a d (Some c) ref stk <> None) /\
  (forall a d cs stk, c_join a d cs stk = None <-> forall x, In x cs -> x = None) /\
  (forall s f c stk, fst (c_recover s f c stk) = None <-> exists n, eval_cb s c (s_next s) = (Normal None, n)).
Proof.
  exact (conj wrap_nil (conj wrapf_nil (conj wrap_some (conj wrapf_some (conj join_nil_iff recover_nil_iff))))).
Qed.
Print Assumptions C02_nil_in_nil_out.

(* Unwrap() yields exactly the causes given: the single cause for Wrap/Wrapf,
   the non-nil arguments in order for Join (any number of nils anywhere) *)
Theorem C02_unwrap_exact :
  (forall a d c stk e, c_wrap a d (Some c) stk = Some e -> def_unwrap e = [c] /\ def_cause e = Some c) /\
  (forall a d c ref stk e, c_wrapf a d (Some c) ref stk = Some e -> def_unwrap e = [c] /\ def_cause e = Some c) /\
  (forall a d cs stk e, c_join a d cs stk = Some e -> def_unwrap e = somes cs).
Proof. exact (conj unwrap_wrap (conj unwrap_wrapf unwrap_join)). Qed.
Print Assumptions C02_unwrap_exact.

(* errors.Is / errors.As reach every cause and everything beneath it *)
Theorem C02_reach_all :
  (forall a d c stk e, c_wrap a d (Some c) stk = Some e -> reach_sub c e) /\
  (forall a d c ref stk e, c_wrapf a d (Some c) ref stk = Some e -> reach_sub c e) /\
  (forall a d cs stk e c, c_join a d cs stk = Some e -> In (Some c) cs -> reach_sub c e) /\
  (forall c r t, reach_sub c r ->
     errors_is r c = true /\ (errors_is c t = true -> errors_is r t = true)) /\
  (forall p c r, reach_sub c r -> as_first p c <> None -> as_first p r <> None).
Proof.
  exact (conj wrap_reaches (conj wrapf_reaches (conj join_reaches (conj reach_all as_first_mono)))).
Qed.
Print Assumptions C02_reach_all.

(* messages compose as documented (Sprintf itself is the stdlib oracle [ref]) *)
Theorem C02_messages :
  (forall a d m stk e, c_new a d m stk = Some e -> err_msg e = m) /\
  (forall a d f n ref stk e, c_errorf a d f n ref stk = Some e -> err_msg e = match n with O => f | _ => ref end) /\
  (forall a d c stk e, c_wrap a d (Some c) stk = Some e -> err_msg e = err_msg c) /\
  (forall a d c ref stk e, c_wrapf a d (Some c) ref stk = Some e -> err_msg e = (ref ++ ": " ++ err_msg c)%string) /\
  (forall a d cs stk e, c_join a d cs stk = Some e -> err_msg e = join nl (map err_msg (somes cs))).
Proof. exact (conj msg_new (conj msg_errorf (conj msg_wrap (conj msg_wrapf msg_join)))). Qed.
Print Assumptions C02_messages.

(* Link to the check: the contract the oracle evaluates on the observed
   behaviour is met by the modelled statement in every program state.
   (The pool-index bookkeeping of the oracle - idx_of - is not covered by a theorem.) *)
Theorem C02_contract_sound : forall s x isnil msg causes,
  contract s x = Some (isnil, msg, causes) ->
  match result_of s x with
  | None => isnil = true
  | Some e => isnil = false /\ err_msg e = msg /\ def_unwrap e = causes /\
              forall c, In c causes -> reach_sub c e
  end.
Proof. exact contract_sound. Qed.
Print Assumptions C02_contract_sound.

Example C02_example :
  let p := [SDefine "k" [ONoTrace]; SLeaf "l1" "*errors.errorString"; SLeaf "l2" "*errors.errorString";
            SJoin 0 [None; Some 0; None; Some 1] []; SWrapf 0 (Some 2) "ctx 1" []; SJoin 0 [None; Some 3] []] in
  let s := run p in
  prog_ok p = true /\
  map (fun o => match o with Some e => err_msg e | None => "" end) (s_errs s)
    = ["l1"; "l2"; cat ["l1"; ch 10; "l2"]; cat ["ctx 1: l1"; ch 10; "l2"]; cat ["ctx 1: l1"; ch 10; "l2"]] /\
  o_is (model_obs (s_errs s) (nth 4 (s_errs s) None)) = [true; true; true; true; true].
Proof. vm_compute. repeat split; reflexivity. Qed.
