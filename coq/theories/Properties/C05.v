(* C05 - the stack starts at the creation site and every stack view agrees.
   Statements only; proofs are in Proofs/C05Proofs.v.

   PARTIAL BY NATURE.  [user] (the goroutine stack above the library's own
   frames at capture time, innermost first), [lib] (the pcs of the library's
   own frames) and the symbolisers [sym], [sym2] are universally quantified
   inputs: what runtime.Callers returns, what the inliner does and how pcs are
   symbolised is observed by the harness (Check/C05.v), not proved.  The
   library's call chains, callersSkip, callersDepth and the constructors' skip
   arguments are read from /repo by srcgen on every run (Gen/Chain.v,
   Gen/Consts.v): the theorems below are re-checked against them. *)
From Errdef Require Import Base.Str Model.Core Model.Stack Check.C05 Proofs.C05Proofs.
Local Open Scope Z_scope.

(* srcgen recognised newStack / newError (pc buffer of `depth` entries, the skip
   handed to runtime.Callers unchanged, nil stack iff NoTrace) and all six
   constructors' call paths *)
Theorem C05_generated_shapes_match :
  capture_shape_ok = true /\ forallb ctor_matched [CNew; CErrorf; CWrap; CWrapf; CJoin; CRecover] = true.
Proof. split; reflexivity. Qed.
Print Assumptions C05_generated_shapes_match.

(* newStack (as of the fix for F14) captures into a buffer of min(depth, callersDepth) entries and doubles it, up
   to depth, while runtime.Callers fills it completely.  For every stack, every starting size and every depth
   that loop returns what ONE call with a buffer of depth entries returns - which is what [go_callers] models:
   StackDepth(n) keeps the n innermost frames, all of them when fewer exist, for every n including math.MaxInt. *)
Theorem C05_growing_buffer_is_one_capture : forall (A : Type) (rest : list A) fuel b depth,
  0 < b -> b <= depth -> (List.length rest < fuel + Z.to_nat b)%nat ->
  grow fuel b depth rest = zfirstn depth rest.
Proof. exact (@grow_is_single_capture). Qed.
Print Assumptions C05_growing_buffer_is_one_capture.

(* StackSkip values are added with saturation at math.MaxInt (as of the fix for F15).  The model adds them exactly
   (in Z); on every goroutine stack (no longer than math.MaxInt) both remove the same frames. *)
Theorem C05_saturating_skip_is_exact_sum : forall (A : Type) (gs : list A) a b,
  Z.of_nat (List.length gs) <= max_int ->
  zskipn (add_skip a b) gs = zskipn (a + b) gs.
Proof. exact (@saturating_skip_is_exact_sum). Qed.
Print Assumptions C05_saturating_skip_is_exact_sum.



(* The skip each constructor passes is exactly the number of the library's own
   frames on the stack at capture time: length chain_<ctor> = callersSkip for
   New, Errorf, Wrap, Wrapf, Join and = callersSkip + 1 for Recover (whose error
   is created in a deferred closure called by runtime.gopanic).  A computation on
   generated data: inserting a helper frame, editing the constant or an offset
   breaks it.  (Until F9's fix Recover passed callersSkip + 2 for a 5-frame chain.) *)
Theorem C05_chain_ok : forall k,
  chain_ok k = true
  /\ Z.of_nat (List.length (chain_of k)) = callersSkip + ctor_extra k
  /\ (k <> CRecover -> ctor_extra k = 0) /\ recover_extra_skip = 1.
Proof. intros k. destruct k; repeat split; try reflexivity; intros H; now elim H. Qed.
Print Assumptions C05_chain_ok.

(* newError computes the brief's capture formula
     firstn (eff_depth d) (skipn (skip d + callersSkip + extra) (chain ++ user)) *)
Theorem C05_capture_formula : forall (A : Type) k d (chain_pcs user : list A),
  ctor_stack k d chain_pcs user
  = if d_notrace d then None else Some (capture d (ctor_extra k) (chain_pcs ++ user)).
Proof. intros. apply new_error_stack_capture. Qed.
Print Assumptions C05_capture_formula.

(* New, Errorf, Wrap, Wrapf, Join on a definition or any derived factory, total
   skip 0, no NoTrace: the first frame is the caller's call site. *)
Theorem C05_head_is_caller :
  forall (A : Type) (sym : A -> frame) (lib : string -> A) k a0 a1 org kind dopts p (u : A) rest,
  k <> CRecover ->
  has_notrace (all_opts dopts p) = false -> sum_skips (all_opts dopts p) = 0 ->
  head_frame sym (ctor_stack k (factory a0 a1 org kind dopts p) (map lib (chain_of k)) (u :: rest))
  = Some (sym u).
Proof. intros. apply head_is_caller; auto using chain_ok_all. Qed.
Print Assumptions C05_head_is_caller.

(* Recover: the frames above the library's chain start with the function that
   called panic (the frame directly above runtime.gopanic: the user function for
   panic(v), runtime.panicmem / mapassign / goPanicIndex / panicdivide for panics
   raised by the runtime); that frame is the head.  (False until F9's fix, when
   the head was the CALLER of that function.) *)
Theorem C05_recover_head_is_panicker :
  forall (A : Type) (sym : A -> frame) (lib : string -> A) a0 a1 org kind dopts p (u : A) rest,
  has_notrace (all_opts dopts p) = false -> sum_skips (all_opts dopts p) = 0 ->
  head_frame sym (ctor_stack CRecover (factory a0 a1 org kind dopts p)
                    (map lib (chain_of CRecover)) (u :: rest)) = Some (sym u).
Proof. intros. apply head_is_caller; auto using chain_ok_all. Qed.
Print Assumptions C05_recover_head_is_panicker.

(* StackSkip values given at Define, in (nested) contexts and at the call site add
   up and remove that many innermost frames; the last StackDepth wins, n > 0 keeps
   n frames, 32 otherwise; NoTrace anywhere gives no stack.  All six constructors. *)
Theorem C05_skip_adds_depth_last :
  forall (A : Type) (lib : string -> A) k a0 a1 org kind dopts p (user : list A),
  0 <= sum_skips (all_opts dopts p) ->
  ctor_stack k (factory a0 a1 org kind dopts p) (map lib (chain_of k)) user
  = if has_notrace (all_opts dopts p) then None
    else Some (firstn (Z.to_nat (spec_depth (all_opts dopts p)))
                 (skipn (Z.to_nat (sum_skips (all_opts dopts p))) user)).
Proof. intros. apply stack_by_options; auto using chain_ok_all. Qed.
Print Assumptions C05_skip_adds_depth_last.

Theorem C05_skips_add_over_placements : forall dopts ctx opts,
  sum_skips (all_opts dopts (PWith ctx opts)) = sum_skips dopts + sum_skips ctx + sum_skips opts
  /\ sum_skips (all_opts dopts (PWithOptions opts)) = sum_skips dopts + sum_skips opts
  /\ forall inner, sum_skips (ctx_with ctx inner) = sum_skips ctx + sum_skips inner.
Proof.
  intros. unfold all_opts, ctx_with. rewrite !sum_skips_app. repeat split; try lia. intros. apply sum_skips_app.
Qed.
Print Assumptions C05_skips_add_over_placements.

(* StackDepth(n), n > 0, keeps min n available; 32 by default *)
Theorem C05_depth_keeps_min :
  forall (A : Type) (lib : string -> A) k a0 a1 org kind dopts p (user : list A),
  0 <= sum_skips (all_opts dopts p) -> has_notrace (all_opts dopts p) = false ->
  len (ctor_stack k (factory a0 a1 org kind dopts p) (map lib (chain_of k)) user)
  = Z.min (spec_depth (all_opts dopts p)) (Z.max 0 (Z.of_nat (List.length user) - sum_skips (all_opts dopts p)))
  /\ (forall n, 0 < n -> last_depth (all_opts dopts p) 0 = n -> spec_depth (all_opts dopts p) = n)
  /\ (last_depth (all_opts dopts p) 0 <= 0 -> spec_depth (all_opts dopts p) = 32).
Proof.
  intros. split; [apply depth_keeps_min; auto using chain_ok_all|]. unfold spec_depth, default_depth. split.
  - intros n Hn E. rewrite E. destruct (Z.ltb 0 n) eqn:L; [reflexivity|]. apply Z.ltb_ge in L. lia.
  - intros Hn. destruct (Z.ltb 0 _) eqn:L; [|reflexivity]. apply Z.ltb_lt in L. lia.
Qed.
Print Assumptions C05_depth_keeps_min.

(* NoTrace: nil stack, StackFrom reports absence - every constructor, every stack *)
Theorem C05_notrace_absent :
  forall (A : Type) (lib : string -> A) k a0 a1 org kind dopts p (user : list A),
  has_notrace (all_opts dopts p) = true ->
  stack_from (ctor_stack k (factory a0 a1 org kind dopts p) (map lib (chain_of k)) user) = None.
Proof. intros. apply notrace_absent. now rewrite factory_notrace. Qed.
Print Assumptions C05_notrace_absent.

(* Frames, HeadFrame, Len, FramesAndSource, StackTrace (symbolised), the JSON and
   slog stacks all are [map sym pcs] *)
Theorem C05_views_agree : forall (A : Type) (sym : A -> frame) (s : option (list A)),
  let F := map sym (pcs_of s) in
  frames sym s = F /\ head_frame sym s = hd_error F /\ len s = Z.of_nat (List.length F)
  /\ frames_and_source sym s = F /\ map sym (stack_trace s) = F
  /\ json_stack sym s = (if nilb F then None else Some F)
  /\ slog_stack sym s = F /\ slog_origin sym s = hd_error F
  /\ (stack_from s = None <-> F = []).
Proof. exact @views_agree. Qed.
Print Assumptions C05_views_agree.

(* DebugStack describes the same frames: it symbolises StackTrace() with
   runtime.CallersFrames like Frames() (a generated fact, Gen/Chain.v
   debugstack_symboliser; until F8's fix it used FuncForPC/FileLine on the raw
   return pcs, a second symboliser sym2 that disagrees with sym for inlined
   callers and line numbers).  The remaining hypothesis: every captured pc has a
   function name - DebugStack leaves out frames with Function = "", which the
   runtime produces only for pcs it does not know. *)
Theorem C05_debugstack_agrees :
  forall (A : Type) (sym : A -> frame) (sym2 : A -> option frame) (s : option (list A)),
  (forall pc, In pc (pcs_of s) -> named (sym pc) = true) ->
  debug_stack sym sym2 s = frames sym s.
Proof. exact @debugstack_agrees. Qed.
Print Assumptions C05_debugstack_agrees.

(* the guard is needed: an unnamed frame is in Frames() but not in DebugStack *)
Theorem C05_debugstack_unnamed_refuted :
  exists (s : option (list frame)), debug_stack idf (fun _ => None) s <> frames idf s.
Proof.
  exists (Some [ {| fr_func := ""; fr_file := ""; fr_line := 0 |} ]). vm_compute. discriminate.
Qed.
Print Assumptions C05_debugstack_unnamed_refuted.

(* Link to the check: an observation that agrees with the model satisfies the
   specification [ok] - every constructor, every case whose reference frames all
   have function names. *)
Theorem C05_corr_implies_ok : forall c,
  user_named c = true -> corr c = true -> ok c = true.
Proof. intros. apply corr_implies_ok; auto using chain_ok_all. Qed.
Print Assumptions C05_corr_implies_ok.

(* non-vacuity: options at Define, in the context and at the call site; a
   5-frame stack above the library chain *)
Example C05_example :
  let f n := {| fr_func := "main.f"; fr_file := "main.go"; fr_line := n |} in
  let user := [f 1; f 2; f 3; f 4; f 5] in
  let dopts := [OSkip 1; ODepth 1] in
  let p := PWith [ODepth 40; OSkip 1] [ODepth 2; OSource 1 (-1)] in
  let d := factory 1%N 2%N 0%nat "k" dopts p in
  chain_ok CWrapf = true /\ sum_skips (all_opts dopts p) = 2 /\ spec_depth (all_opts dopts p) = 2
  /\ ctor_stack CWrapf d (chain_frames CWrapf) user = Some [f 3; f 4]
  /\ ctor_stack CRecover d (chain_frames CRecover) user = Some [f 3; f 4]
  /\ head_frame idf (ctor_stack CJoin (factory 1%N 2%N 0%nat "k" [] PDef) (chain_frames CJoin) user) = Some (f 1)
  /\ stack_from (ctor_stack CNew (factory 1%N 2%N 0%nat "k" [ONoTrace] PDef) (chain_frames CNew) user) = None.
Proof. vm_compute. repeat split; reflexivity. Qed.
