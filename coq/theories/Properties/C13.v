(* C13 — strict and lenient unmarshaling honour their contracts.
   Statements only; proofs in Proofs/C13Proofs.v.  The theorems are about the model's
   unmarshal on every configuration and every document; C13_corr_implies_ok ties them to
   the observation the check compares. *)
From Errdef Require Import Base.Str Base.Outcome Model.Core Model.Convert Model.Unmarshal Check.UM Check.C13
  Proofs.C10Proofs Proofs.C13Proofs Model.Resolver Model.ResolverGen Proofs.ResolverProofs Proofs.C13Resolver
  Model.UnmarshalGen Proofs.UnmarshalGenProofs Model.GoLite Model.UnmarshalGL Proofs.UnmarshalSrc.

Theorem C13_lenient_kind :
  (forall c m k t fs st cs u, u_strict c = false -> u_default c = None -> kind_known c k = false ->
     unmarshal c (DD m k t fs st cs u) = UFail [{| fl_class := cls_kind; fl_kind := k; fl_field := "" |}]) /\
  (forall c k dflt, u_strict c = false -> u_default c = Some dflt -> kind_known c k = false ->
     resolve_kind_u c k = UOk dflt) /\
  (forall c k d, find (fun d => str_eqb (d_kind (ud_def d)) k) (u_defs c) = Some d -> resolve_kind_u c k = UOk d).
Proof. exact (conj lenient_unknown_kind (conj lenient_default known_kind_first)). Qed.
Print Assumptions C13_lenient_kind.

Theorem C13_lenient_fields_never_fail : forall c m k t fs st cs u f,
  u_strict c = false ->
  match unmarshal c (DD m k t fs st cs u) with
  | UFail ffs => In f ffs -> fl_class f <> cls_field
  | _ => True
  end.
Proof. exact lenient_fields_never_fail. Qed.
Print Assumptions C13_lenient_fields_never_fail.

Theorem C13_lenient_unknown_retrievable : forall c m k t fs st cs u def e n v,
  u_strict c = false -> resolve_kind_u c k = UOk def ->
  unmarshal c (DD m k t fs st cs u) = UOk e ->
  In (n, v) fs -> registered c def n = false -> is_placeholder v = false ->
  In (n, v) (r_unknown e) /\ rf_get e (AKName n) <> None /\ In (AKName n) (rf_find_keys e n).
Proof. exact lenient_unknown_retrievable. Qed.
Print Assumptions C13_lenient_unknown_retrievable.

(* as of the fix for F12 the decoded fields are visited in name order and the first failure
   returns: the call fails, with ErrUnknownField carrying that name and kind unless a field
   at or before it in name order fails first; and exactly with it when no field of another
   name fails *)
Theorem C13_strict_unknown_field : forall c m k t fs st cs u def n v,
  u_strict c = true -> resolve_kind_u c k = UOk def ->
  In (n, v) fs -> registered c def n = false -> is_placeholder v = false ->
  exists f n' v', unmarshal c (DD m k t fs st cs u) = UFail [f] /\
                  In (n', v') fs /\ String.leb n' n = true /\ bind_field c def k n' v' = FFail f.
Proof. exact strict_unknown_field. Qed.
Print Assumptions C13_strict_unknown_field.

Theorem C13_strict_unknown_field_alone : forall c m k t fs st cs u def n v,
  u_strict c = true -> resolve_kind_u c k = UOk def ->
  In (n, v) fs -> registered c def n = false -> is_placeholder v = false ->
  (forall n' v' f', In (n', v') fs -> bind_field c def k n' v' = FFail f' -> n' = n) ->
  unmarshal c (DD m k t fs st cs u) = UFail [{| fl_class := cls_field; fl_kind := k; fl_field := n |}].
Proof. exact strict_unknown_field_alone. Qed.
Print Assumptions C13_strict_unknown_field_alone.

Theorem C13_strict_unknown_kind_even_with_default : forall c m k t fs st cs u,
  u_strict c = true -> kind_known c k = false ->
  unmarshal c (DD m k t fs st cs u) = UFail [{| fl_class := cls_kind; fl_kind := k; fl_field := "" |}].
Proof. exact strict_unknown_kind. Qed.
Print Assumptions C13_strict_unknown_kind_even_with_default.

Theorem C13_strict_success_has_only_placeholders : forall c m k t fs st cs u e n v,
  u_strict c = true -> unmarshal c (DD m k t fs st cs u) = UOk e -> In (n, v) (r_unknown e) ->
  v = DS {| s_id := 1; s_kind := KString |} (SStr redacted_str).
Proof. exact strict_success_only_placeholders. Qed.
Print Assumptions C13_strict_success_has_only_placeholders.

(* restoring a cause fails with ErrInternal only: unknown kinds / fields below the top
   level make the node an unknown cause instead *)
Theorem C13_cause_failures_are_internal : forall c d,
  match unmarshal_cause c d with UFail fs => fs = [internal_failure] | _ => True end.
Proof. exact cause_fail_internal. Qed.
Print Assumptions C13_cause_failures_are_internal.

(* the formal link between the run and the theorems: an observation that agrees with the model
   (UM.corr) satisfies the decision table the oracle evaluates (C13.ok), for every case -
   including the encoding of the restored error into the observation (sorting, value forms) *)
Theorem C13_corr_implies_ok : forall c, UM.corr c = true -> C13.ok c = true.
Proof. exact corr_implies_ok13. Qed.
Print Assumptions C13_corr_implies_ok.

(* Unmarshaler.resolveKind AS TRANSLATED FROM THE SOURCE in this run (Gen/GoLiteSrc.v, run by the GoLite interpreter
   with the primitives of Model/UnmarshalGL.v: "the resolver is a DefaultResolver", strict mode, ResolveKind,
   ResolveKindOrDefault, the ErrUnknownKind factory) computes, for every configuration and kind, the transcription
   every theorem here is about *)
Theorem C13_resolve_kind_is_source : forall n c k,
  um_run (S n) ".resolveKind" [VD (DU c); VStr k] = enc_udef (resolve_kind_u c k).
Proof. exact run_resolve_kind. Qed.
Print Assumptions C13_resolve_kind_is_source.

(* The kind resolution of the unmarshaler model is package resolver's, as interpreted from resolver/*.go on this
   run (Model/ResolverGen over Gen/ResolverSrc.v): without a default resolver, or in strict mode, it is
   ResolveKind of resolver.New(defs...) and a miss is ErrUnknownKind carrying the kind - even when a default
   exists; with a DefaultResolver in lenient mode it is ResolveKindOrDefault.  (wf: one identity, one definition.) *)
Theorem C13_kind_resolution_is_the_resolvers : forall c k, wf_defs (map rdef_of (u_defs c)) ->
  let r := g_new_resolver (map rdef_of (u_defs c)) in
  match u_default c, u_strict c with
  | Some dflt, false =>
      exists d, resolve_kind_u c k = UOk d /\
                rdef_of d = g_resolve_kind_or_default r (rdef_of dflt) k
  | _, _ =>
      match g_resolve_kind r k with
      | Some rd => exists d, resolve_kind_u c k = UOk d /\ rdef_of d = rd
      | None => resolve_kind_u c k = UFail [{| fl_class := cls_kind; fl_kind := k; fl_field := "" |}]
      end
  end.
Proof. exact resolve_kind_u_is_resolver. Qed.
Print Assumptions C13_kind_resolution_is_the_resolvers.

Example C13_example :
  let k := {| uk_key := {| k_id := 1; k_name := "n"; k_ty := 2 |}; uk_ty := FScalar {| s_id := 2; s_kind := KInt |} |} in
  let d := {| ud_def := define 1000 0 "k1" [ONoTrace]; ud_keys := [k] |} in
  let dflt := {| ud_def := define 1001 1 "dd" [ONoTrace]; ud_keys := [] |} in
  let strict := {| u_defs := [d]; u_default := Some dflt; u_strict := true; u_custom := []; u_sentinels := [] |} in
  let lenient := {| u_defs := [d]; u_default := Some dflt; u_strict := false; u_custom := []; u_sentinels := [] |} in
  let s := DS {| s_id := 1; s_kind := KString |} (SStr "x") in
  unmarshal strict (DD "m" "zz" "" [] [] [] "") = UFail [{| fl_class := cls_kind; fl_kind := "zz"; fl_field := "" |}] /\
  (exists e, unmarshal lenient (DD "m" "zz" "" [("n", s)] [] [] "") = UOk e /\ r_unknown e = [("n", s)]) /\
  unmarshal strict (DD "m" "k1" "" [("n", s)] [] [] "") = UFail [{| fl_class := cls_field; fl_kind := "k1"; fl_field := "n" |}].
Proof. vm_compute. repeat split; try reflexivity. eexists. split; reflexivity. Qed.
