(* C03 — fields: last writer wins, identity by constructor, outermost layer answers.
   Statements only; proofs in Proofs/C03Proofs.v. *)
From Errdef Require Import Base.Str Model.Core Model.GoErrors Model.Prog Check.C01 Check.C03
  Proofs.C01Proofs Proofs.C03Proofs.

(* For every well-formed program (any Define options, any nesting of contexts,
   any chain of With/WithOptions) an extractor returns, for every error, the last
   value set through its own constructor in the order: Define options, then for
   each derivation the context options (outer contexts before inner ones) before
   the call-site options - the order is computed from the program text
   (seqs_of), not from the model's field maps - and absence when never set. *)
Theorem C03_last_writer_wins : forall p k e,
  prog_ok p = true -> defs_within (s_defs (run p)) e ->
  extract k e = spec_extract (run p) (seqs_of p) k e.
Proof. exact extract_last_writer. Qed.
Print Assumptions C03_last_writer_wins.

(* keyed by constructor identity: equal names never collide *)
Theorem C03_same_name_no_collision : forall k1 k2 v f,
  k_id k1 <> k_id k2 -> f_get (f_set k1 v f) k2 = f_get f k2.
Proof. exact no_collision. Qed.
Print Assumptions C03_same_name_no_collision.

Theorem C03_option_sequence : forall os d k,
  f_get (d_fields (apply_opts d os)) k =
  match last_field k os with Some v => Some v | None => f_get (d_fields d) k end.
Proof. exact get_apply_opts. Qed.
Print Assumptions C03_option_sequence.

(* extractors, KindFrom and StackFrom answer from the first carrier in errors.As
   order only - the answer is a function of that node alone *)
Theorem C03_first_layer_only : forall keys e n,
  as_first has_fields e = Some n ->
  (forall k, extract k e = f_get (node_fields n) k) /\
  o_kind (model_obs keys e) = Some (node_kind n) /\
  (forall n', as_first has_stack e = Some n' ->
     o_stack (model_obs keys e) = match node_stack_len n' with O => None | l => Some l end).
Proof. exact first_layer_only. Qed.
Print Assumptions C03_first_layer_only.

(* the helper forms are the evident functions of the base extractor *)
Theorem C03_helpers_agree : forall p e kz,
  prog_ok p = true -> defs_within (s_defs (run p)) e ->
  ext_of e kz = spec_ext (run p) (seqs_of p) e kz.
Proof. exact ext_model_is_spec. Qed.
Print Assumptions C03_helpers_agree.

Theorem C03_corr_implies_ok : forall c, corr c = true -> ok c = true.
Proof. exact corr_implies_ok. Qed.
Print Assumptions C03_corr_implies_ok.

(* non-vacuity: two same-name keys, nested contexts overriding Define, call-site
   overriding context, a foreign layer over an errdef layer over another errdef layer *)
Example C03_example :
  let ka := {| k_id := 1; k_name := "a"; k_ty := 1 |} in
  let kb := {| k_id := 2; k_name := "a"; k_ty := 1 |} in
  let v s := {| fv_repr := s; fv_plus := s; fv_json := s |} in
  let p := [SDefine "k" [OField ka (v "def"); OField kb (v "b0"); ONoTrace];
            SCtx None [OField ka (v "outer")]; SCtx (Some 0) [OField ka (v "inner")];
            SWith 0 (Some 1) [OField kb (v "site")];
            SNew 1 "low" []; SDefine "k2" [OField ka (v "top"); ONoTrace];
            SWrap 2 (Some 0) []; SFmtErrorf "w" 1] in
  prog_ok p = true /\
  option_map fv_repr (extract ka (EWrapF 9 "w" (match nth 1 (s_errs (run p)) None with Some e => e | None => ELeaf 0 "" "" end))) = Some "top" /\
  map (fun oe => match oe with Some e => (option_map fv_repr (extract ka e), option_map fv_repr (extract kb e)) | None => (None, None) end)
      (s_errs (run p)) = [(Some "inner", Some "site"); (Some "top", None); (Some "top", None)].
Proof. vm_compute. repeat split; reflexivity. Qed.
