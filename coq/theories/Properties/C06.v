(* C06 - the cause tree is the finite path-unfolding of the cause graph.
   Statements only; proofs are in Proofs/C06Proofs.v.
   Model: Model/Tree.v (buildNodes/buildNode with the address-keyed visited map whose slot
   [marker_key] is the cycle marker, Walk, HasCycle).  Specification: Spec/Unfold.v (Unf/UnfL,
   FlagsSound, preorder), written over node identities without any map or marker.
   Guard G (Spec/Unfold.v): child indices are in range; tracked keys differ from [marker_key]
   (no typed nil pointer, F3) and are injective on nodes (no zero-size pointer aliases, K5);
   every cycle passes through a tracked node (untracked nodes point only to tracked nodes or to
   untracked nodes of smaller index). *)
From Errdef Require Import Base.Str Model.Tree Spec.Unfold Check.C06 Proofs.C06Proofs.

(* The map model with slot [marker_key] behaves like the (key path, marker) model: same result
   for the same fuel, and the final map represents the final (path, marker). *)
Theorem C06_refines : forall g, keys_not_marker g ->
  forall fuel path n vm mk, abs vm path mk ->
    rel path (build_node fuel g n vm) (build_node_p fuel g path n mk).
Proof. exact refine_node. Qed.
Print Assumptions C06_refines.

(* An explicit fuel bound, (|g|+1)^2, suffices for every graph under G, cyclic ones included:
   UnwrapTree returns a finite inductive tree. *)
Theorem C06_terminates : forall g recv, G g -> recv < List.length g ->
  forall fuel, fuel_bound g <= fuel -> exists ts, build_cause_tree fuel g recv = Some ts.
Proof. exact terminates. Qed.
Print Assumptions C06_terminates.

(* the underlying measure: (tracked nodes not on the path) * (|g|+1) + rank of the node *)
Theorem C06_terminates_measure : forall g, closed g -> untracked_ranked g ->
  forall fuel kpath n mk, n < List.length g -> measure g kpath n < fuel ->
    build_node_p fuel g kpath n mk <> None.
Proof. exact build_node_p_total. Qed.
Print Assumptions C06_terminates_measure.

(* The result is the path-unfolding: children are the non-nil causes in order, an occurrence of
   a tracked node already on the path from the top is dropped. *)
Theorem C06_shape : forall g recv nd fuel ts, G g -> nth_error g recv = Some nd ->
  build_cause_tree fuel g recv = Some ts ->
  exists ds, UnfL g [] (causes_of nd) (map erase ts) ds.
Proof. exact shape_thm. Qed.
Print Assumptions C06_shape.

(* ... and the unfolding is unique, so the tree IS the path-unfolding. *)
Theorem C06_unf_functional : forall g,
  (forall path n os ds, Unf g path n os ds -> forall os' ds', Unf g path n os' ds' -> os = os' /\ ds = ds') /\
  (forall path cs ss ds, UnfL g path cs ss ds -> forall ss' ds', UnfL g path cs ss' ds' -> ss = ss' /\ ds = ds').
Proof. exact Unf_functional. Qed.
Print Assumptions C06_unf_functional.

(* HasCycle is true exactly when some occurrence was dropped. *)
Theorem C06_has_cycle_iff_dropped : forall g recv nd fuel ts, G g -> nth_error g recv = Some nd ->
  build_cause_tree fuel g recv = Some ts ->
  exists ds, UnfL g [] (causes_of nd) (map erase ts) ds /\ (has_cycle ts = true <-> ds <> []).
Proof. exact has_cycle_iff_dropped. Qed.
Print Assumptions C06_has_cycle_iff_dropped.

(* Every flagged node is a tracked error one occurrence of which is dropped beneath itself. *)
Theorem C06_flag_sound : forall g recv fuel ts, G g ->
  build_cause_tree fuel g recv = Some ts -> Forall (FlagsSound g []) ts.
Proof. exact flag_sound. Qed.
Print Assumptions C06_flag_sound.

(* If the unfolding drops nothing (no cycle; sharing allowed) nothing is flagged, and the tree
   is that unfolding, in which a shared node appears under each of its parents. *)
Theorem C06_sharing_not_flagged : forall g recv nd fuel ts ss, G g -> nth_error g recv = Some nd ->
  build_cause_tree fuel g recv = Some ts ->
  UnfL g [] (causes_of nd) ss [] -> ss = map erase ts /\ has_cycle ts = false.
Proof. exact sharing_not_flagged. Qed.
Print Assumptions C06_sharing_not_flagged.

(* Walk yields every node once, in depth-first pre-order, with its depth; a consumer that
   breaks after k elements has seen the first k. *)
Theorem C06_walk_preorder : forall ts,
  walk ts = preorder_all ts /\ List.length (walk ts) = list_sum (map tsize ts) /\
  forall k, walk_break k ts = firstn_or_all k (preorder_all ts).
Proof. exact walk_thm. Qed.
Print Assumptions C06_walk_preorder.

(* The boolean checker used by the oracle decides the relation. *)
Theorem C06_checker_decides : forall g path,
  (forall n s ds, chk g path n s = Some ds <-> Unf g path n (Some s) ds) /\
  (forall cs ss ds, chk_list g path cs ss = Some ds <-> UnfL g path cs ss ds) /\
  (forall t, flags_soundb g path t = true -> FlagsSound g path t) /\
  (forall t n ds, Unf g path n (Some (erase t)) ds -> FlagsSound g path t -> flags_soundb g path t = true).
Proof. exact checker_decides. Qed.
Print Assumptions C06_checker_decides.

(* G's exclusion "key <> marker_key" is necessary: D.Wrap(typed nil pointer) satisfies every other
   clause of G, nothing is dropped, yet the node is flagged and HasCycle is true (F3). *)
Theorem C06_zero_key_refuted :
  closed g_zero /\ keys_injective g_zero /\ untracked_ranked g_zero /\
  unwrap_tree g_zero 1 = Some [Node 0 true []] /\
  has_cycle [Node 0 true []] = true /\
  UnfL g_zero [] [Some 0] (map erase [Node 0 true []]) [] /\
  ~ FlagsSound g_zero [] (Node 0 true []).
Proof. exact zero_key_refuted. Qed.
Print Assumptions C06_zero_key_refuted.

(* G's exclusion "keys injective" is necessary: two nodes of different type with one address
   (pointers to zero-size types): the second is dropped although it is not on the path (K5). *)
Theorem C06_alias_refuted :
  closed g_alias /\ keys_not_marker g_alias /\ untracked_ranked g_alias /\
  unwrap_tree g_alias 2 = Some [Node 0 true []] /\
  UnfL g_alias [] [Some 0] [SNode 0 [SNode 1 []]] [] /\
  forall ds, ~ UnfL g_alias [] [Some 0] (map erase [Node 0 true []]) ds.
Proof. exact alias_refuted. Qed.
Print Assumptions C06_alias_refuted.

(* Link to the check: under G, an observation that agrees with the model satisfies the oracle. *)
Theorem C06_corr_implies_ok : forall c, G (c_graph c) -> corr c = true -> ok c = true.
Proof. exact corr_implies_ok. Qed.
Print Assumptions C06_corr_implies_ok.

(* non-vacuity: a graph under G with a 2-cycle through an errdef node, sharing, a value-kinded
   node and a nil entry; receiver = node 4 *)
Example C06_example :
  let g := [ gp 1%N (UMulti [Some 1; None; Some 2]);
             ge 2%N [Some 0];
             {| g_key := None; g_unwrap := USingle (Some 3); g_errdef := false |};
             gp 3%N UNone;
             ge 4%N [Some 0; Some 3] ] in
  let ts := [Node 0 true [Node 1 false []; Node 2 false [Node 3 false []]]; Node 3 false []] in
  let c := {| c_graph := g; c_recv := 4; c_panic := false; c_tree := ts; c_has_cycle := true;
              c_walk := [(0, 0); (1, 1); (1, 2); (2, 3); (0, 3)]; c_break := 2;
              c_walk_break := [(0, 0); (1, 1)]; c_utf := Some ts |} in
  Gb g = true /\ unwrap_tree g 4 = Some ts /\ corr c = true /\ ok c = true /\
  chk_list g [] [Some 0; Some 3] (map erase ts) = Some [0].
Proof. vm_compute. repeat split; reflexivity. Qed.
