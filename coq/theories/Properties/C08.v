(* C08 — the JSON document mirrors the accessor view of the error.
   Statements only; proofs in Proofs/C08Proofs.v. *)
From Errdef Require Gen.Consts.
From Errdef Require Import Base.Str Base.Outcome Model.Core Model.GoErrors Model.Prog Model.Tree0 Model.Json
  Check.Render Check.C08 Proofs.C08Proofs Proofs.JsonTags.

(* For every cause tree (any shape, any depth, native and restored nodes, foreign nodes),
   the document produced along the code path (MarshalErrorJSON -> jsonErrorData ->
   fields.MarshalJSON building a map in iteration order -> Node.MarshalJSON re-entering
   json.Marshal for errdef nodes) equals the document written directly from the accessors
   Error(), Kind(), Fields() with the later-inserted value winning on equal names,
   Stack().Frames() and UnwrapTree() by structural recursion; and marshaling fails exactly
   when some field value cannot be marshaled. *)
Theorem C08_mirror : forall t, out_doc (marshal_tree t) = spec_doc t.
Proof. exact mirror. Qed.
Print Assumptions C08_mirror.

Theorem C08_last_name_wins : forall all,
  build_map all = name_map all /\
  (forall n, assoc n (build_map all) = last_named n all).
Proof. intros all. split; [apply build_map_is_name_map|apply (build_map_spec all)]. Qed.
Print Assumptions C08_last_name_wins.

Theorem C08_omits_empty : forall e,
  is_errdef_error e = true -> (match e_def e with Some d => d_json d | None => None end) = None ->
  e_kind e = "" -> e_fields_all e = [] -> e_stack e = [] -> unwrap_tree e = [] ->
  marshal_error e = Ok (JObj [("message", JStr (err_msg e))]).
Proof. exact omits_empty. Qed.
Print Assumptions C08_omits_empty.

Theorem C08_foreign_node_shape : forall e kids cs,
  is_errdef_error e = false -> seq_out (map marshal_tree kids) = Ok cs ->
  marshal_tree (T e kids) = Ok (JObj ([("message", JStr (err_msg e)); ("type", JStr (type_name e))]
                                      ++ (match cs with [] => [] | _ => [("causes", JArr cs)] end))).
Proof. exact foreign_node_shape. Qed.
Print Assumptions C08_foreign_node_shape.

Theorem C08_custom_marshaler_local : forall e id kids,
  is_errdef_error e = true -> (match e_def e with Some d => d_json d | None => None end) = Some id ->
  marshal_tree (T e kids) = Ok (custom_json id (err_msg e)).
Proof. exact custom_marshaler_local. Qed.
Print Assumptions C08_custom_marshaler_local.

(* TIE TO THE SOURCE: the member names of the modelled documents are the JSON names of the struct
   tags of jsonErrorData / jsonCauseData / Frame as srcgen reads them from /repo on every run
   (Gen/Consts.v), in declaration order; every member whose tag carries no omitempty is always
   present.  Renaming a tag, reordering the struct, or adding / dropping an omit flag on an always-
   present member breaks this theorem (and the correspondence shows the differing document). *)
Theorem C08_members_follow_struct_tags :
  (forall e kids doc, is_errdef_error e = true -> (match e_def e with Some d => d_json d | None => None end) = None ->
     marshal_tree (T e kids) = Ok doc ->
     subseqb (members doc) (tag_names Gen.Consts.jsonErrorData_tags) = true /\
     forallb (fun n => existsb (str_eqb n) (members doc)) (required Gen.Consts.jsonErrorData_tags) = true) /\
  (forall e kids doc, is_errdef_error e = false -> marshal_tree (T e kids) = Ok doc ->
     subseqb (members doc) (tag_names Gen.Consts.jsonCauseData_tags) = true /\
     forallb (fun n => existsb (str_eqb n) (members doc)) (required Gen.Consts.jsonCauseData_tags) = true) /\
  (forall f, members (frame_json f) = tag_names Gen.Consts.Frame_tags).
Proof. exact (conj errdef_members_follow_tags (conj foreign_members_follow_tags frame_members_are_tags)). Qed.
Print Assumptions C08_members_follow_struct_tags.

(* the model is a function: the document does not depend on map iteration order or on
   anything but the error value (byte-for-byte determinism is observed, not proved) *)
Theorem C08_corr_implies_ok : forall s given o, corr1 s given o = true -> o_same3 o = true -> ok1 s given o = true.
Proof. exact corr_implies_ok_doc. Qed.
Print Assumptions C08_corr_implies_ok.

Example C08_example :
  let ka := {| k_id := 1; k_name := "a"; k_ty := 1 |} in
  let kb := {| k_id := 2; k_name := "a"; k_ty := 2 |} in
  let v s := {| fv_repr := s; fv_plus := s; fv_json := s |} in
  let p := [SDefine "k" [OField ka (v "1"); OField kb (v "2"); ONoTrace]; SDefine "" [ONoTrace; OJson 7];
            SLeaf "l" "*errors.errorString"; SWrap 1 (Some 0) []; SJoin 0 [Some 1; None; Some 0] []] in
  option_map marshal_error (nth 2 (s_errs (run p)) None) =
  Some (Ok (JObj [("message", JStr (cat ["l"; ch 10; "l"])); ("kind", JStr "k"); ("fields", JObj [("a", JRaw "2")]);
                  ("causes", JArr [custom_json 7 "l"; JObj [("message", JStr "l"); ("type", JStr "*errors.errorString")]])])).
Proof. vm_compute. reflexivity. Qed.
