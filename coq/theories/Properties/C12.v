(* C12 — Unmarshal then Marshal is idempotent and deterministic.
   Statements only; proofs in Proofs/C12Proofs.v.

   Proved: determinism of the modelled Unmarshal with respect to the only source of
   nondeterminism in the code after the fixes for F10 and F12 - Go's iteration order over
   the decoded Fields maps - and the deterministic binding rule.  The fixpoint part
   (n = Marshal(Unmarshal(x)) unmarshals to a JSON-equal document) is decided by the
   oracle on the real library for every generated document, and the unmarshaling of n
   itself is compared with the model like any other input; it has no theorem of its own
   (it would need a JSON number printing/parsing model). *)
From Coq Require Import Sorting.Permutation.
From Errdef Require Import Base.Str Base.Outcome Model.Core Model.Convert Model.Unmarshal Check.UM Check.C12
  Proofs.C10Proofs Proofs.SortFields Proofs.C13Proofs Proofs.C12Proofs.

(* for every configuration and every two decoded trees that differ only in the order in which
   the fields of a node are met (Go's map iteration order; names distinct, as in a map), at
   ANY depth of the tree: Unmarshal and the restoration of a cause return the very same
   result - the same value or the same failure.  Before the fix for F12 this was false for
   the code: a cause with an unregistered field and a non-convertible declared field (strict
   mode) degraded to an unknown cause or failed the whole call depending on that order. *)
Theorem C12_deterministic : forall c d d', dd_perm d d' -> both c d = both c d'.
Proof. exact deterministic. Qed.
Print Assumptions C12_deterministic.

(* the fields of a node are visited in name order whatever order they are given in *)
Theorem C12_field_order_is_name_order :
  (forall l, Sorting.Sorted.StronglySorted name_le (sort_fields l) /\ Permutation (sort_fields l) l) /\
  (forall l l', Permutation l l' -> NoDup (map fst l) -> sort_fields l = sort_fields l') /\
  (forall c d, both c (norm d) = both c d).
Proof. exact (conj (fun l => conj (sort_fields_sorted l) (sort_fields_perm l)) (conj sort_fields_perm_invariant both_norm)). Qed.
Print Assumptions C12_field_order_is_name_order.

(* which key a decoded field binds to is a function of the definition's insertion order
   (as of the fix for F10), never of map order *)
Theorem C12_first_accepting_key_wins : forall ks v k b,
  first_convert ks v = Ok (Some (k, b)) ->
  exists pre post, ks = (pre ++ k :: post)%list /\ try_convert (uk_ty k) v = Ok (Some b) /\
                   forall k', In k' pre -> try_convert (uk_ty k') v = Ok None.
Proof. exact first_accepting_key_wins. Qed.
Print Assumptions C12_first_accepting_key_wins.

(* each decoded field contributes independently of the others *)
Theorem C12_fields_independent : forall rs,
  proj_typed (collect_fields rs) = flat_map typed_of rs /\
  proj_unknown (collect_fields rs) = flat_map unknown_of_f rs /\
  proj_fails (collect_fields rs) = flat_map fails_of rs.
Proof. exact collect_as_flat_map. Qed.
Print Assumptions C12_fields_independent.

Example C12_example :
  let kn := {| uk_key := {| k_id := 1; k_name := "n"; k_ty := 2 |}; uk_ty := FScalar {| s_id := 2; s_kind := KInt |} |} in
  let kf := {| uk_key := {| k_id := 2; k_name := "n"; k_ty := 13 |}; uk_ty := FScalar ty_float64 |} in
  let d := {| ud_def := define 1000 0 "k1" [ONoTrace]; ud_keys := [kn; kf] |} in
  let c := {| u_defs := [d]; u_default := None; u_strict := false; u_custom := []; u_sentinels := [] |} in
  let f3 := DS ty_float64 (SF64 4613937818241073152) in
  let s := DS {| s_id := 1; s_kind := KString |} (SStr "x") in
  (* both same-named keys accept 3.0: the first in insertion order binds, whatever the field order *)
  unmarshal c (DD "m" "k1" "" [("n", f3); ("z", s)] [] [] "")
    = UOk (RErr d "m" [(kn, BScalar {| s_id := 2; s_kind := KInt |} (SInt 3))] [("z", s)] [] []) /\
  unmarshal c (DD "m" "k1" "" [("z", s); ("n", f3)] [] [] "")
    = UOk (RErr d "m" [(kn, BScalar {| s_id := 2; s_kind := KInt |} (SInt 3))] [("z", s)] [] []).
Proof. vm_compute. split; reflexivity. Qed.

(* the F12 witness: strict mode, a cause with an unregistered field "zzz" and a declared field
   "ints" whose value cannot be converted: both field orders now fail alike (ErrInternal) *)
Example C12_example_F12 :
  let ki := {| uk_key := {| k_id := 1; k_name := "ints"; k_ty := 104 |}; uk_ty := FJson 315 |} in
  let d := {| ud_def := define 1000 0 "k3" [ONoTrace]; ud_keys := [ki] |} in
  let c := {| u_defs := [d]; u_default := None; u_strict := true; u_custom := []; u_sentinels := [] |} in
  let bad := DJ 7 [(315%N, None)] in
  let one := DS {| s_id := 2; s_kind := KInt |} (SInt 1) in
  let cause fs := DD "c" "k3" "" fs [] [] "" in
  let top fs := DD "top" "k3" "" [] [] [Some (cause fs)] "" in
  dd_perm (top [("ints", bad); ("zzz", one)]) (top [("zzz", one); ("ints", bad)]) /\
  unmarshal c (top [("ints", bad); ("zzz", one)]) = UFail [internal_failure] /\
  unmarshal c (top [("zzz", one); ("ints", bad)]) = UFail [internal_failure].
Proof.
  split; [|vm_compute; split; reflexivity].
  constructor; [constructor|constructor|].
  constructor; [|constructor]. constructor. constructor; [apply perm_swap| |constructor].
  cbn. constructor; [intros [H|[]]; discriminate|]. constructor; [intros []|constructor].
Qed.
