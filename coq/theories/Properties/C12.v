(* C12 — Unmarshal then Marshal is idempotent and deterministic.
   Statements only; proofs in Proofs/C12Proofs.v.

   Proved: determinism of the modelled Unmarshal with respect to the only source of
   nondeterminism in the code after the fixes for F10 and F12 - Go's iteration order over
   the decoded Fields maps - and the deterministic binding rule.  The fixpoint part
   (n = Marshal(Unmarshal(x)) unmarshals to a JSON-equal document) is decided by the
   oracle on the real library for every generated document, and the unmarshaling of n
   itself is compared with the model like any other input; it has no theorem of its own
   (it would need a JSON number printing/parsing model). *)
From Coq Require Import Sorting.Permutation.
From Errdef Require Import Base.Str Base.Outcome Model.Core Model.Convert Model.Unmarshal Check.UM Check.C12
  Proofs.C10Proofs Proofs.SortFields Proofs.C13Proofs Proofs.C12Proofs Model.JsonVal Model.Redoc Proofs.ValueRoundtrip Proofs.C12DocFix.
From Coq Require Import ZArith Reals.
From Flocq Require Import Core IEEE754.BinarySingleNaN.

(* for every configuration and every two decoded trees that differ only in the order in which
   the fields of a node are met (Go's map iteration order; names distinct, as in a map), at
   ANY depth of the tree: Unmarshal and the restoration of a cause return the very same
   result - the same value or the same failure.  Before the fix for F12 this was false for
   the code: a cause with an unregistered field and a non-convertible declared field (strict
   mode) degraded to an unknown cause or failed the whole call depending on that order. *)
Theorem C12_deterministic : forall c d d', dd_perm d d' -> both c d = both c d'.
Proof. exact deterministic. Qed.
Print Assumptions C12_deterministic.

(* the fields of a node are visited in name order whatever order they are given in *)
Theorem C12_field_order_is_name_order :
  (forall l, Sorting.Sorted.StronglySorted name_le (sort_fields l) /\ Permutation (sort_fields l) l) /\
  (forall l l', Permutation l l' -> NoDup (map fst l) -> sort_fields l = sort_fields l') /\
  (forall c d, both c (norm d) = both c d).
Proof. exact (conj (fun l => conj (sort_fields_sorted l) (sort_fields_perm l)) (conj sort_fields_perm_invariant both_norm)). Qed.
Print Assumptions C12_field_order_is_name_order.

(* which key a decoded field binds to is a function of the definition's insertion order
   (as of the fix for F10), never of map order *)
Theorem C12_first_accepting_key_wins : forall ks v k b,
  first_convert ks v = Ok (Some (k, b)) ->
  exists pre post, ks = (pre ++ k :: post)%list /\ try_convert (uk_ty k) v = Ok (Some b) /\
                   forall k', In k' pre -> try_convert (uk_ty k') v = Ok None.
Proof. exact first_accepting_key_wins. Qed.
Print Assumptions C12_first_accepting_key_wins.

(* each decoded field contributes independently of the others *)
Theorem C12_fields_independent : forall rs,
  proj_typed (collect_fields rs) = flat_map typed_of rs /\
  proj_unknown (collect_fields rs) = flat_map unknown_of_f rs /\
  proj_fails (collect_fields rs) = flat_map fails_of rs.
Proof. exact collect_as_flat_map. Qed.
Print Assumptions C12_fields_independent.

(* FIXPOINT, per field: whatever a JSON scalar (number, string, bool) was bound to under a typed
   key of a scalar Go type t, the JSON scalar that value marshals to (redecode: encoding/json writes
   it, jsonToDecodedData decodes it) binds to t again with the very same value - for EVERY number,
   including integers above 2^53 and the two boundary values of K6 (2^63 -> MinInt64, 2^64 -> 2^63,
   which re-marshal to numbers that bind to themselves).  This is the step that makes
   n = Marshal(Unmarshal(x)) a fixpoint on typed scalar fields; unknown fields are re-emitted
   verbatim, and the tree structure is C09_roundtrip_structure's.  The premise on [reparse32] is
   the strconv contract on float32 (validated by the harness); the guard not_max32 excludes
   exactly a float32 of magnitude MaxFloat32 (finding K9, see C12_max_float32_refuted). *)
Theorem C12_binding_fixpoint : forall reparse32 : Z -> Z,
  (forall b, is_finite (f32_of_bits b) = true ->
     is_finite (f64_of_bits (reparse32 b)) = true /\ f64_to_f32 (f64_of_bits (reparse32 b)) = f32_of_bits b) ->
  forall t d b v,
  sty_wf t = true -> json_native_scalar d = true ->
  try_convert (FScalar t) d = Ok (Some b) -> bval_scalar b = Some v -> not_max32 v ->
  forall d', redecode reparse32 v = Some d' ->
  exists b', try_convert (FScalar t) d' = Ok (Some b') /\ bval_scalar b' = Some v.
Proof. exact binding_fixpoint. Qed.
Print Assumptions C12_binding_fixpoint.

(* FIXPOINT, whole documents: for every configuration without a lenient default and every decoded
   document of the domain - any depth; at every node distinct field names, every field a JSON scalar or
   null with at most one (scalar-typed) key of its name on the resolved definition / among the custom
   keys, bound to a value that marshals or kept unknown; every cause restored as an errdef error -
   if Unmarshal accepts x then the restored error marshals to a document y (redoc: kind, message,
   stack, the fields object in name order with typed values re-encoded and unknown values verbatim,
   causes recursively), Unmarshal accepts y, and the error restored from y marshals to y again.
   Composition of C12_binding_fixpoint over the fields of a node (C12_fields_independent, the name
   order of C12_field_order_is_name_order) and over the cause tree.  The strconv contract on float32
   is the explicit premise; composite field values, foreign / unknown causes and a lenient default
   resolver (K3) are outside this theorem and decided by the run. *)
Theorem C12_document_fixpoint : forall reparse32 : Z -> Z,
  (forall b, is_finite (f32_of_bits b) = true ->
     is_finite (f64_of_bits (reparse32 b)) = true /\ f64_to_f32 (f64_of_bits (reparse32 b)) = f32_of_bits b) ->
  forall c, cfg_plain c -> forall x, ddom reparse32 c x -> forall r, unmarshal c x = UOk r ->
  exists y r', redoc reparse32 r = Some y /\ unmarshal c y = UOk r' /\ redoc reparse32 r' = Some y.
Proof. exact doc_fixpoint. Qed.
Print Assumptions C12_document_fixpoint.

Example C12_document_fixpoint_example : forall reparse32 : Z -> Z,
  cfg_plain ex_c /\ ddom reparse32 ex_c ex_x /\
  exists r, unmarshal ex_c ex_x = UOk r /\
            redoc reparse32 r = Some (DD "top" "k1" "" [("n", ex_f3); ("z", ex_s)] [] [Some ex_inner] "").
Proof.
  intros reparse32. split; [left; reflexivity|]. split.
  - unfold ex_x. cbn [ddom]. split; [repeat constructor; cbn; intuition discriminate|]. split.
    + intros def Hd. apply ex_resolve in Hd. subst def. split; [apply ex_simple|].
      assert (E : bindl ex_c ex_d "k1" (sort_fields [("z", ex_s); ("n", ex_f3)]) =
                  [("n", FTyped ex_kn (BScalar {| s_id := 2; s_kind := KInt |} (SInt 3))); ("z", FUnknown ex_s)]) by (vm_compute; reflexivity).
      rewrite E. constructor; [cbn [snd fres_ok bval_scalar]; split; [exact I|unfold redecode; discriminate]|].
      constructor; [exact I|constructor].
    + split; [|split; [eexists; vm_compute; reflexivity|exact I]].
      unfold ex_inner. cbn [ddom]. split; [repeat constructor; cbn; intuition|]. split; [|exact I].
      intros def Hd. apply ex_resolve in Hd. subst def. split.
      * intros n v [H|[]]. apply ex_simple. right. left. exact H.
      * assert (E : bindl ex_c ex_d "k1" (sort_fields [("n", ex_f3)]) =
                    [("n", FTyped ex_kn (BScalar {| s_id := 2; s_kind := KInt |} (SInt 3)))]) by (vm_compute; reflexivity).
        rewrite E. constructor; [cbn [snd fres_ok bval_scalar]; split; [exact I|unfold redecode; discriminate]|constructor].
  - eexists. split; [vm_compute; reflexivity|]. vm_compute. reflexivity.
Qed.

(* the integer step on its own, no float32 premise: a number bound to an integer kind re-marshals
   to a number bound to the same integer *)
Theorem C12_int_binding_idempotent : forall k bits z, Check.C11.is_int_kind k = true ->
  conv_f64 k bits = Some (SInt z) -> conv_f64 k (bits_of_f64 (i64_to_f64 z)) = Some (SInt z).
Proof. exact int_binding_idempotent. Qed.
Print Assumptions C12_int_binding_idempotent.

(* K9: x = {"f": 3.4028234663852886e38} (= MaxFloat32 exactly) binds to a float32 key; n carries
   3.4028235e+38, whose float64 value is declined: Unmarshal(n) fails in strict mode *)
Theorem C12_max_float32_refuted :
  conv_f64 KFloat32 max_float32_bits64 = Some (SF32 max_float32_bits) /\
  redecode (fun _ => reparsed_max32_bits64) (SF32 max_float32_bits) = Some (DS ty_float64 (SF64 reparsed_max32_bits64)) /\
  try_convert (FScalar {| s_id := 12; s_kind := KFloat32 |}) (DS ty_float64 (SF64 reparsed_max32_bits64)) = Ok None.
Proof. repeat split; vm_compute; reflexivity. Qed.
Print Assumptions C12_max_float32_refuted.

Example C12_example :
  let kn := {| uk_key := {| k_id := 1; k_name := "n"; k_ty := 2 |}; uk_ty := FScalar {| s_id := 2; s_kind := KInt |} |} in
  let kf := {| uk_key := {| k_id := 2; k_name := "n"; k_ty := 13 |}; uk_ty := FScalar ty_float64 |} in
  let d := {| ud_def := define 1000 0 "k1" [ONoTrace]; ud_keys := [kn; kf] |} in
  let c := {| u_defs := [d]; u_default := None; u_strict := false; u_custom := []; u_sentinels := [] |} in
  let f3 := DS ty_float64 (SF64 4613937818241073152) in
  let s := DS {| s_id := 1; s_kind := KString |} (SStr "x") in
  (* both same-named keys accept 3.0: the first in insertion order binds, whatever the field order *)
  unmarshal c (DD "m" "k1" "" [("n", f3); ("z", s)] [] [] "")
    = UOk (RErr d "m" [(kn, BScalar {| s_id := 2; s_kind := KInt |} (SInt 3))] [("z", s)] [] []) /\
  unmarshal c (DD "m" "k1" "" [("z", s); ("n", f3)] [] [] "")
    = UOk (RErr d "m" [(kn, BScalar {| s_id := 2; s_kind := KInt |} (SInt 3))] [("z", s)] [] []).
Proof. vm_compute. split; reflexivity. Qed.

(* the F12 witness: strict mode, a cause with an unregistered field "zzz" and a declared field
   "ints" whose value cannot be converted: both field orders now fail alike (ErrInternal) *)
Example C12_example_F12 :
  let ki := {| uk_key := {| k_id := 1; k_name := "ints"; k_ty := 104 |}; uk_ty := FJson 315 |} in
  let d := {| ud_def := define 1000 0 "k3" [ONoTrace]; ud_keys := [ki] |} in
  let c := {| u_defs := [d]; u_default := None; u_strict := true; u_custom := []; u_sentinels := [] |} in
  let bad := DJ 7 [(315%N, None)] in
  let one := DS {| s_id := 2; s_kind := KInt |} (SInt 1) in
  let cause fs := DD "c" "k3" "" fs [] [] "" in
  let top fs := DD "top" "k3" "" [] [] [Some (cause fs)] "" in
  dd_perm (top [("ints", bad); ("zzz", one)]) (top [("zzz", one); ("ints", bad)]) /\
  unmarshal c (top [("ints", bad); ("zzz", one)]) = UFail [internal_failure] /\
  unmarshal c (top [("zzz", one); ("ints", bad)]) = UFail [internal_failure].
Proof.
  split; [|vm_compute; split; reflexivity].
  constructor; [constructor|constructor|].
  constructor; [|constructor]. constructor. constructor; [apply perm_swap| |constructor].
  cbn. constructor; [intros [H|[]]; discriminate|]. constructor; [intros []|constructor].
Qed.
