(* C20 — fields collections are self-consistent (native part; the restored part
   is in Properties/C20r.v once the unmarshaler model is in place).
   Statements only; proofs in Proofs/C20Proofs.v. *)
From Coq Require Import Sorting.Sorted Sorting.Permutation.
From Errdef Require Import Base.Str Model.Core Model.GoErrors Model.Prog Check.C03 Check.C20 Proofs.C20Proofs.

(* invariant: key ids unique, indices strictly increasing and bounded by lastIndex;
   established by newFields, preserved by set, and true of every factory any program creates *)
Theorem C20_native_inv :
  wf_fields fields_empty /\ (forall k v f, wf_fields f -> wf_fields (f_set k v f)) /\
  (forall p d, In d (s_defs (run p)) -> wf_fields (d_fields d)).
Proof. exact (conj wf_empty (conj wf_set native_inv)). Qed.
Print Assumptions C20_native_inv.

(* Len = number of pairs of All; IsZero iff Len = 0; every pair of All is found by Get
   with the same value and by FindKeys under its name; FindKeys returns only keys of
   that name (and only keys All yields); Get reports absence for a key that was never set *)
Theorem C20_native_coherent : forall f, wf_fields f ->
  f_len f = List.length (f_all f) /\
  (f_is_zero f = true <-> f_len f = 0) /\
  (forall k v, In (k, v) (f_all f) -> f_get f k = Some v /\ In k (f_find_keys f (k_name k))) /\
  (forall n k, In k (f_find_keys f n) -> k_name k = n /\ exists v, In (k, v) (f_all f)) /\
  (forall k, ~ In (k_id k) (map (fun kv : key * fval => k_id (fst kv)) (f_all f)) -> f_get f k = None).
Proof. exact native_coherent. Qed.
Print Assumptions C20_native_coherent.

(* All() = the keys in the order they were last written, for every option sequence *)
Theorem C20_all_is_last_write_order : forall a org kind os,
  map (fun kv => (k_id (fst kv), fv_repr (snd kv))) (f_all (d_fields (define a org kind os))) = write_order os.
Proof. exact all_is_write_order. Qed.
Print Assumptions C20_all_is_last_write_order.

(* the order is the same for every iteration order of the underlying Go map *)
Theorem C20_order_independent_of_map_iteration : forall f l',
  wf_fields f -> Permutation (f_data f) l' -> sort_by_idx (f_data f) = sort_by_idx l'.
Proof. intros f l' W P. apply order_independent_of_iteration; [exact P|now apply wf_nodup_idx]. Qed.
Print Assumptions C20_order_independent_of_map_iteration.

Example C20_example :
  let ka := {| k_id := 1; k_name := "a"; k_ty := 1 |} in
  let kb := {| k_id := 2; k_name := "a"; k_ty := 2 |} in
  let kc := {| k_id := 3; k_name := "c"; k_ty := 1 |} in
  let v s := {| fv_repr := s; fv_plus := s; fv_json := s |} in
  let os := [OField ka (v "1"); OField kb (v "2"); OField kc (v "3"); OField ka (v "4")] in
  let f := d_fields (define 1 0 "k" os) in
  wf_fields f /\ map (fun kv => k_id (fst kv)) (f_all f) = [2; 3; 1]%N /\
  map k_id (f_find_keys f "a") = [2; 1]%N /\ write_order os = [(2%N, "2"); (3%N, "3"); (1%N, "4")].
Proof. split; [apply wf_apply_opts, wf_empty|]. vm_compute. repeat split; reflexivity. Qed.
