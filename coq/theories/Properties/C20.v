(* C20 — fields collections are self-consistent: native fields (theorems C20_native_...) and the
   fields of restored errors (theorems C20_restored_...).
   Statements only; proofs in Proofs/C20Proofs.v. *)
From Coq Require Import Sorting.Sorted Sorting.Permutation.
From Errdef Require Import Base.Str Base.Outcome Model.Core Model.GoErrors Model.Prog Model.Convert Model.Unmarshal
  Check.C03 Check.C20 Check.UM Proofs.C20Proofs Proofs.C12Proofs Proofs.C20rProofs.

(* invariant: key ids unique, indices strictly increasing and bounded by lastIndex;
   established by newFields, preserved by set, and true of every factory any program creates *)
Theorem C20_native_inv :
  wf_fields fields_empty /\ (forall k v f, wf_fields f -> wf_fields (f_set k v f)) /\
  (forall p d, In d (s_defs (run p)) -> wf_fields (d_fields d)).
Proof. exact (conj wf_empty (conj wf_set native_inv)). Qed.
Print Assumptions C20_native_inv.

(* Len = number of pairs of All; IsZero iff Len = 0; every pair of All is found by Get
   with the same value and by FindKeys under its name; FindKeys returns only keys of
   that name (and only keys All yields); Get reports absence for a key that was never set *)
Theorem C20_native_coherent : forall f, wf_fields f ->
  f_len f = List.length (f_all f) /\
  (f_is_zero f = true <-> f_len f = 0) /\
  (forall k v, In (k, v) (f_all f) -> f_get f k = Some v /\ In k (f_find_keys f (k_name k))) /\
  (forall n k, In k (f_find_keys f n) -> k_name k = n /\ exists v, In (k, v) (f_all f)) /\
  (forall k, ~ In (k_id k) (map (fun kv : key * fval => k_id (fst kv)) (f_all f)) -> f_get f k = None).
Proof. exact native_coherent. Qed.
Print Assumptions C20_native_coherent.

(* All() = the keys in the order they were last written, for every option sequence *)
Theorem C20_all_is_last_write_order : forall a org kind os,
  map (fun kv => (k_id (fst kv), fv_repr (snd kv))) (f_all (d_fields (define a org kind os))) = write_order os.
Proof. exact all_is_write_order. Qed.
Print Assumptions C20_all_is_last_write_order.

(* the order is the same for every iteration order of the underlying Go map *)
Theorem C20_order_independent_of_map_iteration : forall f l',
  wf_fields f -> Permutation (f_data f) l' -> sort_by_idx (f_data f) = sort_by_idx l'.
Proof. intros f l' W P. apply order_independent_of_iteration; [exact P|now apply wf_nodup_idx]. Qed.
Print Assumptions C20_order_independent_of_map_iteration.

(* ---------- restored errors (unmarshaler/field.go) ---------- *)

(* a restored error exposes every decoded field exactly once, either typed or unknown:
   the names of its entries are a permutation of the decoded names, pairwise distinct,
   with distinct key ids among the typed ones - for every configuration and document *)
Theorem C20_restored_partition : forall c m k t fs st cs u e def,
  resolve_kind_u c k = UOk def -> keys_wf c def -> NoDup (map fst fs) ->
  unmarshal c (DD m k t fs st cs u) = UOk e ->
  Permutation (map e_name (entries e)) (map fst fs) /\ rwf e.
Proof. exact restored_partition. Qed.
Print Assumptions C20_restored_partition.

(* the same coherence equations as for native fields; Get reports absence for a name that
   does not occur; FindKeys returns only keys of that name *)
Theorem C20_restored_coherent : forall e, rwf e ->
  rf_len e = List.length (rf_all e) /\
  (rf_is_zero e = true <-> rf_len e = 0) /\
  (forall a v, In (a, v) (rf_all e) -> rf_get e a = Some v /\ In a (rf_find_keys e (ak_name a))) /\
  (forall n a, In a (rf_find_keys e n) -> ak_name a = n /\ exists v, In (a, v) (rf_all e)) /\
  (forall n, ~ In n (map e_name (entries e)) -> rf_get e (AKName n) = None /\ rf_find_keys e n = []).
Proof. exact restored_coherent. Qed.
Print Assumptions C20_restored_coherent.

(* All() of restored fields is one fixed order (sorted by name): identical for every
   permutation of the entries, and therefore for every unmarshaling of the same input *)
Theorem C20_restored_order_fixed :
  (forall l l', Permutation l l' -> NoDup (map e_name l) -> sort_entries l = sort_entries l') /\
  (forall c m k t fs fs' st cs u e e' def,
     resolve_kind_u c k = UOk def -> keys_wf c def -> NoDup (map fst fs) -> Permutation fs fs' ->
     unmarshal c (DD m k t fs st cs u) = UOk e -> unmarshal c (DD m k t fs' st cs u) = UOk e' ->
     rf_all e = rf_all e' /\ rf_len e = rf_len e').
Proof. exact (conj sort_perm_invariant restored_all_deterministic). Qed.
Print Assumptions C20_restored_order_fixed.

Example C20_example :
  let ka := {| k_id := 1; k_name := "a"; k_ty := 1 |} in
  let kb := {| k_id := 2; k_name := "a"; k_ty := 2 |} in
  let kc := {| k_id := 3; k_name := "c"; k_ty := 1 |} in
  let v s := {| fv_repr := s; fv_plus := s; fv_json := s |} in
  let os := [OField ka (v "1"); OField kb (v "2"); OField kc (v "3"); OField ka (v "4")] in
  let f := d_fields (define 1 0 "k" os) in
  wf_fields f /\ map (fun kv => k_id (fst kv)) (f_all f) = [2; 3; 1]%N /\
  map k_id (f_find_keys f "a") = [2; 1]%N /\ write_order os = [(2%N, "2"); (3%N, "3"); (1%N, "4")].
Proof. split; [apply wf_apply_opts, wf_empty|]. vm_compute. repeat split; reflexivity. Qed.
