(* C15 - Redacted values never appear in any output.
   Statements only; proofs are in Proofs/C15Proofs.v.

   BOUNDARY (for DESIGN.md, section C15).  The statement covers the positions at
   which a sink reaches a value "through its own methods".  fmt does NOT hand a
   value to its methods in two situations, and prints it by reflection there; both
   are standard-library behaviour that Redacted[T] cannot influence, both are
   modelled faithfully (Model/Redact.v: [meth] = false) and both are OUTSIDE the
   property ([inside] in Check/C15.v is false, [ok] does not judge, the model still
   has to predict the text):
     (a) below an unexported struct field (reflect's read-only flag: CanInterface
         is false).  C15_unexported_leaks_refuted.
     (b) inside fmt's bad-verb path: a pointer BELOW depth 0 (struct field, map
         value, slice element) under a verb that is invalid for pointers (every verb
         but v d x X o b) goes to fmtPointer -> badVerb, which sets p.erroring and
         re-prints the pointee with verb v at depth 0 and with handleMethods disabled.
         Three instances were confirmed on the unchanged tree:
           1. formatting or logging a FieldValue wrapper itself instead of its
              Value()                                          (design time; not generated)
           2. the fields collection under such a verb: fmt.Sprintf("%s", err.Fields())
              prints &{map[...:{%!s(PTRTYPE=&{{SECRET}}) 1}] 1}, PTRTYPE = pointer to errdef.fieldValue[...]
                                                               (design time; C15_badverb_fields_refuted)
           3. NEW: a Value() that contains, at an exported / interface-accessible
              position, a pointer to a struct with an exported Redacted field:
                type S struct{ Tok errdef.Redacted[string] }
                D := errdef.Define("d", errdef.Details{"p": &S{errdef.Redact("SECRET")}})
                for _, fv := range D.New("m").(errdef.Error).Fields().All() { fmt.Sprintf("%s", fv.Value()) }
              prints map[p:%!s(PTRTYPE=&{{SECRET}})], PTRTYPE = pointer to main.S; %v %+v %#v %d %x %X %o %b print
              the address, JSON / slog / the %+v text of the error are fine, and the
              same pointer as the field value itself (depth 0) is fine under every verb.
              Generated in the stream outside the property (shape "w", and pointers
              nested by the random shapes).            C15_badverb_nested_ptr_refuted.
   Inside the property the theorems are unconditional for json, slog, the text of
   formatErrorDetails and every directive that is valid for pointers, and hold for
   the remaining directives on every value without a pointer to a composite below
   depth 0 ([ptrs_guarded]).

   MODELLED vs OBSERVED.  The dispatch rules of fmt / encoding/json / log/slog are an
   oracle validated by the correspondence.  Compared literally with the
   implementation: %v %+v %#v %s %q %d %x of Value(); json.Marshal of the value, the
   fields, the error, a Node; MarshalText / MarshalBinary; slog text and JSON of the
   value, the fields, the error, a Node (slogValueToAny for its causes); %+v of the
   error (whole text without stack trace, the "fields:" block with one); where the
   fields end up after the JSON round trip.  Only observed (no marker, both runs
   equal after masking addresses, placeholder count where the statement fixes it):
   the other 197 directives on values, every directive on the error / its tree / a
   Node / the fields collection, xml, gob, slog of a Stack, every sink on the
   restored error. *)
From Errdef Require Import Base.Str Model.Redact Check.C15 Proofs.C15Proofs.
From Errdef Require Gen.Consts Model.Unmarshal.

(* [same_public true v v']: v and v' are the same Go value except for the payloads of
   Redacted values at positions a sink reaches through methods (the payloads keep their
   Go type); below an unexported struct field they are identical. *)

(* Non-interference, field values.  For every sink of a field value - fmt with ANY
   rendering of the public leaves (all 17 verbs, every flag set and width), the value
   inside formatErrorDetails, json.Marshal, slog text and JSON - every value of any
   nesting and every two assignments of secrets, the outputs are equal. *)
Theorem C15_noninterference : forall (k : vsink) (v v' : val),
  same_public true v v' -> vsink_dom k v -> run_vsink k v = run_vsink k v'.
Proof. exact vsink_ni. Qed.
Print Assumptions C15_noninterference.

(* the same, with the domain spelled out for fmt *)
Theorem C15_noninterference_fmt : forall (L : leaves) (sp : fspec) (v v' : val),
  same_public true v v' ->
  ptr_valid (f_verb sp) = true \/ ptrs_guarded true v = true ->
  fmt_value L sp v = fmt_value L sp v'.
Proof. exact (fun L sp v v' H D => vsink_ni (KFmt L sp) v v' H D). Qed.
Print Assumptions C15_noninterference_fmt.

(* Non-interference, error trees: %+v of the error, JSON of the error / of a Node, slog
   value of the error and of a Node (slogValueToAny for the causes), for every tree. *)
Theorem C15_noninterference_error : forall (k : esink) (e e' : err),
  same_err e e' -> run_esink k e = run_esink k e'.
Proof. exact esink_ni. Qed.
Print Assumptions C15_noninterference_error.

(* Non-interference, the fields collection: %v-family (every directive that is valid for
   pointers, any iteration order of the data map), JSON, slog. *)
Theorem C15_noninterference_fields : forall (L : leaves) (sp : fspec) fs fs' last order,
  same_fields fs fs' -> ptr_valid (f_verb sp) = true ->
  fmt_value L sp (VFields fs last order) = fmt_value L sp (VFields fs' last order) /\
  json_value (VFields fs last order) = json_value (VFields fs' last order) /\
  (forall prefix key, log_text prefix key (fields_log fs) = log_text prefix key (fields_log fs')) /\
  log_json (fields_log fs) = log_json (fields_log fs').
Proof.
  exact (fun L sp fs fs' last order H V =>
           conj (fields_fmt_ni L sp fs fs' last order H V)
             (conj (fields_json_ni fs fs' last order H) (fields_log_ni fs fs' H))).
Qed.
Print Assumptions C15_noninterference_fields.

(* At each redacted position the output is exactly the placeholder: every directive, any
   payload, by value and through a pointer; JSON, Text, Binary, slog. *)
Theorem C15_placeholder_shown : forall (L : leaves) (sp : fspec) (top : bool) (indent prefix key : string) (p : val),
  fmt_at L (init sp) true top (VRedacted p) = placeholder /\
  fmt_at L (init sp) true top (VPtr (VRedacted p)) = placeholder /\
  detail_value indent (VRedacted p) = placeholder /\
  json_value (VRedacted p) = json_string true placeholder /\
  json_value (VPtr (VRedacted p)) = json_string true placeholder /\
  marshal_text (VRedacted p) = Some placeholder /\
  marshal_binary (VRedacted p) = Some placeholder /\
  log_text prefix key (log_value (VRedacted p)) = (" " ++ prefix ++ key ++ "=" ++ placeholder)%string /\
  log_json (log_value (VRedacted p)) = json_string false placeholder.
Proof. exact placeholder_shown. Qed.
Print Assumptions C15_placeholder_shown.

(* ... and inside a composite the text of an exported Redacted field is the placeholder *)
Theorem C15_placeholder_in_struct : forall (L : leaves) st top n fs fn p,
  In (fn, true, VRedacted p) fs ->
  fmt_at L st true top (VStruct n fs) = struct_shell st n (map (fmt_field L st true) fs) /\
  In (fn, placeholder) (map (fmt_field L st true) fs).
Proof. exact placeholder_in_struct. Qed.
Print Assumptions C15_placeholder_in_struct.

(* JSON round trip: a field all of whose writers are Redacted wrappers is restored among
   the unknown fields with the placeholder and nowhere typed, whatever binds the other
   fields; the restored fields do not depend on the secrets; Value() of the original
   wrapper still returns the secret. *)
Theorem C15_roundtrip_placeholder : forall conv (fs : fields) (last : Z) (n : string),
  (exists k v, In (k, v) fs /\ k_name k = n) ->
  (forall k v, In (k, v) fs -> k_name k = n -> is_direct v) ->
  In (n, Unknown (JStr placeholder)) (restore_fields conv fs last) /\
  (forall s, In (n, s) (restore_fields conv fs last) -> s = Unknown (JStr placeholder)) /\
  (forall fs', same_fields fs fs' -> restore_fields conv fs last = restore_fields conv fs' last) /\
  (forall p, value_of (VRedacted p) = Some p).
Proof.
  exact (fun conv fs last n Hex Hd =>
           match roundtrip_placeholder conv fs last n Hex Hd with
           | conj A B => conj A (conj B (conj (fun fs' H => roundtrip_ni conv fs fs' last H) (fun p => eq_refl)))
           end).
Qed.
Print Assumptions C15_roundtrip_placeholder.

(* The boundary the statement draws (not findings): see the comment at the top. *)
Theorem C15_unexported_leaks_refuted :
  fmt_value std (spec_of Vv false false) (leak_unexported (VStr "SECRET")) = "{n {SECRET}}" /\
  fmt_value std (spec_of Vv false false) (leak_unexported (VStr "SECRET"))
    <> fmt_value std (spec_of Vv false false) (leak_unexported (VStr "OTHER")).
Proof. exact unexported_leaks. Qed.
Print Assumptions C15_unexported_leaks_refuted.

Theorem C15_badverb_nested_ptr_refuted :
  same_public true (leak_nested_ptr (VStr "SECRET")) (leak_nested_ptr (VStr "OTHER")) /\
  fmt_value std (spec_of Vs false false) (leak_nested_ptr (VStr "SECRET")) = "map[p:%!s(*S=&{{SECRET}})]" /\
  fmt_value std (spec_of Vs false false) (leak_nested_ptr (VStr "SECRET"))
    <> fmt_value std (spec_of Vs false false) (leak_nested_ptr (VStr "OTHER")) /\
  fmt_value std (spec_of Vv false false) (leak_nested_ptr (VStr "SECRET")) = "map[p:0xPTR]".
Proof. exact badverb_nested_ptr_leaks. Qed.
Print Assumptions C15_badverb_nested_ptr_refuted.

Theorem C15_badverb_fields_refuted :
  same_public true (leak_fields (VStr "SECRET")) (leak_fields (VStr "OTHER")) /\
  fmt_value std (spec_of Vs false false) (leak_fields (VStr "SECRET"))
    <> fmt_value std (spec_of Vs false false) (leak_fields (VStr "OTHER")) /\
  fmt_value std (spec_of Vv false false) (leak_fields (VStr "SECRET")) = "&{map[0xPTR:{0xPTR 1}] 1}".
Proof. exact badverb_fields_leaks. Qed.
Print Assumptions C15_badverb_fields_refuted.

(* Link to the check.  The text the model gives for a literally modelled sink, on a
   well-formed case inside the statement, contains no "<" and therefore no marker ... *)
Theorem C15_model_output_clean : forall c s,
  wf c = true -> inside c = true -> model c = Some s -> contains mark s = false.
Proof. exact (fun c s W I M => clean_no_mark s (model_clean c s W I M)). Qed.
Print Assumptions C15_model_output_clean.

(* ... so an observation that agrees with the model satisfies the secrecy half of [ok]:
   neither marker occurs and the two runs cannot be told apart.  (The other half,
   [ok_shown], counts placeholders in the observed text; on the model's side it is
   C15_placeholder_shown.) *)
Theorem C15_corr_implies_ok : forall c,
  inside c = true -> model c <> None -> corr c = true -> ok_secret c = true.
Proof. exact corr_implies_ok_secret. Qed.
Print Assumptions C15_corr_implies_ok.

(* non-vacuity: a value with a secret in a map, in a slice, in an exported struct field
   behind a top-level pointer and behind a pointer to the wrapper; two different secrets *)
Example C15_example :
  let shape (q : val) :=
    VPtr (VStruct "main.S"
      [("Name", true, VStr "a b");
       ("Tok", true, VRedacted q);
       ("M", true, VMap "map[string]interface {}"
                     [("k", VIface (VRedacted q)); ("l", VIface (VSlice [VIface (VPtr (VRedacted q)); VIface (VInt 5)]))])]) in
  let v := shape (VStr "SECRET-1") in
  let v' := shape (VStr "SECRET-2") in
  same_public true v v' /\ v <> v' /\ ptrs_guarded true v = true /\
  fmt_value std plusv v = "&{Name:a b Tok:[REDACTED] M:map[k:[REDACTED] l:[[REDACTED] 5]]}" /\
  fmt_value std (spec_of Vs false false) v = fmt_value std (spec_of Vs false false) v' /\
  json_value v = "{""Name"":""a b"",""Tok"":""[REDACTED]"",""M"":{""k"":""[REDACTED]"",""l"":[""[REDACTED]"",5]}}" /\
  restore_fields conv_all [({| k_name := "tok"; k_ty := "errdef.Redacted[string]"; k_idx := 1 |}, VRedacted (VStr "SECRET-1"))] 1
    = [("tok", Unknown (JStr placeholder))].
Proof. vm_compute. repeat split; try reflexivity. discriminate. Qed.

(* TIE TO THE SOURCE: the placeholder of the model (and the one the unmarshaler model recognises)
   is the constant redactedStr srcgen reads from redaction.go on every run *)
Theorem C15_placeholder_is_source :
  Model.Redact.placeholder = Gen.Consts.redactedStr /\ Model.Unmarshal.redacted_str = Gen.Consts.redactedStr.
Proof. split; reflexivity. Qed.
Print Assumptions C15_placeholder_is_source.
