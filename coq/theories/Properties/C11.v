(* C11 — Typed field binding is value-preserving or declined.
   Statements only; proofs are in Proofs/C11Proofs.v.  The model is Model/Convert.v
   (conv_f64 = tryConvertFloat64, conv_i64 = tryConvertInt64, try_convert =
   tryConvertFieldValue); floats are IEEE-754 bit patterns interpreted by Flocq.
   All theorems quantify over every bit pattern / every integer; the target kind is
   quantified too (guard [is_int_kind k = true] = the ten integer kinds).
   Theorems that mention real numbers depend on the axioms of Coq's Reals library
   (through Flocq); nothing else. *)
From Coq Require Import ZArith Reals Bool.
From Flocq Require Import Core IEEE754.BinarySingleNaN.
From Errdef Require Import Base.Str Base.Outcome Model.Core Model.Convert Model.Unmarshal Check.C11 Proofs.C11Proofs Proofs.C11Binding.
Local Open Scope Z_scope.

(* ---- the model is regenerated from the source ------------------------------------------ *)

(* conv_f64 / conv_i64 are interpreters of Gen/Bounds.v, which srcgen extracts from
   tryConvertFloat64 / tryConvertInt64 on every run (kinds per clause, guards in source order with
   their comparison operators and operands, the per-kind (min, max) constants evaluated to integers,
   the operand of the final reflect conversion).  On the current source they coincide, for every
   kind and every input, with the hand-written transcription every theorem below is proved about;
   an edit of a constant, an operator, the guard order or the converted operand makes this fail
   (and with it every theorem of this file), while the interpreter keeps following the code. *)
Theorem C11_model_is_source : forall k,
  (forall bits, conv_f64 k bits = conv_f64_ref k bits) /\ (forall z, conv_i64 k z = conv_i64_ref k z).
Proof. exact (fun k => conj (conv_f64_gen k) (conv_i64_gen k)). Qed.
Print Assumptions C11_model_is_source.

Theorem C11_source_shape_recognised : Bounds.bounds_matched = true.
Proof. reflexivity. Qed.
Print Assumptions C11_source_shape_recognised.

(* ---- float64 -> integer kinds ---------------------------------------------------------- *)

(* Full statement (FALSE of the code, defect K6): an accepted float64 is finite, its real value
   is exactly the bound integer z, and int_min k <= z <= int_max k:

     forall k bits z, is_int_kind k = true -> conv_f64 k bits = Some (SInt z) ->
       B2R (f64_of_bits bits) = IZR z /\ int_min k <= z <= int_max k

   What holds: the same with the closed upper bound int_max k + 1 for the four 64-bit kinds
   ([slack k] = 1 for int, int64, uint, uint64 and 0 otherwise), and the bound integer is the
   exact value whenever that value is within the type's range. *)
Theorem C11_f64_to_int_exact_partial : forall k bits z,
  is_int_kind k = true -> conv_f64 k bits = Some (SInt z) ->
  exists z', is_finite (f64_of_bits bits) = true /\ B2R (f64_of_bits bits) = IZR z' /\
             int_min k <= z' <= int_max k + slack k /\ (z' <= int_max k -> z = z').
Proof. exact f64_to_int_exact_partial. Qed.
Print Assumptions C11_f64_to_int_exact_partial.

(* K6 witnesses: float64 2^63 is accepted for int64/int and binds -2^63; float64 2^64 is
   accepted for uint64/uint and binds 2^63. *)
Theorem C11_f64_int64_boundary_refuted :
  (is_finite (f64_of_bits bits_two63) = true /\ B2R (f64_of_bits bits_two63) = IZR two63 /\
   conv_f64 KInt64 bits_two63 = Some (SInt (- two63)) /\ conv_f64 KInt bits_two63 = Some (SInt (- two63))) /\
  (is_finite (f64_of_bits bits_two64) = true /\ B2R (f64_of_bits bits_two64) = IZR two64 /\
   conv_f64 KUint64 bits_two64 = Some (SInt two63) /\ conv_f64 KUint bits_two64 = Some (SInt two63)).
Proof. exact f64_int64_boundary. Qed.
Print Assumptions C11_f64_int64_boundary_refuted.

Theorem C11_f64_to_int_exact_refuted :
  ~ (forall k bits z, is_int_kind k = true -> conv_f64 k bits = Some (SInt z) ->
       B2R (f64_of_bits bits) = IZR z /\ int_min k <= z <= int_max k /\
       exists z', B2R (f64_of_bits bits) = IZR z' /\ z' <= int_max k).
Proof. exact f64_to_int_exact_refuted. Qed.
Print Assumptions C11_f64_to_int_exact_refuted.

(* every finite float64 whose value is an integer within the type's range is accepted, with
   exactly that value *)
Theorem C11_f64_to_int_complete : forall k bits z',
  is_int_kind k = true -> is_finite (f64_of_bits bits) = true -> B2R (f64_of_bits bits) = IZR z' ->
  int_min k <= z' <= int_max k -> conv_f64 k bits = Some (SInt z').
Proof. exact f64_to_int_complete. Qed.
Print Assumptions C11_f64_to_int_complete.

(* NaN and the infinities, fractions, and integers outside [int_min k, int_max k + slack k] are declined *)
Theorem C11_f64_to_int_declined : forall k bits,
  is_int_kind k = true ->
  is_finite (f64_of_bits bits) = false \/
  (forall z, B2R (f64_of_bits bits) <> IZR z) \/
  (exists z, B2R (f64_of_bits bits) = IZR z /\ (z < int_min k \/ int_max k + slack k < z)) ->
  conv_f64 k bits = None.
Proof. exact f64_to_int_declines. Qed.
Print Assumptions C11_f64_to_int_declined.

(* -0 binds 0 *)
Theorem C11_f64_neg_zero_binds_zero : forall k, is_int_kind k = true ->
  f64_of_bits neg_zero_bits64 = B754_zero true /\ conv_f64 k neg_zero_bits64 = Some (SInt 0).
Proof. exact f64_neg_zero. Qed.
Print Assumptions C11_f64_neg_zero_binds_zero.

(* ---- int64 -> integer kinds ------------------------------------------------------------ *)
Theorem C11_i64_to_int_exact_complete : forall k z z', is_int_kind k = true ->
  (conv_i64 k z = Some (SInt z') <-> z' = z /\ int_min k <= z <= int_max k).
Proof. exact i64_to_int_exact_complete. Qed.
Print Assumptions C11_i64_to_int_exact_complete.

(* ---- float64 -> float32 ---------------------------------------------------------------- *)
(* accepted iff not (|f| > MaxFloat32) (so NaN passes, the infinities do not); the result is the
   round-to-nearest-even binary32 of the real value, with the sign kept (also of zero) *)
Theorem C11_f64_to_f32_nearest : forall bits,
  let f := f64_of_bits bits in
  (is_nan_f f = true -> conv_f64 KFloat32 bits = Some (SF32 nan32_bits)) /\
  (is_inf_f f = true -> conv_f64 KFloat32 bits = None) /\
  (is_finite f = true -> (IZR max_float32_Z < Rabs (B2R f))%R -> conv_f64 KFloat32 bits = None) /\
  (is_finite f = true -> (Rabs (B2R f) <= IZR max_float32_Z)%R ->
     exists g : b32, conv_f64 KFloat32 bits = Some (SF32 (bits_of_f32 g)) /\ is_finite g = true /\
       B2R g = round radix2 (FLT_exp (-149) 24) ZnearestE (B2R f) /\ Bsign g = Bsign f).
Proof. exact f64_to_f32_nearest. Qed.
Print Assumptions C11_f64_to_f32_nearest.

(* the bit pattern that is bound decodes to that float (encoding then decoding, integer arithmetic) *)
Theorem C11_f32_bits_roundtrip : forall g : b32, dec32 (bits_of_f32 g) = fdec_of (-149) g.
Proof. exact dec32_bits_of_f32. Qed.
Print Assumptions C11_f32_bits_roundtrip.

(* ---- int64 -> float32 / float64 -------------------------------------------------------- *)
(* accepted iff z is exactly representable in binary32 (amd64 semantics of int64(float32(z)));
   the value is kept *)
Theorem C11_i64_to_f32_lossless : forall z, - two63 <= z < two63 ->
  (generic_format radix2 (FLT_exp (-149) 24) (IZR z) ->
     conv_i64 KFloat32 z = Some (SF32 (bits_of_f32 (i64_to_f32 z))) /\
     is_finite (i64_to_f32 z) = true /\ B2R (i64_to_f32 z) = IZR z) /\
  (~ generic_format radix2 (FLT_exp (-149) 24) (IZR z) -> conv_i64 KFloat32 z = None).
Proof. exact i64_to_f32_lossless. Qed.
Print Assumptions C11_i64_to_f32_lossless.

(* "exactly representable" in elementary terms: at most 24 significant bits *)
Theorem C11_representable32_iff_24_bits : forall a, 0 <= a ->
  (fits 24 a = true <-> generic_format radix2 (FLT_exp (-149) 24) (IZR a)).
Proof. exact fits_format32. Qed.
Print Assumptions C11_representable32_iff_24_bits.

(* int64 -> float64 is always accepted and rounds to nearest even (the doc comment "without
   precision loss" is wrong above 2^53; the property text is silent on this pair) *)
Theorem C11_i64_to_f64_nearest : forall z, - two63 <= z < two63 ->
  conv_i64 KFloat64 z = Some (SF64 (bits_of_f64 (i64_to_f64 z))) /\
  is_finite (i64_to_f64 z) = true /\
  B2R (i64_to_f64 z) = round radix2 (FLT_exp (-1074) 53) ZnearestE (IZR z).
Proof. exact i64_to_f64_nearest. Qed.
Print Assumptions C11_i64_to_f64_nearest.

(* ---- derived types and pointers of the same kind ---------------------------------------- *)
Theorem C11_same_kind_value_kept : forall t vt sv,
  s_id t <> s_id vt -> s_kind t = s_kind vt -> ids_ok vt = true ->
  try_convert (FScalar t) (DS vt sv) = Ok (Some (BScalar t sv)).
Proof. exact same_kind_value_kept. Qed.
Print Assumptions C11_same_kind_value_kept.

Theorem C11_pointer_value_kept : forall id elem vt sv,
  id <> s_id vt -> s_kind elem = s_kind vt ->
  try_convert (FPtr id elem) (DS vt sv) = Ok (Some (BPtr id elem sv)).
Proof. exact pointer_value_kept. Qed.
Print Assumptions C11_pointer_value_kept.

(* ---- what "not bound" is ---------------------------------------------------------------- *)
(* try_convert binds, or says "not convertible" (unmarshaler.go then keeps the value unchanged
   under its name among the unknown fields), or - only for a composite sent to a JSON-decoded
   target (struct, map, slice, pointer to struct; array as of the fix for F16) - fails with ErrInternal.
   It never panics; a scalar or nil never fails. *)
Theorem C11_declined_is_none_or_fail : forall T v,
  (exists b, try_convert T v = Ok (Some b)) \/ try_convert T v = Ok None \/
  (try_convert T v = Fail "internal" /\ exists id tbl id', v = DJ id tbl /\
     (T = FJson id' \/ exists e, T = FOther id' kind_array e)).
Proof. exact declined_is_none_or_fail. Qed.
Print Assumptions C11_declined_is_none_or_fail.

Theorem C11_scalar_never_fails : forall T v, (v = DNil \/ exists t sv, v = DS t sv) ->
  exists o, try_convert T v = Ok o.
Proof. exact scalar_never_fails. Qed.
Print Assumptions C11_scalar_never_fails.

(* ---- link to the check ------------------------------------------------------------------- *)
(* the oracle's integer decoder is Flocq's *)
Theorem C11_decoder_is_flocq : forall bits, dec64 bits = fdec_of (-1074) (f64_of_bits bits).
Proof. exact dec64_spec. Qed.
Print Assumptions C11_decoder_is_flocq.

(* the oracle's distance test accepts every correctly rounded binary32 *)
Theorem C11_distance_test_accepts_rounded : forall (g : b32) s m e,
  is_finite g = true -> 0 <= m -> Bsign g = s ->
  B2R g = round radix2 (FLT_exp (-149) 24) ZnearestE
            (if s then - (IZR m * bpow radix2 e) else IZR m * bpow radix2 e)%R ->
  round_ok 23 8 s m e (bits_of_f32 g) = true.
Proof. exact round_ok_sound32. Qed.
Print Assumptions C11_distance_test_accepts_rounded.

(* ---- which key a decoded field binds to (unmarshaler.go: definition keys of that name in All() order, then
   the custom keys of that name in registration order; Model/Unmarshal.bind_field) ----------------------- *)

(* EVERY value the rules accept is bound: if some key of the field's name accepts the value and every key tried
   before it declines, the field is bound to that key with exactly the value try_convert gives - for any number
   of same-named keys, on the definition or among the custom keys *)
Theorem C11_accepted_is_bound : forall c d k n v l1 key l2 b,
  is_placeholder v = false ->
  cands c d n = (l1 ++ key :: l2)%list -> List.Forall (declines v) l1 -> accepts v key b ->
  bind_field c d k n v = FTyped key b.
Proof. exact accepted_is_bound. Qed.
Print Assumptions C11_accepted_is_bound.

(* a bound value is the first accepting key's conversion of the decoded value, nothing else *)
Theorem C11_bound_is_first_accepting : forall c d k n v key b,
  bind_field c d k n v = FTyped key b ->
  exists l1 l2, cands c d n = (l1 ++ key :: l2)%list /\ List.Forall (declines v) l1 /\ accepts v key b.
Proof. exact bound_is_first_accepting. Qed.
Print Assumptions C11_bound_is_first_accepting.

(* a field left unknown (lenient) or rejected with ErrUnknownField (strict) was declined by EVERY key of its name *)
Theorem C11_unbound_was_declined_by_all : forall c d k n v,
  is_placeholder v = false ->
  (bind_field c d k n v = FUnknown v \/
   bind_field c d k n v = FFail {| fl_class := cls_field; fl_kind := k; fl_field := n |}) ->
  List.Forall (declines v) (cands c d n).
Proof. exact unbound_was_declined_by_all. Qed.
Print Assumptions C11_unbound_was_declined_by_all.

(* non-vacuity: 300 for the name "n" with an int8 key on the definition and int8, int64 keys among the custom
   keys - declined twice, bound by the third *)
Example C11_binding_example :
  let k8 := {| uk_key := {| k_id := 1; k_name := "n"; k_ty := 3 |}; uk_ty := FScalar (st 3%N KInt8) |} in
  let k8' := {| uk_key := {| k_id := 2; k_name := "n"; k_ty := 3 |}; uk_ty := FScalar (st 3%N KInt8) |} in
  let k64 := {| uk_key := {| k_id := 3; k_name := "n"; k_ty := 6 |}; uk_ty := FScalar (st 6%N KInt64) |} in
  let ko := {| uk_key := {| k_id := 4; k_name := "m"; k_ty := 6 |}; uk_ty := FScalar (st 6%N KInt64) |} in
  let d := {| ud_def := define 1000 0 "k" []; ud_keys := [ko; k8] |} in
  let c := {| u_defs := [d]; u_default := None; u_strict := true; u_custom := [k8'; ko; k64]; u_sentinels := [] |} in
  let v := DS ty_float64 (SF64 4643985272004935680) in
  cands c d "n" = [k8; k8'; k64] /\ is_placeholder v = false /\
  bind_field c d "k" "n" v = FTyped k64 (BScalar (st 6%N KInt64) (SInt 300)).
Proof. vm_compute. repeat split; reflexivity. Qed.

(* On every well-formed case outside the K6 boundary inputs, an observation that agrees with
   the model satisfies the specification [ok]. *)
Theorem C11_corr_implies_ok : forall c,
  in_domain c = true -> k6_boundary c = false -> corr c = true -> ok c = true.
Proof. exact corr_implies_ok. Qed.
Print Assumptions C11_corr_implies_ok.

(* non-vacuity: a float32 tie (2^24 + 1 rounds to even), the largest int64 that float32 holds,
   a fraction, and the K6 input on which model and code agree but the specification fails *)
Example C11_example :
  let f32 := st 12%N KFloat32 in let i8 := st 3%N KInt8 in let i64 := st 6%N KInt64 in
  let c1 := {| c_target := FScalar f32; c_src := DS ty_float64 (SF64 4715268810125344768);
               c_obs := OBound (TV f32 (SF32 1266679808)) |} in
  let c2 := {| c_target := FScalar f32; c_src := DS ty_int64 (SInt 9223371487098961920);
               c_obs := OBound (TV f32 (SF32 1593835519)) |} in
  let c3 := {| c_target := FScalar i8; c_src := DS ty_float64 (SF64 4638672431819522048);
               c_obs := ODeclined (Some (DS ty_float64 (SF64 4638672431819522048))) |} in
  let c4 := {| c_target := FScalar i64; c_src := DS ty_float64 (SF64 bits_two63);
               c_obs := OBound (TV i64 (SInt (- two63))) |} in
  forallb in_domain [c1; c2; c3; c4] = true /\
  map ok [c1; c2; c3; c4] = [true; true; true; false] /\
  map corr [c1; c2; c3; c4] = [true; true; true; true] /\
  map k6_boundary [c1; c2; c3; c4] = [false; false; false; true].
Proof. vm_compute. repeat split; reflexivity. Qed.
