(* C17 — Recover converts exactly the panics of its callback.
   Statements only; proofs in Proofs/C17Proofs.v. *)
From Errdef Require Import Base.Str Model.Core Model.GoErrors Model.Prog Check.C02 Check.C17 Proofs.C17Proofs.

(* no panic: the callback's own result (same value, or nil), for every callback and factory *)
Theorem C17_no_panic_identity : forall s f c stk r n,
  eval_cb s c (s_next s) = (Normal r, n) -> fst (c_recover s f c stk) = r.
Proof. exact no_panic_identity. Qed.
Print Assumptions C17_no_panic_identity.

(* panic with v: a fresh error of the receiver definition (fields included - it carries
   the definition record), message "panic: " ++ default formatting of v, errors.As finds a
   PanicError whose value is v itself, and errors.Is(result, v) holds when v is an error *)
Theorem C17_panic_converted : forall s f c stk v n,
  eval_cb s c (s_next s) = (Panicking v, n) ->
  fst (c_recover s f c stk) = Some (recovered n (get_def s f) v stk) /\
  exists pe, recovered n (get_def s f) v stk
             = EDef (n + 1) (get_def s f) ("panic: " ++ pv_msg v) (Some pe) false (stack_of (get_def s f) stk) /\
    as_first is_panic_error (recovered n (get_def s f) v stk) = Some pe /\
    match v with
    | PVErr x => pe = EPanic n (fmt_v x) 0 (Some x) /\ errors_is (recovered n (get_def s f) v stk) x = true
    | PVOther id sv => pe = EPanic n sv id None
    end.
Proof. intros. split; [now apply panic_converted|apply recovered_shape]. Qed.
Print Assumptions C17_panic_converted.

(* the panic never escapes: a Recover frame always returns normally *)
Theorem C17_never_escapes : forall s f c stk n, exists r n', eval_cb s (CRecover f c stk) n = (Normal r, n').
Proof. exact recover_returns. Qed.
Print Assumptions C17_never_escapes.

(* only the innermost enclosing Recover observes a panic: an outer Recover sees a
   normal return, whatever call levels lie between *)
Theorem C17_innermost_only :
  (forall s f1 f2 c stk1 stk2 n,
     eval_cb s (CRecover f1 (CRecover f2 c stk2) stk1) n = eval_cb s (CRecover f2 c stk2) n) /\
  (forall s f c stk n r n', eval_cb s c n = (Normal r, n') -> eval_cb s (CRecover f c stk) n = (Normal r, n')) /\
  (forall s c n, eval_cb s (CCall c) n = eval_cb s c n).
Proof. exact (conj innermost_only (conj outer_sees_normal call_transparent)). Qed.
Print Assumptions C17_innermost_only.

(* in every state a program can reach, the modelled Recover statement meets the specification *)
Theorem C17_model_is_spec : forall s f c stk, pool_bound s -> model1 (s, SRecover f c stk) = spec1 (s, SRecover f c stk).
Proof. exact model_is_spec. Qed.
Print Assumptions C17_model_is_spec.

Theorem C17_pool_bound_reachable : forall p, pool_bound (run p).
Proof. intros p. apply pool_bound_run_from. exact pool_bound0. Qed.
Print Assumptions C17_pool_bound_reachable.

Theorem C17_corr_implies_ok : forall c, corr c = true -> ok c = true.
Proof. exact corr_implies_ok. Qed.
Print Assumptions C17_corr_implies_ok.

Example C17_example :
  let p := [SDefine "k" [ONoTrace]; SDefine "k2" [ONoTrace]; SLeaf "l" "*errors.errorString";
            SRecover 0 (CRecover 1 (CCall (CCall (CPanicErr 0))) []) [];
            SRecover 0 (CSwallow 1 (CPanicVal 1 "boom") [] (CRet None)) [];
            SRecover 1 (CCall (CPanicVal 2 "42")) []] in
  prog_ok p = true /\
  map (fun sx => (o_res (model1 sx), o_kind (model1 sx), o_msg (model1 sx))) (recover_trace p)
  = [((-1)%Z, "k2", "panic: l"); ((-2)%Z, "", ""); ((-1)%Z, "k2", "panic: 42")].
Proof. vm_compute. split; reflexivity. Qed.
