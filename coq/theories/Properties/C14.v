(* C14 — Resolver: first registered definition wins, deterministically.
   Statements only; proofs are in Proofs/ResolverProofs.v and Proofs/C14Proofs.v. *)
From Errdef Require Import Base.Str Base.Outcome Model.Value Model.Resolver Model.ResolverGen
  Proofs.ResolverProofs Check.C14 Proofs.C14Proofs.

(* ---- the model is regenerated from the source ------------------------------------------ *)

(* The functions the check evaluates (Model/ResolverGen.v) are interpreters of Gen/ResolverSrc.v, which srcgen
   extracts from resolver/*.go on every run: the predicate of slices.CompactFunc in New, first-or-last-wins in
   byKind, the map lookup of ResolveKind, how ResolveField reaches ResolveFieldFunc (with or without unwrapping a
   FieldValue), the loop of ResolveFieldFunc, and for every DefaultResolver method which method of the wrapped
   resolver it calls and what it returns on a miss.  On the current source they coincide, for every input, with
   the transcription Model/Resolver.v about which the theorems below are stated; an edit of any of these
   functions makes this theorem (or the shape theorem) fail while the interpreters keep following the code
   wherever the new shape is one they know (compaction by kind, last-wins, no unwrapping). *)
Theorem C14_model_is_source :
  (forall defs, wf_defs defs -> g_new_resolver defs = new_resolver defs) /\
  (forall r k, g_resolve_kind r k = resolve_kind r k) /\
  (forall r key eq, g_resolve_field_func r key eq = resolve_field_func (r_defs r) key eq) /\
  (forall r key want, g_resolve_field r key want = resolve_field r key want) /\
  (forall r d k, g_resolve_kind_or_default r d k = resolve_kind_or_default r d k) /\
  (forall r d key want, g_resolve_field_or_default r d key want = resolve_field_or_default r d key want) /\
  (forall r d key eq, g_resolve_field_func_or_default r d key eq
                      = or_default_out d (resolve_field_func (r_defs r) key eq)).
Proof.
  exact (conj g_new_resolver_ref (conj g_resolve_kind_ref (conj g_resolve_field_func_ref (conj g_resolve_field_ref
        (conj g_resolve_kind_or_default_ref (conj g_resolve_field_or_default_ref g_resolve_field_func_or_default_ref)))))).
Qed.
Print Assumptions C14_model_is_source.

(* every function of the package had a shape the translator knows; New works on a clone of its argument;
   WithDefault wires the wrapped resolver and the default; DefaultResolver's ResolveKind / ResolveField /
   ResolveFieldFunc hand their arguments to the same method of the wrapped resolver; Default returns the default *)
Theorem C14_source_shape_recognised : source_shape_ok = true.
Proof. exact source_shape. Qed.
Print Assumptions C14_source_shape_recognised.

(* ResolveKind(k) = the first definition in registration order whose kind is k,
   for every registration list (duplicates, equal kinds, any order). *)
Theorem C14_kind_first : forall defs k, wf_defs defs ->
  resolve_kind (new_resolver defs) k = find (fun d => str_eqb (rd_kind d) k) defs.
Proof. exact resolve_kind_first. Qed.
Print Assumptions C14_kind_first.

Theorem C14_kind_not_found_iff : forall defs k, wf_defs defs ->
  (resolve_kind (new_resolver defs) k = None <-> forall d, In d defs -> rd_kind d <> k).
Proof. exact resolve_kind_none_iff. Qed.
Print Assumptions C14_kind_not_found_iff.

(* ResolveField(key, want) = the first definition in registration order that has
   the key with a value equal to want (raw or wrapped in one FieldValue); never a panic. *)
Theorem C14_field_first : forall defs key want,
  wf_defs defs -> defs_ok defs -> want_ok want = true ->
  resolve_field (new_resolver defs) key want
  = Ok (find (fun d => match rd_get d key with
                       | Some (_, v) => go_eq v (unwrap1 want) | None => false end) defs).
Proof. exact resolve_field_first. Qed.
Print Assumptions C14_field_first.

(* FieldValue.Equal is total and is Go equality / deep equality, for every stored
   value (of static type T, including T = any) and every other Go value. *)
Theorem C14_equal_total_and_correct : forall T stored other,
  stored_ok T stored = true -> not_fv other = true ->
  fv_equal T stored other = Ok (go_eq stored other).
Proof. exact fv_equal_raw. Qed.
Print Assumptions C14_equal_total_and_correct.

(* the OrDefault forms return the default exactly when the strict lookup fails *)
Theorem C14_or_default : forall (dflt : rdef) o r,
  or_default dflt o = r <-> (exists a, o = Some a /\ r = a) \/ (o = None /\ r = dflt).
Proof. exact (@or_default_iff rdef). Qed.
Print Assumptions C14_or_default.

(* Link to the check: on the whole input domain the model computes the
   specification, so an observation that agrees with the model satisfies C14. *)
Theorem C14_model_is_spec : forall c, wf_defs (c_defs c) -> in_domain c = true -> model c = spec c.
Proof. exact model_is_spec. Qed.
Print Assumptions C14_model_is_spec.

Theorem C14_corr_implies_ok : forall c, wf_defs (c_defs c) -> corr c = true -> ok c = true.
Proof. exact corr_implies_ok. Qed.
Print Assumptions C14_corr_implies_ok.

(* non-vacuity: duplicates, equal kinds, an any-typed field, a composite value *)
Example C14_example :
  let a := {| rd_id := 1; rd_kind := "k"; rd_fields := [(7%N, (SAny, RInt ty_int 1))] |} in
  let b := {| rd_id := 2; rd_kind := "k"; rd_fields := [(7%N, (SAny, RStr ty_string "x"));
                                                         (8%N, (STy 100%N, RComp 100%N false "[1 2]"))] |} in
  let c := {| c_defs := [a; a; b; a]; c_default := a; c_lookup := LField 7%N (RFV (RStr ty_string "x"));
              c_obs := RFound 2%N |} in
  in_domain c = true /\ ok c = true /\ corr c = true /\ model c = RFound 2%N.
Proof. vm_compute. repeat split; reflexivity. Qed.
