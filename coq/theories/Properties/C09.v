(* C09 — JSON round trip restores identity, data and structure.
   Statements only; proofs in Proofs/C09Proofs.v.

   What is proved here is partial.  The full statement
     forall e in Dom9, cfg registering it:
       unmarshal cfg (decode (marshal_error e)) = UOk r with equal message, kind, Is answers,
       typed extractor values, frames and cause-tree shape
   is established by the correspondence run (the model's marshal -> decode -> unmarshal
   pipeline is compared with the real round trip on every generated tree, and the
   snapshots of original and restored error are compared by the oracle), together with
   the component theorems of C08 (document = accessor view), C10/C13 (unmarshal), C11
   (value-preserving binding) and C01 (identity).  Proved in this file: the lossless
   part of the JSON step at the root of a document, frames, and the three classes the
   unchanged code does NOT restore, each exhibited as a theorem about the model. *)
From Errdef Require Import Base.Str Base.Outcome Model.Core Model.GoErrors Model.Prog Model.Tree0 Model.Json
  Model.Convert Model.Unmarshal Model.Decode Check.UM Check.C09 Proofs.C09Proofs.

Theorem C09_frames_roundtrip : forall fs, map decode_frame (map frame_json fs) = fs.
Proof. exact frames_roundtrip. Qed.
Print Assumptions C09_frames_roundtrip.

(* marshal then decode keeps message, kind and stack frames of every errdef error,
   whatever its fields and causes *)
Theorem C09_decode_marshal_root_partial : forall t unks e kids doc,
  is_errdef_error e = true -> (match e_def e with Some d => d_json d | None => None end) = None ->
  marshal_tree (T e kids) = Ok doc ->
  let d := fst (decode t doc unks) in
  dd_msg d = err_msg e /\ dd_kind d = e_kind e /\ dd_ty d = "" /\ dd_stack d = e_stack e.
Proof. exact decode_marshal_root. Qed.
Print Assumptions C09_decode_marshal_root_partial.

Theorem C09_sentinel_restored : 
  let cfg := {| u_defs := [d_reg]; u_default := None; u_strict := false; u_custom := []; u_sentinels := [("*errors.errorString", "EOF", 0%N)] |} in
  unmarshal cfg (DD "m" "k1" "" [] [] [Some (DD "EOF" "" "*errors.errorString" [] [] [] "")] "")
  = UOk (RErr d_reg "m" [] [] [] [RCSentinel 0]).
Proof. exact sentinel_restored_without_default. Qed.
Print Assumptions C09_sentinel_restored.

(* known findings K3, K4, K2 as facts about the faithful model *)
Theorem C09_default_resolver_cause_refuted :
  let cfg := {| u_defs := [d_reg]; u_default := Some d_dflt; u_strict := false; u_custom := []; u_sentinels := [("*errors.errorString", "EOF", 0%N)] |} in
  let doc := DD "m" "k1" "" [] [] [Some (DD "EOF" "" "*errors.errorString" [] [] [] "")] "" in
  exists e, unmarshal cfg doc = UOk (RErr d_reg "m" [] [] [] [RCErr e]) /\ e = RErr d_dflt "EOF" [] [] [] [].
Proof. exact default_resolver_cause_refuted. Qed.
Print Assumptions C09_default_resolver_cause_refuted.

Theorem C09_empty_message_cause_refuted :
  let cfg := {| u_defs := [d_reg]; u_default := None; u_strict := false; u_custom := []; u_sentinels := [] |} in
  unmarshal cfg (DD "m" "k1" "" [] [] [Some (DD "" "" "*main.leafErr" [] [] [] "<unknown: &{...}>")] "")
  = UOk (RErr d_reg "m" [] [] [] [RCUnknown "<unknown: &{...}>" "*main.leafErr" []]).
Proof. exact empty_message_cause_refuted. Qed.
Print Assumptions C09_empty_message_cause_refuted.

Theorem C09_textmarshaler_field_refuted :
  let lvl := {| uk_key := {| k_id := 501; k_name := "log_level"; k_ty := 130 |}; uk_ty := FScalar {| s_id := 130; s_kind := KInt |} |} in
  let cfg := {| u_defs := [d_reg]; u_default := None; u_strict := false; u_custom := [lvl]; u_sentinels := [] |} in
  let warn := DS {| s_id := 1; s_kind := KString |} (SStr "WARN") in
  unmarshal cfg (DD "m" "k1" "" [("log_level", warn)] [] [] "") = UOk (RErr d_reg "m" [] [("log_level", warn)] [] []).
Proof. exact textmarshaler_field_refuted. Qed.
Print Assumptions C09_textmarshaler_field_refuted.
