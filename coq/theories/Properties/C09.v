(* C09 — JSON round trip restores identity, data and structure.
   Statements only; proofs in Proofs/C09Proofs.v.

   Proved for ALL error trees of the stated domain: the round trip restores the STRUCTURE
   (C09_roundtrip_structure: message, kind, frames, and the whole cause tree with messages,
   kinds, type names and frames).  The remaining parts of the statement - equal typed
   extractor values (fields) and equal errors.Is answers - are established by the
   correspondence run (the model's marshal -> decode -> unmarshal
   pipeline is compared with the real round trip on every generated tree, and the
   snapshots of original and restored error are compared by the oracle), together with
   the component theorems of C08 (document = accessor view), C10/C13 (unmarshal), C11
   (value-preserving binding) and C01 (identity).  Proved in this file: the lossless
   part of the JSON step at the root of a document, frames, and the three classes the
   unchanged code does NOT restore, each exhibited as a theorem about the model. *)
From Errdef Require Import Base.Str Base.Outcome Model.Core Model.GoErrors Model.Prog Model.Tree0 Model.Json
  Model.Convert Model.Unmarshal Model.Decode Model.JsonVal Check.UM Check.C09 Proofs.C09Proofs Proofs.C09Structure
  Proofs.ValueRoundtrip Proofs.C01Proofs Proofs.C09Identity.
From Coq Require Import ZArith Reals.
From Flocq Require Import Core IEEE754.BinarySingleNaN.

(* STRUCTURE: for every errdef error whose cause tree lies in the domain - any shape and
   depth, native / restored / foreign nodes; errdef nodes field-less, without custom
   marshaler, with registered kinds; every message non-empty; foreign nodes with a type
   name, not definitions used as causes; kind "" unresolvable and no sentinel registered -
   Marshal succeeds, Unmarshal of the decoded document succeeds, and the restored error
   has the same message, kind and frames and a cause tree of the same shape with equal
   messages, kinds, type names and frames at every node.  (Field values: C11 and the
   correspondence; identity: C01 on the resolved definitions.) *)
Theorem C09_roundtrip_structure : forall c tbl unks e,
  foreign_fails c -> is_errdef_error e = true -> mdom (tree_of e) -> udom c (tree_of e) ->
  exists doc r, marshal_error e = Ok doc /\
                unmarshal c (fst (decode tbl doc unks)) = UOk r /\
                rshape r = tshape (tree_of e).
Proof. exact roundtrip_structure. Qed.
Print Assumptions C09_roundtrip_structure.

(* VALUES: every scalar field value of the domain comes back through its typed key.  For every
   scalar Go type t (bool, string, the ten integer kinds, float32, float64, and named types over
   them) and every value v of that type inside the domain - integers that a float64 holds exactly
   (|z| <= 2^53), finite floats, every float32 except +-MaxFloat32 - the JSON step (encoding/json
   writes the value, jsonToDecodedData decodes it into `any`: model redecode) yields a decoded value
   that tryConvertFieldValue binds to t with the SAME value (same integer, same IEEE bit pattern,
   same string / bool).  The one stdlib behaviour assumed is the strconv contract on float32,
   stated as the premise on [reparse32] (validated by the harness on every float32 it meets); the
   float64 arithmetic is Flocq's. *)
Theorem C09_scalar_values_roundtrip : forall reparse32 : Z -> Z,
  (forall b, is_finite (f32_of_bits b) = true ->
     is_finite (f64_of_bits (reparse32 b)) = true /\ f64_to_f32 (f64_of_bits (reparse32 b)) = f32_of_bits b) ->
  forall t v, sty_wf t = true -> val_of_type t v = true -> rt_dom v ->
  exists d b, redecode reparse32 v = Some d /\ try_convert (FScalar t) d = Ok (Some b) /\ bval_scalar b = Some v.
Proof. exact scalar_value_roundtrip. Qed.
Print Assumptions C09_scalar_values_roundtrip.

Example C09_scalar_values_example :
  sty_wf {| s_id := 100; s_kind := KInt |} = true /\
  val_of_type {| s_id := 100; s_kind := KInt |} (SInt (-42)) = true /\ rt_dom (SInt (-42)) /\
  redecode (fun b => b) (SInt (-42)) = Some (DS ty_float64 (SF64 13854479828675198976)) /\
  try_convert (FScalar {| s_id := 100; s_kind := KInt |}) (DS ty_float64 (SF64 13854479828675198976))
    = Ok (Some (BScalar {| s_id := 100; s_kind := KInt |} (SInt (-42)))).
Proof. repeat split; try (vm_compute; reflexivity). cbn. unfold two53. lia. Qed.

(* K9 (known finding, found while proving the theorem above): the guard "except +-MaxFloat32" is
   NECESSARY on the unchanged code.  A float32 field holding math.MaxFloat32 is written as
   3.4028235e+38; that text decodes to a float64 ABOVE math.MaxFloat32 - it still rounds to
   MaxFloat32, so the strconv contract holds - and tryConvertFloat64 (`math.Abs(f64) > MaxFloat32`)
   declines it: the typed extractor finds nothing after the round trip, and in strict mode
   Unmarshal(Marshal(err)) fails with ErrUnknownField.  (C11 demands exactly this rejection -
   "to float32 only within float32's range" - so the code cannot be repaired without breaking C11.) *)
Theorem C09_max_float32_refuted :
  f64_to_f32 (f64_of_bits reparsed_max32_bits64) = f32_of_bits max_float32_bits /\
  is_finite (f64_of_bits reparsed_max32_bits64) = true /\
  conv_f64 KFloat32 reparsed_max32_bits64 = None /\
  try_convert (FScalar {| s_id := 12; s_kind := KFloat32 |}) (DS ty_float64 (SF64 reparsed_max32_bits64)) = Ok None.
Proof. exact max_float32_not_rebound. Qed.
Print Assumptions C09_max_float32_refuted.

(* IDENTITY: for every errdef error of the structure theorem's domain whose registration agrees
   with the sender (the resolver's answer for the kind of each errdef node belongs to the Define
   that node was created from: [registered]), the restored error carries at every node of its
   cause tree, in pre-order, the ORIGIN of the corresponding node of the original
   (rorgs r = torgs (tree_of e)); every definition a restored tree carries is what the resolver
   returned for a kind (C09_restored_defs_from_resolver, for EVERY configuration and document); and
   errors.Is on the restored value is "some node carries the target's origin" (C09_restored_is, via
   C01's theorem).  Hence the same errors.Is answer for every registered definition. *)
Theorem C09_roundtrip_identity : forall c tbl unks e,
  foreign_fails c -> is_errdef_error e = true -> mdom (tree_of e) -> udom c (tree_of e) -> registered c (tree_of e) ->
  exists doc r, marshal_error e = Ok doc /\ unmarshal c (fst (decode tbl doc unks)) = UOk r /\
                rshape r = tshape (tree_of e) /\ rorgs r = torgs (tree_of e).
Proof. exact roundtrip_identity. Qed.
Print Assumptions C09_roundtrip_identity.

Example C09_identity_example :
  let p := [SDefine "k1" [ONoTrace]; SDefine "k2" []; SLeaf "leaf" "*errors.errorString";
            SWrap 0 (Some 0) []; SFmtErrorf "w" 1;
            SJoin 1 [Some 2; None; Some 0] [{| fr_func := "f"; fr_file := "x.go"; fr_line := 3 |}]] in
  let d i k := {| ud_def := define (1000 + i) (N.to_nat i) k [ONoTrace]; ud_keys := [] |} in
  let c := {| u_defs := [d 0%N "k1"; d 1%N "k2"]; u_default := None; u_strict := false; u_custom := []; u_sentinels := [] |} in
  match nth 3 (s_errs (run p)) None with
  | Some e => registered c (tree_of e) /\ torgs (tree_of e) = [1; 0]%nat
  | None => False
  end.
Proof.
  vm_compute. repeat split; try (intros ud dd H1 H2; inversion H1; inversion H2; reflexivity); try (intros ud dd H1 H2; discriminate).
Qed.

Theorem C09_restored_defs_from_resolver : forall c d,
  (forall r, fst (both c d) = UOk r -> rdefs_ok c r) /\ (forall x, snd (both c d) = UOk x -> cdefs_ok c x).
Proof. exact unmarshal_defs_from_resolver. Qed.
Print Assumptions C09_restored_defs_from_resolver.

Theorem C09_restored_is : forall ds r D, consistent ds -> In D ds -> defs_within ds (err_of_rerr r) ->
  errors_is (err_of_rerr r) (EDefn D) = existsb (fun x => Nat.eqb x (d_org D)) (rorgs r).
Proof. exact restored_is. Qed.
Print Assumptions C09_restored_is.

(* its two halves: the JSON step is lossless on the shape; Unmarshal restores the shape *)
Theorem C09_marshal_decode_shape : forall t, mdom t ->
  exists doc, marshal_tree t = Ok doc /\ decodes_to doc (tshape t).
Proof. exact marshal_decode_shape. Qed.
Print Assumptions C09_marshal_decode_shape.

Theorem C09_unmarshal_shape : forall c, foreign_fails c ->
  forall t, mdom t -> udom c t -> forall d, ddshape d = tshape t ->
  (exists rc, snd (both c d) = UOk rc /\ cshape rc = tshape t) /\
  (is_errdef_error (t_err t) = true -> exists r, fst (both c d) = UOk r /\ rshape r = tshape t).
Proof. exact unmarshal_shape. Qed.
Print Assumptions C09_unmarshal_shape.

Example C09_structure_example :
  let p := [SDefine "k1" [ONoTrace]; SDefine "k2" []; SLeaf "leaf" "*errors.errorString";
            SWrap 0 (Some 0) []; SFmtErrorf "w" 1;
            SJoin 1 [Some 2; None; Some 0] [{| fr_func := "f"; fr_file := "x.go"; fr_line := 3 |}]] in
  let d i k := {| ud_def := define (1000 + i) 0 k [ONoTrace]; ud_keys := [] |} in
  let c := {| u_defs := [d 0%N "k1"; d 1%N "k2"]; u_default := None; u_strict := false; u_custom := []; u_sentinels := [] |} in
  match nth 3 (s_errs (run p)) None with
  | Some e => foreign_fails c /\ is_errdef_error e = true /\ mdom (tree_of e) /\ udom c (tree_of e) /\
              tshape (tree_of e) =
              NS (cat ["w: leaf"; ch 10; "leaf"]) "k2" "" [{| fr_func := "f"; fr_file := "x.go"; fr_line := 3 |}] 0
                 [NS "w: leaf" "" "*fmt.wrapError" [] 0 [NS "leaf" "k1" "" [] 0 [NS "leaf" "" "*errors.errorString" [] 0 []]];
                  NS "leaf" "" "*errors.errorString" [] 0 []]
  | None => False
  end.
Proof. vm_compute. repeat split; try discriminate; reflexivity. Qed.

Theorem C09_frames_roundtrip : forall fs, map decode_frame (map frame_json fs) = fs.
Proof. exact frames_roundtrip. Qed.
Print Assumptions C09_frames_roundtrip.

(* marshal then decode keeps message, kind and stack frames of every errdef error,
   whatever its fields and causes *)
Theorem C09_decode_marshal_root_partial : forall t unks e kids doc,
  is_errdef_error e = true -> (match e_def e with Some d => d_json d | None => None end) = None ->
  marshal_tree (T e kids) = Ok doc ->
  let d := fst (decode t doc unks) in
  dd_msg d = err_msg e /\ dd_kind d = e_kind e /\ dd_ty d = "" /\ dd_stack d = e_stack e.
Proof. exact decode_marshal_root. Qed.
Print Assumptions C09_decode_marshal_root_partial.

Theorem C09_sentinel_restored : 
  let cfg := {| u_defs := [d_reg]; u_default := None; u_strict := false; u_custom := []; u_sentinels := [("*errors.errorString", "EOF", 0%N)] |} in
  unmarshal cfg (DD "m" "k1" "" [] [] [Some (DD "EOF" "" "*errors.errorString" [] [] [] "")] "")
  = UOk (RErr d_reg "m" [] [] [] [RCSentinel 0]).
Proof. exact sentinel_restored_without_default. Qed.
Print Assumptions C09_sentinel_restored.

(* known findings K3, K4, K2 as facts about the faithful model *)
Theorem C09_default_resolver_cause_refuted :
  let cfg := {| u_defs := [d_reg]; u_default := Some d_dflt; u_strict := false; u_custom := []; u_sentinels := [("*errors.errorString", "EOF", 0%N)] |} in
  let doc := DD "m" "k1" "" [] [] [Some (DD "EOF" "" "*errors.errorString" [] [] [] "")] "" in
  exists e, unmarshal cfg doc = UOk (RErr d_reg "m" [] [] [] [RCErr e]) /\ e = RErr d_dflt "EOF" [] [] [] [].
Proof. exact default_resolver_cause_refuted. Qed.
Print Assumptions C09_default_resolver_cause_refuted.

Theorem C09_empty_message_cause_refuted :
  let cfg := {| u_defs := [d_reg]; u_default := None; u_strict := false; u_custom := []; u_sentinels := [] |} in
  unmarshal cfg (DD "m" "k1" "" [] [] [Some (DD "" "" "*main.leafErr" [] [] [] "<unknown: &{...}>")] "")
  = UOk (RErr d_reg "m" [] [] [] [RCUnknown "<unknown: &{...}>" "*main.leafErr" []]).
Proof. exact empty_message_cause_refuted. Qed.
Print Assumptions C09_empty_message_cause_refuted.

Theorem C09_textmarshaler_field_refuted :
  let lvl := {| uk_key := {| k_id := 501; k_name := "log_level"; k_ty := 130 |}; uk_ty := FScalar {| s_id := 130; s_kind := KInt |} |} in
  let cfg := {| u_defs := [d_reg]; u_default := None; u_strict := false; u_custom := [lvl]; u_sentinels := [] |} in
  let warn := DS {| s_id := 1; s_kind := KString |} (SStr "WARN") in
  unmarshal cfg (DD "m" "k1" "" [("log_level", warn)] [] [] "") = UOk (RErr d_reg "m" [] [("log_level", warn)] [] []).
Proof. exact textmarshaler_field_refuted. Qed.
Print Assumptions C09_textmarshaler_field_refuted.
