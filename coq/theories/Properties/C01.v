(* C01 — errors.Is matches by definition identity, never by kind string.
   Statements only; proofs in Proofs/C01Proofs.v. *)
From Errdef Require Import Base.Str Model.Core Model.GoErrors Model.Prog Check.C01 Proofs.C01Proofs.

(* Every program over Define / ContextWithOptions / With / WithOptions / the six
   constructors / foreign wrappers reaches only states in which a factory's root
   pointer identifies the Define statement it descends from (the ghost d_org),
   and every definition inside every error is one of the program's factories. *)
Theorem C01_root_is_origin : forall p, prog_ok p = true -> Inv (run p).
Proof. exact inv_run. Qed.
Print Assumptions C01_root_is_origin.

(* errors.Is(e, D) holds exactly when some node of e's cause tree (the nodes
   errors.Is visits) was created from D's family or is a member of it; the right
   hand side mentions origins only - no kind string, option, context or constructor. *)
Theorem C01_is_iff_origin : forall ds e D, consistent ds -> In D ds -> defs_within ds e ->
  errors_is e (EDefn D) = existsb (has_org (d_org D)) (reach e).
Proof. exact is_iff_origin. Qed.
Print Assumptions C01_is_iff_origin.

Theorem C01_separate_defines_disjoint : forall ds e D, consistent ds -> In D ds -> defs_within ds e ->
  (forall n d, In n (reach e) -> node_def n = Some d -> d_org d <> d_org D) ->
  errors_is e (EDefn D) = false.
Proof. exact separate_defines_disjoint. Qed.
Print Assumptions C01_separate_defines_disjoint.

(* errors.Is(D, e): D itself, or the first errdef error / first definition that
   errors.As finds in e belongs to D's family. *)
Theorem C01_def_is_direct : forall ds D e, consistent ds -> In D ds -> defs_within ds e ->
  errors_is (EDefn D) e = spec_rev D e.
Proof. exact rev_is_direct. Qed.
Print Assumptions C01_def_is_direct.

(* For every well-formed program the model's Is-matrices are the origin matrices,
   so an observation that agrees with the model satisfies C01. *)
Theorem C01_model_is_spec : forall p, prog_ok p = true ->
  model_is (run p) = spec_is_mat (run p) /\ model_rev (run p) = spec_rev_mat (run p).
Proof. exact model_is_spec. Qed.
Print Assumptions C01_model_is_spec.

Theorem C01_corr_implies_ok : forall c, prog_ok (c_prog c) = true -> corr c = true -> ok c = true.
Proof. exact corr_implies_ok. Qed.
Print Assumptions C01_corr_implies_ok.

(* non-vacuity: same-kind sibling definitions, a derived factory with context
   options, a Join of a foreign %w wrapper over a derived-factory error *)
Example C01_example :
  let k := {| k_id := 1; k_name := "a"; k_ty := 1 |} in
  let v := {| fv_repr := "x"; fv_plus := "x"; fv_json := "x" |} in
  let p := [SDefine "k" []; SDefine "k" [];
            SCtx None [OField k v]; SWith 0 (Some 0) [ONoTrace];
            SNew 2 "m" []; SFmtErrorf "w" 0; SLeaf "l" "*errors.errorString";
            SJoin 1 [Some 1; None; Some 2] []; SDefAsErr 2] in
  prog_ok p = true /\
  model_is (run p) = [[true; false; true]; [true; false; true]; [false; false; false];
                      [true; true; true]; [true; false; true]].
Proof. vm_compute. split; reflexivity. Qed.
