(* C04 — definitions, contexts and errors are immutable; caller data is never written.
   Statements only; proofs in Proofs/C04Proofs.v.

   The model of Model/Core.v / Model/Prog.v is purely functional; what is proved is that the
   modelled API only ever appends to the pools (so every object created earlier is the
   same value afterwards, for every history) and that a derived factory is a fresh object.
   That the real code has no other write - into shared definitions/fields/errors or into
   caller-owned slices - is tied to /repo by (a) the observation run: after EVERY statement
   of a generated history the harness re-takes the full snapshot of EVERY earlier
   definition, factory, context and error (kind, fields in order, frames, causes, JSON,
   %+v), compares the caller's option / argument / cause slices over their whole capacity
   with copies taken before the call, then overwrites those slices and compares all
   snapshots again; the same for a Details map and for the slice given to resolver.New;
   and (b) the audit of every non-local write site extracted from the source
   (Gen/Effects.v, obligation C04_writes_audited below; the lock-related tables are C16's). *)
From Errdef Require Import Base.Str Model.Core Model.GoErrors Model.Prog Check.C04 Gen.Effects Spec.EffectsAudit Proofs.C01Proofs Proofs.C04Proofs.
From Errdef Require Model.SliceFlow Proofs.SliceFlowProofs Proofs.C04Slices Gen.SliceOps.

(* no statement changes anything that existed before it *)
Theorem C04_step_extends : forall s x, extends s (step s x).
Proof. exact step_extends. Qed.
Print Assumptions C04_step_extends.

(* for every history p and every continuation q: the pools after p are prefixes of the
   pools after p ++ q *)
Theorem C04_frame : forall p q, extends (run p) (run (p ++ q)).
Proof. exact frame. Qed.
Print Assumptions C04_frame.

Theorem C04_objects_unchanged : forall p q,
  (forall i d, nth_error (s_defs (run p)) i = Some d -> nth_error (s_defs (run (p ++ q))) i = Some d) /\
  (forall i c, nth_error (s_ctxs (run p)) i = Some c -> nth_error (s_ctxs (run (p ++ q))) i = Some c) /\
  (forall i e, nth_error (s_errs (run p)) i = Some e -> nth_error (s_errs (run (p ++ q))) i = Some e).
Proof. exact objects_unchanged. Qed.
Print Assumptions C04_objects_unchanged.

(* With/WithOptions return the receiver itself (nothing to apply) or a fresh object *)
Theorem C04_derive_leaves_base : forall a d ctx os,
  with_ a d ctx os = d \/ d_addr (with_ a d ctx os) = a.
Proof. exact derive_leaves_base. Qed.
Print Assumptions C04_derive_leaves_base.

(* Source-derived obligation: the non-local writes, mutator calls and allocating functions
   that srcgen reads from /repo on this run are exactly the audited ones
   (Spec/EffectsAudit.v says why each is harmless: option methods write the definition their
   caller has just allocated, fields.set is only reached through them, buildNode's visited map
   is per call, unmarshaler options write the unmarshaler under construction, package
   variables are C16's).  An in-place compaction of a caller's slice, an append into a
   parent context's option slice or a memoising getter changes Gen/Effects.v and breaks this. *)
Theorem C04_writes_audited :
  effects_matched = true /\ write_sites = audited_write_sites /\
  mutator_calls = audited_mutator_calls /\ fresh_sources = audited_fresh_sources.
Proof. exact writes_audited. Qed.
Print Assumptions C04_writes_audited.

(* ---- caller-owned slices: a memory model with aliasing, and an analysis of the SOURCE --------

   Model/SliceFlow.v is a memory model for Go slices: backing arrays with identity, views with
   offset / length / capacity, append that writes IN PLACE whenever the capacity suffices and
   allocates otherwise, copy / element assignment / slices.CompactFunc & co. as writes within the
   capacity window, reslicing.  A function is described by the set of its SliceFlow.slice operations
   (SliceFlow.PAssign, SliceFlow.PAppend, SliceFlow.PWrite, SliceFlow.PStore over parameters, retained slices, local variables, nil and
   fresh allocations).  The ownership analysis [SliceFlow.accepts] is flow-insensitive; it is PROVED SOUND:
   whatever SliceFlow.heap the call starts from, whatever slices are handed in (any spare capacity, any
   aliasing among themselves or with the library's retained slices), in whatever order and however
   often the operations SliceFlow.run (branches, loops), an accepted function writes to no array that existed
   before the call and stores only slices of arrays the call itself allocated (or empty ones). *)
Theorem C04_slice_analysis_sound : forall ops, SliceFlow.accepts ops = true ->
  forall (h0 : SliceFlow.heap) (params retained : string -> SliceFlow.slice) (sched : list SliceFlow.choice),
  let st := SliceFlow.run params retained ops sched (SliceFlow.init_state h0) in
  firstn (List.length h0) (SliceFlow.st_h st) = h0 /\
  forall s, In s (SliceFlow.st_stored st) -> SliceFlowProofs.fresh_or_empty (List.length h0) s.
Proof. exact C04Slices.slice_analysis_sound. Qed.
Print Assumptions C04_slice_analysis_sound.

(* Gen/SliceOps.v holds the SliceFlow.slice operations of EVERY exported function and method of the three
   packages (callees of the same package inlined), translated from /repo by srcgen on every SliceFlow.run.
   All of them are accepted - hence, by the theorem above: no API call writes into an option SliceFlow.slice,
   a format-argument SliceFlow.slice, a cause SliceFlow.slice, a definition list or a key list handed in by the caller,
   nor into a SliceFlow.slice another object retains (a parent context's options, a resolver's definitions,
   an unmarshaler's keys), and nothing it keeps aliases them, so later mutation by the caller cannot
   reach it.  An `append(parentOpts, opts...)`, a `slices.DeleteFunc(causes, ..)`, a dropped
   `slices.Clone`, a `u.keys = keys` makes this theorem fail and names the function. *)
Theorem C04_caller_slices_never_written :
  Gen.SliceOps.sliceflow_matched = true /\ C04Slices.rejected_functions = [] /\
  forall name ops, In (name, ops) Gen.SliceOps.functions ->
  forall (h0 : SliceFlow.heap) (params retained : string -> SliceFlow.slice) (sched : list SliceFlow.choice),
  let st := SliceFlow.run params retained ops sched (SliceFlow.init_state h0) in
  firstn (List.length h0) (SliceFlow.st_h st) = h0 /\
  forall s, In s (SliceFlow.st_stored st) -> SliceFlowProofs.fresh_or_empty (List.length h0) s.
Proof. exact C04Slices.caller_slices_never_written. Qed.
Print Assumptions C04_caller_slices_never_written.

(* the three assumptions the translation makes, as read from the source on this SliceFlow.run:
   - the stdlib callees that received a SliceFlow.slice are callees that only read it;
   - the object an unmarshaler Option closure receives is the unmarshaler New is constructing
     (tied to the source: New hands a freshly allocated unmarshaler to the dynamic Option calls -
     the row of Gen/Effects.mutator_calls);
   - what a Decoder returns (DecodedData) belongs to the library: the restored error keeps
     decoded.Stack (observation, outside the statement's list of caller slices: a custom decoder
     that later mutates the DecodedData it returned changes the restored error's frames). *)
Theorem C04_slice_assumptions_audited :
  forallb (fun c => existsb (String.eqb c)
       ["bytes.Equal"; "errors.Join"; "fmt.Sprintf"; "fmt.Fprintf"; "fmt.Errorf"; "json.Marshal"; "json.Unmarshal"; "len"; "cap";
        "runtime.Callers"; "runtime.CallersFrames"; "slog.Any"; "slog.AnyValue"; "slog.GroupValue"; "strings.Join"; "slices.Contains"]) Gen.SliceOps.readonly_callees = true /\
  Gen.SliceOps.assumed_fresh_objects =
    ["unmarshaler.WithCustomFields: u"; "unmarshaler.WithSentinelErrors: u"; "unmarshaler.WithStrictMode: u"] /\
  In ("unmarshaler", "New", "dynamic Option", "fresh u.unmarshaler") mutator_calls /\
  Gen.SliceOps.transferred_slices =
    ["unmarshaler.(*Unmarshaler).Unmarshal: decoded.Stack (stored in unmarshaledError.stack)"].
Proof. exact C04Slices.slice_assumptions_audited. Qed.
Print Assumptions C04_slice_assumptions_audited.

(* non-vacuity: the analysis rejects the two historical defects (F1: Wrapf appended to the caller's
   argument SliceFlow.slice; F2: resolver.New compacted the caller's SliceFlow.slice in place and kept it), and in the
   memory model the rejected operation really does write into the caller's array *)
Example C04_slice_example :
  SliceFlow.accepts [SliceFlow.PAppend "args2" (SliceFlow.XParam "args")] = false /\
  SliceFlow.accepts [SliceFlow.PWrite (SliceFlow.XParam "defs"); SliceFlow.PStore "StrictResolver.defs" (SliceFlow.XParam "defs")] = false /\
  SliceFlow.accepts [SliceFlow.PAssign "d#1" SliceFlow.XFresh; SliceFlow.PWrite (SliceFlow.XVar "d#1"); SliceFlow.PStore "StrictResolver.defs" (SliceFlow.XVar "d#1")] = true /\
  (let h0 := [[1; 2; 0; 0]] in
   let caller := {| SliceFlow.sl_arr := 0; SliceFlow.sl_off := 0; SliceFlow.sl_len := 2; SliceFlow.sl_cap := 4 |} in
   let st := SliceFlow.run (fun _ => caller) (fun _ => SliceFlow.nil_slice) [SliceFlow.PAppend "args2" (SliceFlow.XParam "args")]
                 [{| SliceFlow.c_op := 0; SliceFlow.c_xs := [9]; SliceFlow.c_extra := 0; SliceFlow.c_a := 0; SliceFlow.c_b := 0; SliceFlow.c_c := 0; SliceFlow.c_rel := 0 |}] (SliceFlow.init_state h0) in
   SliceFlow.st_h st = [[1; 2; 9; 0]]).
Proof. exact C04Slices.slice_example. Qed.

Example C04_example :
  let k := {| k_id := 1; k_name := "a"; k_ty := 1 |} in
  let v s := {| fv_repr := s; fv_plus := s; fv_json := s |} in
  let p := [SDefine "k" [OField k (v "1")]; SNew 0 "m" []] in
  let q := [SWithOptions 0 [OField k (v "2")]; SCtx None [OField k (v "3")]; SWith 0 (Some 0) []; SWrap 2 (Some 0) []] in
  nth_error (s_defs (run (p ++ q))) 0 = nth_error (s_defs (run p)) 0 /\
  nth_error (s_errs (run (p ++ q))) 0 = nth_error (s_errs (run p)) 0 /\
  List.length (s_defs (run (p ++ q))) = 3.
Proof. vm_compute. repeat split; reflexivity. Qed.
