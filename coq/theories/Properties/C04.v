(* C04 — definitions, contexts and errors are immutable; caller data is never written.
   Statements only; proofs in Proofs/C04Proofs.v.

   The model of Model/Core.v / Model/Prog.v is purely functional; what is proved is that the
   modelled API only ever appends to the pools (so every object created earlier is the
   same value afterwards, for every history) and that a derived factory is a fresh object.
   That the real code has no other write - into shared definitions/fields/errors or into
   caller-owned slices - is tied to /repo by (a) the observation run: after EVERY statement
   of a generated history the harness re-takes the full snapshot of EVERY earlier
   definition, factory, context and error (kind, fields in order, frames, causes, JSON,
   %+v), compares the caller's option / argument / cause slices over their whole capacity
   with copies taken before the call, then overwrites those slices and compares all
   snapshots again; the same for a Details map and for the slice given to resolver.New;
   and (b) the audit of every non-local write site extracted from the source
   (Gen/Effects.v, obligation C04_writes_audited below; the lock-related tables are C16's). *)
From Errdef Require Import Base.Str Model.Core Model.GoErrors Model.Prog Check.C04 Gen.Effects Spec.EffectsAudit Proofs.C01Proofs Proofs.C04Proofs.

(* no statement changes anything that existed before it *)
Theorem C04_step_extends : forall s x, extends s (step s x).
Proof. exact step_extends. Qed.
Print Assumptions C04_step_extends.

(* for every history p and every continuation q: the pools after p are prefixes of the
   pools after p ++ q *)
Theorem C04_frame : forall p q, extends (run p) (run (p ++ q)).
Proof. exact frame. Qed.
Print Assumptions C04_frame.

Theorem C04_objects_unchanged : forall p q,
  (forall i d, nth_error (s_defs (run p)) i = Some d -> nth_error (s_defs (run (p ++ q))) i = Some d) /\
  (forall i c, nth_error (s_ctxs (run p)) i = Some c -> nth_error (s_ctxs (run (p ++ q))) i = Some c) /\
  (forall i e, nth_error (s_errs (run p)) i = Some e -> nth_error (s_errs (run (p ++ q))) i = Some e).
Proof. exact objects_unchanged. Qed.
Print Assumptions C04_objects_unchanged.

(* With/WithOptions return the receiver itself (nothing to apply) or a fresh object *)
Theorem C04_derive_leaves_base : forall a d ctx os,
  with_ a d ctx os = d \/ d_addr (with_ a d ctx os) = a.
Proof. exact derive_leaves_base. Qed.
Print Assumptions C04_derive_leaves_base.

(* Source-derived obligation: the non-local writes, mutator calls and allocating functions
   that srcgen reads from /repo on this run are exactly the audited ones
   (Spec/EffectsAudit.v says why each is harmless: option methods write the definition their
   caller has just allocated, fields.set is only reached through them, buildNode's visited map
   is per call, unmarshaler options write the unmarshaler under construction, package
   variables are C16's).  An in-place compaction of a caller's slice, an append into a
   parent context's option slice or a memoising getter changes Gen/Effects.v and breaks this. *)
Theorem C04_writes_audited :
  effects_matched = true /\ write_sites = audited_write_sites /\
  mutator_calls = audited_mutator_calls /\ fresh_sources = audited_fresh_sources.
Proof. exact writes_audited. Qed.
Print Assumptions C04_writes_audited.

Example C04_example :
  let k := {| k_id := 1; k_name := "a"; k_ty := 1 |} in
  let v s := {| fv_repr := s; fv_plus := s; fv_json := s |} in
  let p := [SDefine "k" [OField k (v "1")]; SNew 0 "m" []] in
  let q := [SWithOptions 0 [OField k (v "2")]; SCtx None [OField k (v "3")]; SWith 0 (Some 0) []; SWrap 2 (Some 0) []] in
  nth_error (s_defs (run (p ++ q))) 0 = nth_error (s_defs (run p)) 0 /\
  nth_error (s_errs (run (p ++ q))) 0 = nth_error (s_errs (run p)) 0 /\
  List.length (s_defs (run (p ++ q))) = 3.
Proof. vm_compute. repeat split; reflexivity. Qed.
