(* C10 — Unmarshal is total: a result or a classified error, never a panic.
   Statements only; proofs in Proofs/C10Proofs.v. *)
From Errdef Require Import Base.Str Base.Outcome Model.Core Model.Convert Model.Unmarshal Check.UM Check.C10 Proofs.C10Proofs
  Model.UnmarshalGen Proofs.UnmarshalGenProofs.

(* ---- the transcription still describes the source ------------------------------------- *)
(* Model/Unmarshal.v transcribes Unmarshaler.Unmarshal / unmarshal / unmarshalCause statement group by statement
   group.  On every run srcgen alpha-renames the three bodies (receiver r, parameters and locals v0, v1, ...) and
   checks that every group the model was written from is there - nil input, kind resolved first, fields visited in
   name order, the redaction placeholder kept as an unknown placeholder and nothing else, definition keys then
   custom keys of the field's name with "a conversion error aborts, the first accepting key binds", strict mode's
   ErrUnknownField, lenient mode keeping the decoded value, causes in order; for a cause: errdef first, only
   ErrInternal propagates, the two placeholder fallbacks, nested causes in order, a registered definition named by
   the message then a registered sentinel when there are no nested causes, else an UnknownCauseError - in this
   order and with nothing else between them (Gen/UnmarshalSrc.v lists them one by one); likewise the five steps
   of tryConvertFieldValue and the JSON route of tryConvertViaJSON (which target kinds go through JSON). *)
Theorem C10_unmarshal_source_shape_recognised : unmarshal_source_ok = true.
Proof. exact unmarshal_source_shape. Qed.
Print Assumptions C10_unmarshal_source_shape_recognised.

(* binding a decoded value to a typed key never panics, for every field type and
   every Go value a decoder may hand over (as of the fix commit for F5) *)
Theorem C10_binding_never_panics : forall T v, is_panic (try_convert T v) = false.
Proof. exact try_convert_no_panic. Qed.
Print Assumptions C10_binding_never_panics.

(* For every configuration (resolver contents and order, default, strict, custom keys,
   sentinels) and every decoded tree of any depth - nil top level and nil entries in
   Causes included - Unmarshal returns a value or a non-empty set of failures, each
   classified as unknown_kind, unknown_field or internal; never a panic.  No fuel:
   the recursion is structural on the decoded tree. *)
Theorem C10_total : forall c od,
  match unmarshal_top c od with
  | UPanic _ => False
  | UFail fs => fs <> [] /\ Forall (fun f => fl_class f = cls_kind \/ fl_class f = cls_field \/ fl_class f = cls_internal) fs
  | UOk _ => True
  end.
Proof. exact unmarshal_total. Qed.
Print Assumptions C10_total.

(* the same for a node restored as a cause (unmarshalCause) *)
Theorem C10_cause_total : forall c d,
  match unmarshal_cause c d with
  | UPanic _ => False
  | UFail fs => fs <> [] /\ Forall (fun f => fl_class f = cls_kind \/ fl_class f = cls_field \/ fl_class f = cls_internal) fs
  | UOk _ => True
  end.
Proof. intros c d. exact (proj2 (both_good c d)). Qed.
Print Assumptions C10_cause_total.

(* a class determines exactly one of the four errors.Is answers *)
Theorem C10_class_exclusive : forall s, class3 s ->
  existsb (str_eqb s) classes = true /\ count_true (map (str_eqb s) classes) = 1 /\
  str_eqb s cls_decode = false /\ str_eqb s "ok" = false.
Proof. exact class3_facts. Qed.
Print Assumptions C10_class_exclusive.

(* an observation that agrees with the model satisfies C10 (the model is a pure
   function: it cannot modify its input) *)
Theorem C10_corr_implies_ok : forall c, corr c = true -> ok c = true.
Proof. exact corr_implies_ok. Qed.
Print Assumptions C10_corr_implies_ok.

Example C10_example :
  let k := {| uk_key := {| k_id := 1; k_name := "n"; k_ty := 2 |}; uk_ty := FScalar {| s_id := 2; s_kind := KInt |} |} in
  let d := {| ud_def := define 1000 0 "k1" [ONoTrace]; ud_keys := [k] |} in
  let c := {| u_defs := [d]; u_default := None; u_strict := true; u_custom := []; u_sentinels := [] |} in
  let f3 := DS ty_float64 (SF64 4613937818241073152) in
  (* a bound field, a nil cause, an unknown-kind cause with nested causes *)
  (exists e, unmarshal_top c (Some (DD "m" "k1" "" [("n", f3)] [] [Some (DD "c" "zz" "T" [] [] [Some (DD "x" "k1" "" [] [] [] "")] "")] "")) = UOk e) /\
  unmarshal_top c (Some (DD "m" "k1" "" [("n", f3)] [] [None] ""))
    = UFail [{| fl_class := cls_internal; fl_kind := ""; fl_field := "" |}] /\
  unmarshal_top c (Some (DD "m" "k1" "" [("zz", f3)] [] [] ""))
    = UFail [{| fl_class := cls_field; fl_kind := "k1"; fl_field := "zz" |}].
Proof. vm_compute. repeat split; try reflexivity. eexists. reflexivity. Qed.
