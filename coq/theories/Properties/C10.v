(* C10 — Unmarshal is total: a result or a classified error, never a panic.
   Statements only; proofs in Proofs/C10Proofs.v. *)
From Errdef Require Import Base.Str Base.Outcome Model.Core Model.Convert Model.Unmarshal Check.UM Check.C10 Proofs.C10Proofs
  Model.UnmarshalGen Proofs.UnmarshalGenProofs Model.GoLite Model.UnmarshalGL Proofs.UnmarshalSrc.

(* ---- the model IS the source ---------------------------------------------------------------------------- *)
(* On every run srcgen (golite.go) translates the bodies of Unmarshaler.Unmarshal / unmarshal / unmarshalCause /
   resolveKind / resolveDefinitionFromMessage from unmarshaler/unmarshaler.go, statement by statement, into the
   deep-embedded Go fragment of Model/GoLite.v (Gen/GoLiteSrc.v): block scoping resolved to distinct variables,
   selectors / methods / conversions / literals as named primitives.  Nothing in that translation knows what the
   functions are for. *)

(* the translation was complete: no construct outside the fragment, no map or slice that is written while a second
   name can reach it (the condition under which the interpreter's value semantics of maps and slices is Go's),
   and every primitive the bodies call has a meaning in Model/UnmarshalGL.um_ext *)
Theorem C10_source_translated : um_translation_ok = true.
Proof. vm_compute. reflexivity. Qed.
Print Assumptions C10_source_translated.

(* THE TIE: for every configuration, every input - a decoder error, a nil DecodedData, any decoded tree of any depth
   and width with nil entries anywhere in Causes, field names distinct at each node as in a Go map - and every fuel
   that covers the tree's depth, running the TRANSLATED Unmarshal with the GoLite interpreter returns exactly what the
   hand-written model Model/Unmarshal.v returns.  So every theorem about unmarshal_top / unmarshal / unmarshal_cause
   (here, and in C09, C12, C13, C20) is a theorem about the code as srcgen read it in this run. *)
Theorem C10_source_is_model : forall c od decerr,
  match od with Some d => dd_nodup d | None => True end ->
  forall n, (2 * match od with Some d => dd_depth d | None => O end + 1 <= n)%nat ->
  um_run (S n) ".Unmarshal" [VD (DU c); input_val od decerr] = enc_rerr (top_model c od decerr).
Proof. exact um_top_source_is_model. Qed.
Print Assumptions C10_source_is_model.

(* the same for the two recursive workers, on every node *)
Theorem C10_source_workers_are_model : forall c d, dd_nodup d -> forall n, (2 * dd_depth d <= n)%nat ->
  um_run (S n) ".unmarshal" [VD (DU c); VD (DNode d)] = enc_rerr (unmarshal c d) /\
  um_run (S (S n)) ".unmarshalCause" [VD (DU c); VD (DNode d)] = enc_cause (unmarshal_cause c d).
Proof. exact um_source_is_model. Qed.
Print Assumptions C10_source_workers_are_model.

(* totality, stated about the translated source itself: it never panics, never leaves the fragment, never runs out
   of fuel - it returns a restored error, or exactly one failure classified under one of the four definitions *)
Theorem C10_source_total : forall c od decerr,
  match od with Some d => dd_nodup d | None => True end ->
  exists r, src_unmarshal_top (fuel_for od) c od decerr = Some r /\
    match r with
    | UOk _ => True
    | UFail fs => exists f, fs = [f] /\ (fl_class f = cls_decode \/ fl_class f = cls_kind \/ fl_class f = cls_field \/ fl_class f = cls_internal)
    | UPanic _ => False
    end.
Proof. exact source_total. Qed.
Print Assumptions C10_source_total.

(* ---- the binding rules (converter.go) are still pinned by statement groups ------------------------------------ *)
(* Model/Convert.v transcribes the five steps of tryConvertFieldValue and the JSON route of tryConvertViaJSON (which
   target kinds go through JSON); srcgen alpha-renames the two bodies and checks that every group the model was
   written from is there, in this order and with nothing else between them (Gen/UnmarshalSrc.v lists them). *)
Theorem C10_unmarshal_source_shape_recognised : unmarshal_source_ok = true.
Proof. exact unmarshal_source_shape. Qed.
Print Assumptions C10_unmarshal_source_shape_recognised.

(* binding a decoded value to a typed key never panics, for every field type and
   every Go value a decoder may hand over (as of the fix commit for F5) *)
Theorem C10_binding_never_panics : forall T v, is_panic (try_convert T v) = false.
Proof. exact try_convert_no_panic. Qed.
Print Assumptions C10_binding_never_panics.

(* For every configuration (resolver contents and order, default, strict, custom keys,
   sentinels) and every decoded tree of any depth - nil top level and nil entries in
   Causes included - Unmarshal returns a value or a non-empty set of failures, each
   classified as unknown_kind, unknown_field or internal; never a panic.  No fuel:
   the recursion is structural on the decoded tree. *)
Theorem C10_total : forall c od,
  match unmarshal_top c od with
  | UPanic _ => False
  | UFail fs => fs <> [] /\ Forall (fun f => fl_class f = cls_kind \/ fl_class f = cls_field \/ fl_class f = cls_internal) fs
  | UOk _ => True
  end.
Proof. exact unmarshal_total. Qed.
Print Assumptions C10_total.

(* the same for a node restored as a cause (unmarshalCause) *)
Theorem C10_cause_total : forall c d,
  match unmarshal_cause c d with
  | UPanic _ => False
  | UFail fs => fs <> [] /\ Forall (fun f => fl_class f = cls_kind \/ fl_class f = cls_field \/ fl_class f = cls_internal) fs
  | UOk _ => True
  end.
Proof. intros c d. exact (proj2 (both_good c d)). Qed.
Print Assumptions C10_cause_total.

(* a class determines exactly one of the four errors.Is answers *)
Theorem C10_class_exclusive : forall s, class3 s ->
  existsb (str_eqb s) classes = true /\ count_true (map (str_eqb s) classes) = 1 /\
  str_eqb s cls_decode = false /\ str_eqb s "ok" = false.
Proof. exact class3_facts. Qed.
Print Assumptions C10_class_exclusive.

(* an observation that agrees with the model satisfies C10 (the model is a pure
   function: it cannot modify its input) *)
Theorem C10_corr_implies_ok : forall c, corr c = true -> ok c = true.
Proof. exact corr_implies_ok. Qed.
Print Assumptions C10_corr_implies_ok.

Example C10_example :
  let k := {| uk_key := {| k_id := 1; k_name := "n"; k_ty := 2 |}; uk_ty := FScalar {| s_id := 2; s_kind := KInt |} |} in
  let d := {| ud_def := define 1000 0 "k1" [ONoTrace]; ud_keys := [k] |} in
  let c := {| u_defs := [d]; u_default := None; u_strict := true; u_custom := []; u_sentinels := [] |} in
  let f3 := DS ty_float64 (SF64 4613937818241073152) in
  (* a bound field, a nil cause, an unknown-kind cause with nested causes *)
  (exists e, unmarshal_top c (Some (DD "m" "k1" "" [("n", f3)] [] [Some (DD "c" "zz" "T" [] [] [Some (DD "x" "k1" "" [] [] [] "")] "")] "")) = UOk e) /\
  unmarshal_top c (Some (DD "m" "k1" "" [("n", f3)] [] [None] ""))
    = UFail [{| fl_class := cls_internal; fl_kind := ""; fl_field := "" |}] /\
  unmarshal_top c (Some (DD "m" "k1" "" [("zz", f3)] [] [] ""))
    = UFail [{| fl_class := cls_field; fl_kind := "k1"; fl_field := "zz" |}].
Proof. vm_compute. repeat split; try reflexivity. eexists. reflexivity. Qed.
