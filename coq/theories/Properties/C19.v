(* C19 — slog values mirror the accessor view.
   Statements only; proofs in Proofs/C19Proofs.v. *)
From Errdef Require Import Base.Str Model.Core Model.GoErrors Model.Prog Model.Tree0 Model.Slog Check.Render Check.C19 Proofs.C19Proofs.

(* The log value of any errdef error (native or restored) without a custom valuer is a
   group holding exactly the message, the kind when non-empty, the fields when there are
   any, and an origin equal to the head frame when a stack exists - never the full stack
   or the cause tree. *)
Theorem C19_error_group : forall e,
  (match e_def e with Some d => d_log d | None => None end) = None ->
  keys_of (log_value e) =
    ["message"] ++ (if str_eqb (e_kind e) "" then [] else ["kind"])
                ++ (match e_fields_all e with [] => [] | _ => ["fields"] end)
                ++ (match e_stack e with [] => [] | _ => ["origin"] end) /\
  attr "message" (log_value e) = Some (SVStr (err_msg e)) /\
  (str_eqb (e_kind e) "" = false -> attr "kind" (log_value e) = Some (SVStr (e_kind e))) /\
  (e_fields_all e <> [] -> attr "fields" (log_value e) = Some (fields_sv (e_fields_all e))) /\
  (forall f r, e_stack e = f :: r -> attr "origin" (log_value e) = Some (frame_sv f)) /\
  attr "stack" (log_value e) = None /\ attr "causes" (log_value e) = None.
Proof. exact error_group. Qed.
Print Assumptions C19_error_group.

(* fields: one attribute per pair of All(), in iteration order, duplicates kept (so the
   later-inserted value is the last one under an equal name) *)
Theorem C19_fields_order : forall all,
  fields_sv all = SVGroup (map (fun nv => (fst nv, SVVal (fv_plus (snd nv)))) all).
Proof. reflexivity. Qed.
Print Assumptions C19_fields_order.

(* a cause-tree node carries the full subtree; a stack all frames; a frame its triple *)
Theorem C19_node_full_subtree : forall e kids,
  exists attrs, node_log_value (T e kids) = SVGroup attrs /\
  option_map snd (find (fun a => str_eqb (fst a) "message") attrs) = Some (SVStr (err_msg e)) /\
  (kids <> [] ->
   option_map snd (find (fun a => str_eqb (fst a) "causes") attrs)
   = Some (SVList (map (fun k => match node_log_value k with SVGroup a => SVMap (to_map a) | o => o end) kids))) /\
  (is_errdef_error e = true -> e_stack e <> [] ->
   option_map snd (find (fun a => str_eqb (fst a) "stack") attrs) = Some (SVFrames (e_stack e))).
Proof. exact node_full_subtree. Qed.
Print Assumptions C19_node_full_subtree.

Theorem C19_frame_triple : forall f,
  frame_sv f = SVGroup [("func", SVStr (fr_func f)); ("file", SVStr (fr_file f)); ("line", SVInt (fr_line f))].
Proof. reflexivity. Qed.
Print Assumptions C19_frame_triple.

(* a LogValuer option replaces the value for errors of that definition *)
Theorem C19_valuer_local : forall e id,
  (match e_def e with Some d => d_log d | None => None end) = Some id -> log_value e = custom_log id (err_msg e).
Proof. exact valuer_local. Qed.
Print Assumptions C19_valuer_local.

Theorem C19_corr_implies_ok : forall s given o, corr1 s given o = true -> ok1 s given o = true.
Proof. exact corr_implies_ok. Qed.
Print Assumptions C19_corr_implies_ok.

Example C19_example :
  let ka := {| k_id := 1; k_name := "a"; k_ty := 1 |} in
  let kb := {| k_id := 2; k_name := "a"; k_ty := 2 |} in
  let v s := {| fv_repr := s; fv_plus := s; fv_json := s |} in
  let fr := {| fr_func := "f"; fr_file := "x.go"; fr_line := 3 |} in
  let p := [SDefine "k" [OField ka (v "1"); OField kb (v "2")]; SLeaf "l" "*errors.errorString"; SWrap 0 (Some 0) [fr; fr]] in
  option_map log_value (nth 1 (s_errs (run p)) None) =
  Some (SVGroup [("message", SVStr "l"); ("kind", SVStr "k"); ("fields", SVGroup [("a", SVVal "1"); ("a", SVVal "2")]);
                 ("origin", frame_sv fr)]).
Proof. vm_compute. reflexivity. Qed.
