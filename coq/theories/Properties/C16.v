(* C16 - everything is safe for concurrent use.
   Statements only; proofs are in Proofs/C16Proofs.v, the model in Model/Conc.v.

   PARTIAL BY NATURE.  "No data race under any schedule" is a statement about the Go
   memory model and real goroutines; no Gallina term exhibits a hardware-level race.
   What is logic is proved here, about the model:
     - the interleaving model of Model/Conc.v (goroutines only read what existed
       before they started and only write what they allocate themselves; the source
       memo is touched in micro-steps under the mutexes srcgen read from stack.go);
     - the effects srcgen extracts from the sources of errdef, resolver and unmarshaler
       on every run (Gen/Effects.v) equal the table audited by hand.
   The runtime part - that the real library has no data race and returns the same
   results concurrently - is OBSERVED with the Go race detector (Check/C16.v, harness
   c16.go) and named as such. *)
From Errdef Require Import Base.Str Base.Outcome Model.Core Model.Prog Model.Conc Gen.Effects Spec.EffectsAudit
  Check.C16 Proofs.C16Proofs.
Local Open Scope list_scope.

(* For every shared state, every initial memo, every number of goroutines, every
   program per goroutine and EVERY schedule: two accesses from different goroutines
   to one address, at least one of them a write, both hold a common mutex, one of
   them exclusively (Lock(); two RLock() holders do not exclude each other). *)
Theorem C16_no_conflict : forall fs sh m0 progs sched t1 a1 t2 a2,
  let tr := w_trace (conc_run fs sh m0 progs sched) in
  In (t1, a1) tr -> In (t2, a2) tr ->
  t1 <> t2 -> ac_addr a1 = ac_addr a2 -> (ac_rw a1 = Wr \/ ac_rw a2 = Wr) ->
  exists k1 k2, In k1 (ac_locks a1) /\ In k2 (ac_locks a2) /\ lk_mu k1 = lk_mu k2
                /\ (lk_excl k1 = true \/ lk_excl k2 = true).
Proof. exact no_conflict. Qed.
Print Assumptions C16_no_conflict.

(* the same with the executable race predicate of Model/Conc.v *)
Theorem C16_no_conflict_computed : forall fs sh m0 progs sched,
  conflicts (w_trace (conc_run fs sh m0 progs sched)) = [].
Proof. exact no_conflict_b. Qed.
Print Assumptions C16_no_conflict_computed.

(* Every operation that does not read the source memo (statements of the program
   DSL, inspections, renderings without source lines) returns, under every schedule
   and whatever the other goroutines do, what it returns when its goroutine runs
   alone on the shared state ([run_alone] knows no schedule, memo or file system). *)
Theorem C16_results_schedule_independent : forall fs sh m0 progs sched tid th i r,
  nth_error (w_threads (conc_run fs sh m0 progs sched)) tid = Some th ->
  In (i, r) (th_log th) -> is_snips r = false ->
  nth_error (run_alone sh (nth tid progs [])) i = Some (Some r).
Proof. exact results_schedule_independent. Qed.
Print Assumptions C16_results_schedule_independent.

(* Source snippets.  Under every schedule and every file oracle (stable per path during
   the run: [fs] is a function of the path), starting from any memo whose cache is
   truthful: a rendering answers exactly its requests, in order; every snippet is
   empty or the true lines around the requested line; the cache only ever maps a path
   to its true content; sourceAvailable is assigned at most once, never when it was
   already decided, and once decided keeps its value for the rest of the run.
   (Which snippets are empty can depend on the schedule - a failed open of a missing
   file racing a successful open - exactly as it depends on the call order
   sequentially; "returns what it returns alone" is read for snippets as "a correct
   snippet or none".) *)
Theorem C16_cache_atomic : forall fs sh m0 progs sched,
  memo_ok fs m0 ->
  let w := conc_run fs sh m0 progs sched in
  (forall tid th i l rq s, nth_error (w_threads w) tid = Some th ->
      In (i, RSnips l) (th_log th) -> In (rq, s) l -> snip_ok fs rq s)
  /\ memo_ok fs (w_memo w)
  /\ (m_writes (w_memo w) <= S (m_writes m0))
  /\ (m_avail m0 <> None -> m_writes (w_memo w) = m_writes m0 /\ m_avail (w_memo w) = m_avail m0)
  /\ (forall s1 s2 b, sched = s1 ++ s2 ->
        m_avail (w_memo (conc_run fs sh m0 progs s1)) = Some b -> m_avail (w_memo w) = Some b).
Proof. exact cache_atomic. Qed.
Print Assumptions C16_cache_atomic.

Theorem C16_render_answers_requests : forall fs sh m0 progs sched tid th i l,
  nth_error (w_threads (conc_run fs sh m0 progs sched)) tid = Some th ->
  In (i, RSnips l) (th_log th) ->
  exists e rs, nth_error (nth tid progs []) i = Some (ORender e rs) /\ map fst l = rs.
Proof. exact render_results_match_requests. Qed.
Print Assumptions C16_render_answers_requests.

(* Source-derived obligation.  What srcgen extracts from /repo NOW equals the audited
   tables of Proofs/C16Proofs.v: the write sites that are not local, the calls of
   mutating functions with what they are handed, the bodies of the allocating
   functions "fresh" relies on (definition.clone, fields.clone, newFields, buildNode(s)),
   every access to a mutable package variable with the lock held, the lock sites,
   the package variables nothing writes, everything of a sync type.  Every access
   holds a lock; one mutex per variable; writes hold Lock(); every lock is released.
   A memoised Frames(), a map created lazily in a getter, With applying options to
   its receiver, or an access to sourceFileCache without its mutex changes
   Gen/Effects.v and breaks this theorem although no sequential output changes. *)
Theorem C16_effects_audited :
  effects_matched = true
  /\ write_sites = audited_write_sites
  /\ mutator_calls = audited_mutator_calls
  /\ fresh_sources = audited_fresh_sources
  /\ pkgvar_accesses = audited_pkgvar_accesses
  /\ lock_sites = audited_lock_sites
  /\ pkgvar_init_only = audited_pkgvar_init_only
  /\ sync_typed = audited_sync_typed
  /\ forallb acc_locked pkgvar_accesses = true
  /\ guards_consistent pkgvar_accesses = true
  /\ forallb acc_lock_mode_ok pkgvar_accesses = true
  /\ forallb released lock_sites = true.
Proof. exact effects_audited. Qed.
Print Assumptions C16_effects_audited.

(* Link to the check: the model predicts no race report and no divergent result for
   every descriptor, so an observation that agrees with the model satisfies the
   specification (here corr and ok are the same predicate). *)
Theorem C16_corr_implies_ok : forall c, C16.corr c = true -> C16.ok c = true.
Proof. exact corr_implies_ok. Qed.
Print Assumptions C16_corr_implies_ok.

(* non-vacuity: three goroutines on a shared definition with a field, a derived
   factory and a shared wrapped error; each derives, creates, wraps, inspects and
   renders with source lines of two files (one present, one missing), interleaved
   round-robin.  All operations complete; the trace has reads of shared objects,
   writes of private ones and locked accesses to the memo; no conflict; the
   non-snippet results are those of the goroutine alone; the cache ends truthful. *)
Example C16_example :
  let k := {| k_id := 7; k_name := "n"; k_ty := 2 |} in
  let v := {| fv_repr := "int:1"; fv_plus := "1"; fv_json := "1" |} in
  let fr := {| fr_func := "main.f"; fr_file := "/src/a.go"; fr_line := 2 |} in
  let shared := run [SDefine "k1" [OField k v; OSource 1 (-1)]; SWithOptions 0 [OField k v];
                     SNew 1 "m" [fr]; SWrap 0 (Some 0) [fr]] in
  let prog := [OStmt (SWith 0 None [ONoTrace]); OStmt (SNew 2 "x" []); OStmt (SWrap 0 (Some 1) [fr]);
               OQuery (QIsDef (Some 2) 0); OQuery (QFmt 1 "+v"); OQuery (QJson 1); OQuery (QDefGet 1 k);
               ORender 1 [{| rq_path := "/src/a.go"; rq_line := 2; rq_around := 1 |};
                          {| rq_path := "/src/gone.go"; rq_line := 1; rq_around := 1 |}];
               ORender 0 [{| rq_path := "/src/a.go"; rq_line := 3; rq_around := 1 |}]] in
  let fs := fun p => if str_eqb p "/src/a.go" then Present ["l1"; "l2"; "l3"] else Missing in
  let w := conc_run fs shared memo0 [prog; prog; prog] (round_robin 3 40) in
  forallb (fun th => Nat.eqb (List.length (th_ops th)) 0 && Nat.eqb (List.length (th_log th)) 9) (w_threads w) = true
  /\ existsb (fun e => match ac_addr (snd e) with AShared _ => true | _ => false end) (w_trace w) = true
  /\ existsb (fun e => match ac_addr (snd e), ac_rw (snd e) with APriv _ _, Wr => true | _, _ => false end) (w_trace w) = true
  /\ existsb (fun e => match ac_addr (snd e), ac_rw (snd e) with ACache, Wr => true | _, _ => false end) (w_trace w) = true
  /\ List.length (conflicts (w_trace w)) = 0
  /\ m_writes (w_memo w) = 1 /\ m_avail (w_memo w) = Some true
  /\ cache_get "/src/a.go" (m_cache (w_memo w)) = Some ["l1"; "l2"; "l3"]
  /\ map (fun th => nth_error (th_log th) 3) (w_threads w) = repeat (Some (3, RBool true)) 3.
Proof. vm_compute. repeat split; reflexivity. Qed.
