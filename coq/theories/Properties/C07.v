(* C07 - every renderer terminates on every cause graph.
   Statements only; proofs are in Proofs/C07Proofs.v (and Proofs/C06Proofs.v for the tree).
   Model: Model/Render07.v over the cause graphs of Model/Tree.v.
   - Error(), %s %v %q, %+v, the slog value, Node.LogValue and DebugStack only follow the pruned
     tree that UnwrapTree returns (or do not look at the causes at all): structural recursions.
   - json.Marshal re-enters json.Marshal(err) at every errdef node with a FRESH visited map: fuel.
     Guard of the partial theorem: [edge_ranked g rank] - a rank on nodes that never increases
     along a cause edge and strictly decreases along every edge leaving an errdef node, i.e. no
     cycle of the graph passes through an errdef node.  Refuted without it (K1).
   - %#v hands the raw struct to fmt, which prints map-kinded causes inline: fuel.  Guard
     [inline_ranked]: no cycle among the map-kinded nodes.  Refuted without it (K7).
   - %+v prints every field value with fmt's %+v: guard [a_cycf = []] (no field value that
     contains itself).  Refuted without it (K8).
   - the source-snippet reader with its process-wide memo is a state machine over a file oracle.
   Partial by nature: a fatal stack overflow is a runtime event; the tie to the real process is
   the correspondence run (child processes), see harness/cmd/vh/c07.go. *)
From Errdef Require Proofs.C07ValueCycle.
From Errdef Require Import Base.Str Base.Outcome Model.Tree Spec.Unfold Check.C06 Proofs.C06Proofs
  Model.Render07 Check.C07 Proofs.C07Proofs.

(* restated from Properties/C07tree.v: under C06's guard G the tree is built within the explicit
   fuel (|g|+1)^2, for cyclic graphs too *)
Theorem C07_tree_build_total : forall g recv, G g -> recv < List.length g ->
  forall fuel, fuel_bound g <= fuel -> exists ts, build_cause_tree fuel g recv = Some ts.
Proof. exact terminates. Qed.
Print Assumptions C07_tree_build_total.

(* Every tree renderer is then a total function of that finite tree: it returns, %+v and
   Node.LogValue visit every node occurrence of the tree exactly once, in pre-order with its
   depth (preorder_all, the sequence Walk yields - C06_walk_preorder), the others do not look at
   the causes.  Guard: no field value contains itself (fmt would not return, K8). *)
Theorem C07_tree_renderers_total : forall g at_ recv k,
  G g -> recv < List.length g -> a_cycf at_ = [] ->
  forall fuel, fuel_bound g <= fuel ->
  exists ts, build_cause_tree fuel g recv = Some ts /\
             render_tree g at_ k recv ts = Some (if walks k then preorder_all ts else []) /\
             (forall toks, render_tree g at_ k recv ts = Some toks ->
                List.length toks = if walks k then list_sum (map tsize ts) else 0).
Proof. exact tree_renderers_total. Qed.
Print Assumptions C07_tree_renderers_total.

Theorem C07_plus_cyclic_field_refuted :
  G g_leaf /\ unwrap_tree g_leaf 0 = Some [] /\
  render_tree g_leaf {| a_bad := [0]; a_cycf := [0]; a_inline := [] |} KPlus 0 [] = None.
Proof. exact plus_cyclic_field_refuted. Qed.
Print Assumptions C07_plus_cyclic_field_refuted.

(* json.Marshal: if no cycle passes through an errdef node there is a fuel (rank n + 1 nested
   json.Marshal calls) with which it returns a document or an error, for every graph, every set
   of unencodable fields and every errdef node. *)
Theorem C07_json_terminates_partial : forall g bad rank, G g -> edge_ranked g rank ->
  forall n, is_errdef g n = true ->
  exists fuel, (exists sh, marshal_g fuel g bad n = JOk sh) \/ marshal_g fuel g bad n = JFail.
Proof. exact json_terminates. Qed.
Print Assumptions C07_json_terminates_partial.

(* the explicit fuel: rank n + 1; and results are stable under more fuel, so the fuel of the
   check (|g| + 1) decides whenever the rank is bounded by the number of nodes *)
Theorem C07_json_fuel : forall g bad rank, G g -> edge_ranked g rank ->
  forall f n d, rank n <= f -> is_errdef g n = true -> marshal_err (S f) g bad n d <> JOut.
Proof. exact marshal_err_fin. Qed.
Print Assumptions C07_json_fuel.

Theorem C07_json_fuel_monotone : forall g bad f n d, marshal_err f g bad n d <> JOut ->
  forall f', f <= f' -> marshal_err f' g bad n d = marshal_err f g bad n d.
Proof. exact marshal_err_mono. Qed.
Print Assumptions C07_json_fuel_monotone.

(* The fuel of the check decides: out of fuel |g|+1 means out of EVERY fuel (a node whose result
   still changes at fuel k+1 needs k+1 further distinct such nodes: pigeonhole), and a result
   reached with it is the result for every larger fuel.  So the model's verdict "Diverge" in
   Check/C07.v is exact, and the partial theorem needs no bound on the rank. *)
Theorem C07_json_fuel_decides : forall g bad n, n < List.length g ->
  (marshal_g (json_fuel g) g bad n = JOut -> forall fuel, marshal_g fuel g bad n = JOut) /\
  (marshal_g (json_fuel g) g bad n <> JOut ->
     forall fuel, json_fuel g <= fuel -> marshal_g fuel g bad n = marshal_g (json_fuel g) g bad n).
Proof. exact json_fuel_decides. Qed.
Print Assumptions C07_json_fuel_decides.

Theorem C07_json_check_fuel_suffices : forall g bad rank, G g -> edge_ranked g rank ->
  forall n, is_errdef g n = true -> marshal_g (json_fuel g) g bad n <> JOut.
Proof. exact json_fuel_suffices_any_rank. Qed.
Print Assumptions C07_json_check_fuel_suffices.

(* an error is returned only because of an unencodable field value *)
Theorem C07_json_error_needs_bad_field : forall g f n d, marshal_err f g [] n d <> JFail.
Proof. exact marshal_err_nofail. Qed.
Print Assumptions C07_json_error_needs_bad_field.

(* K1: e = D.Wrap(f); f.cause = e.  The graph satisfies G (UnwrapTree is fine:
   [f* [e]]), and json.Marshal(e) runs out of every fuel. *)
Theorem C07_json_diverges_refuted :
  G g_k1 /\ (forall fuel, marshal_g fuel g_k1 [] 1 = JOut).
Proof. exact json_diverges. Qed.
Print Assumptions C07_json_diverges_refuted.

(* %#v: terminates when the map-kinded (inline) nodes have no cycle *)
Theorem C07_gostring_terminates_partial : forall g inl rk direct,
  closed g -> inline_ranked g inl rk -> (forall c, In c direct -> c < List.length g) ->
  forall fuel, (forall c, In c direct -> rk c < fuel) -> exists sh, gostring_g fuel g inl direct = JOk sh.
Proof. exact gostring_terminates. Qed.
Print Assumptions C07_gostring_terminates_partial.

(* K7: m := MM{}; m["c"] = []error{m}; e := D.Wrap(m) *)
Theorem C07_gostring_diverges_refuted :
  G g_k7 /\ (exists ts, unwrap_tree g_k7 1 = Some ts) /\
  (forall fuel, gostring_g fuel g_k7 [0] [0] = JOut).
Proof. exact gostring_diverges. Qed.
Print Assumptions C07_gostring_diverges_refuted.

(* The source-snippet reader, for every sequence of calls (file oracle, path, line, around) from
   every state of the memo.  Each call returns a string (never a panic); it is non-empty only if
   the memo allowed reading and the file is cached or readable now, and the line is a line of
   that content; [available] once decided keeps its value; decided false: nothing is returned,
   the state is unchanged and the file system is not consulted; the cache grows only by a
   completely read file. *)
Theorem C07_source_total : forall st cs, Forall step_ok (run_calls st cs).
Proof. exact (fun st cs => run_calls_ok cs st). Qed.
Print Assumptions C07_source_total.

Theorem C07_source_memo_written_once : forall cs st b, available st = Some b ->
  Forall (fun r => available (r_pre r) = Some b /\ available (r_post r) = Some b) (run_calls st cs).
Proof. exact run_calls_decided. Qed.
Print Assumptions C07_source_memo_written_once.

Theorem C07_source_decided_false : forall cs st, available st = Some false ->
  Forall (fun r => r_out r = Ok "" /\ r_post r = st /\ r_opened r = false) (run_calls st cs).
Proof. exact run_calls_false. Qed.
Print Assumptions C07_source_decided_false.

Theorem C07_source_decided_false_ignores_fs : forall st fs fs' p line around,
  available st = Some false -> snippet st fs p line around = snippet st fs' p line around.
Proof. exact snippet_false_any_fs. Qed.
Print Assumptions C07_source_decided_false_ignores_fs.

Theorem C07_source_states_chained : forall cs st,
  (match run_calls st cs with r :: _ => r_pre r = st | [] => True end) /\
  (forall pre r1 r2 post, run_calls st cs = pre ++ r1 :: r2 :: post -> r_pre r2 = r_post r1).
Proof. exact run_calls_chain. Qed.
Print Assumptions C07_source_states_chained.

(* getSourceLines itself would panic (slice bounds) for a negative [around]; StackSource clamps it
   and FramesAndSource only asks with around > 0 *)
Theorem C07_source_raw_no_panic : forall st fs p line around, (0 <= around)%Z ->
  forall st1 r op, get_source_lines st fs p line around = (st1, r, op) -> exists lines, r = Ok lines.
Proof. exact get_source_lines_no_panic. Qed.
Print Assumptions C07_source_raw_no_panic.

(* Link to the check.  An observation that agrees with the model satisfies the oracle whenever the
   model does not say Diverge ... *)
Theorem C07_corr_implies_ok : forall c,
  match c with
  | CR r => c_restored r = false -> model_native r <> MDiverge
  | CS _ => True
  end -> corr c = true -> ok c = true.
Proof. exact corr_implies_ok. Qed.
Print Assumptions C07_corr_implies_ok.

(* ... and under the guards of the theorems above it never does. *)
Theorem C07_model_total_under_guards : forall r, render_guard r -> model_native r <> MDiverge.
Proof. exact model_native_total. Qed.
Print Assumptions C07_model_total_under_guards.

(* the guards are decidable once the ranks are given *)
Theorem C07_guards_decidable :
  (forall g rank, edge_rankedb g rank = true -> edge_ranked g rank) /\
  (forall g inl rk, inline_rankedb g inl rk = true -> inline_ranked g inl rk) /\
  (forall r rank rk, render_guardb r rank rk = true -> render_guard r).
Proof. exact (conj edge_rankedb_sound (conj inline_rankedb_sound render_guardb_sound)). Qed.
Print Assumptions C07_guards_decidable.

(* non-vacuity: a graph under every guard with a foreign 2-cycle, sharing, an inner errdef node,
   a map-kinded node and an unencodable field; receiver = node 4 *)
Example C07_example :
  let g := [ gp 1%N (UMulti [Some 1; None; Some 2]);      (* 0: pointer, multi *)
             gp 2%N (USingle (Some 0));                   (* 1: pointer, back to 0: a foreign cycle *)
             gp 3%N (UMulti [Some 3]);                    (* 2: map-kinded *)
             ge 4%N [];                                   (* 3: errdef leaf *)
             ge 5%N [Some 0; Some 3] ] in                 (* 4: the receiver *)
  let at_ := {| a_bad := [3]; a_cycf := []; a_inline := [2] |} in
  let rank := fun n => match n with 4 => 2 | 3 => 0 | _ => 1 end in
  let ts := [Node 0 true [Node 1 false []; Node 2 false [Node 3 false []]]; Node 3 false []] in
  let c := fun bad rk out sh =>
           CR {| c_graph := g; c_attrs := {| a_bad := bad; a_cycf := []; a_inline := [2] |}; c_recv := 4;
                 c_direct := []; c_rk := rk; c_restored := false; c_out := out; c_shape := sh; c_valid := true |} in
  Gb g = true /\ unwrap_tree g 4 = Some ts /\
  render_tree g at_ KPlus 4 ts = Some [(0, 0); (1, 1); (1, 2); (2, 3); (0, 3)] /\
  marshal_g (json_fuel g) g [] 4 = JOk [0; 1; 1; 2; 0] /\
  marshal_g (json_fuel g) g [3] 4 = JFail /\
  corr (c [] RJson OOk [0; 1; 1; 2; 0]) = true /\ ok (c [] RJson OOk [0; 1; 1; 2; 0]) = true /\
  corr (c [3] RJson OJsonErr []) = true /\ ok (c [3] RJson OJsonErr []) = true /\
  corr (c [3] (RTree KPlus) OOk [0; 1; 1; 2; 0]) = true /\
  edge_rankedb g rank = true /\
  (forall bad rk out sh, match c bad rk out sh with CR r => render_guardb r rank (fun _ => 0) = true | _ => False end).
Proof. cbv zeta. repeat split; vm_compute; reflexivity. Qed.

(* a source sequence: present, then deleted (served from the cache), and from a fresh memo a
   missing file decides [available := false] for good *)
Example C07_source_example :
  let fsA := fun p : string => if str_eqb p "a.go" then Present ["l1"; "l2"; "l3"; "l4"] else Missing in
  let fs0 := fun _ : string => Missing in
  let call := fun fs => {| c_fs := fs; c_path := "a.go"; c_line := 3%Z; c_around := 1%Z |} in
  map r_out (run_calls s_init [call fsA; call fs0]) =
    [Ok (cat ["  2: l2"; nl; "> 3: l3"; nl; "  4: l4"]); Ok (cat ["  2: l2"; nl; "> 3: l3"; nl; "  4: l4"])] /\
  map r_out (run_calls s_init [call fs0; call fsA]) = [Ok ""; Ok ""] /\
  map (fun r => available (r_post r)) (run_calls s_init [call fs0; call fsA]) = [Some false; Some false].
Proof. vm_compute. repeat split; reflexivity. Qed.

(* K12, stated about the model: outside the guard of C06's theorems the statement of C06/C07 is FALSE.  A cycle made
   of value-kinded errors only (two struct values that reach each other through a shared pointer field), below an
   errdef error: buildNode finds no address to track, and for EVERY amount of fuel the construction of the cause
   tree does not finish - in Go: unbounded recursion, a fatal stack overflow in UnwrapTree, %+v, Node.LogValue and
   json.Marshal.  The run exercises exactly this graph (class value-kind-only-cycle) and observes the crash. *)
Theorem C07_value_kind_only_cycle_refuted :
  exists g recv, forall fuel, Errdef.Model.Tree.build_cause_tree fuel g recv = None.
Proof. exists Errdef.Proofs.C07ValueCycle.vcycle, 2%nat. exact Errdef.Proofs.C07ValueCycle.vcycle_unwrap_tree_diverges. Qed.
Print Assumptions C07_value_kind_only_cycle_refuted.
