(* C06 specification: the path-unfolding of a cause graph, written without any
   visited map or marker, over NODE IDENTITIES (indices of the node table), not
   addresses.  Shares with the model only the graph type and [causes_of]. *)
From Errdef Require Import Base.Str Model.Tree.

Inductive shape := SNode (n : nat) (kids : list shape).
Fixpoint erase (t : tree) : shape := match t with Node n _ kids => SNode n (map erase kids) end.

(* Unf g path n os ds: unfolding node n below the tracked nodes [path] gives the
   optional subtree [os]; [ds] lists, in order, the occurrences that were dropped.
   A tracked node (an error with pointer identity) already on the path is dropped;
   value-kinded errors have no identity and are never "already on the path". *)
Inductive Unf (g : graph) : list nat -> nat -> option shape -> list nat -> Prop :=
| Unf_cut path n nd :
    nth_error g n = Some nd -> g_key nd <> None -> In n path ->
    Unf g path n None [n]
| Unf_tracked path n nd kids ds :
    nth_error g n = Some nd -> g_key nd <> None -> ~ In n path ->
    UnfL g (n :: path) (causes_of nd) kids ds ->
    Unf g path n (Some (SNode n kids)) ds
| Unf_untracked path n nd kids ds :
    nth_error g n = Some nd -> g_key nd = None ->
    UnfL g path (causes_of nd) kids ds ->
    Unf g path n (Some (SNode n kids)) ds
with UnfL (g : graph) : list nat -> list (option nat) -> list shape -> list nat -> Prop :=
| UnfL_nil path : UnfL g path [] [] []
| UnfL_skip path r ss ds : UnfL g path r ss ds -> UnfL g path (None :: r) ss ds
| UnfL_cons path c r os ss d1 d2 :
    Unf g path c os d1 -> UnfL g path r ss d2 ->
    UnfL g path (Some c :: r) (match os with Some s => s :: ss | None => ss end) (d1 ++ d2).

Scheme Unf_ind2 := Minimality for Unf Sort Prop
with UnfL_ind2 := Minimality for UnfL Sort Prop.
Combined Scheme Unf_mutind from Unf_ind2, UnfL_ind2.

(* the path below node n *)
Definition path_ext (g : graph) (path : list nat) (n : nat) : list nat :=
  match nth_error g n with
  | Some nd => match g_key nd with Some _ => n :: path | None => path end
  | None => path
  end.

(* every flagged node is a tracked error one occurrence of which is dropped in the
   unfolding of its own subtree *)
Inductive FlagsSound (g : graph) : list nat -> tree -> Prop :=
| FS_node path n cyc kids :
    (cyc = true -> exists os ds, Unf g path n os ds /\ In n ds) ->
    Forall (FlagsSound g (path_ext g path n)) kids ->
    FlagsSound g path (Node n cyc kids).

(* depth-first pre-order with depths *)
Fixpoint preorder (d : nat) (t : tree) : list (nat * nat) :=
  match t with Node n _ kids => (d, n) :: flat_map (preorder (S d)) kids end.
Definition preorder_all (ts : list tree) : list (nat * nat) := flat_map (preorder 0) ts.
Fixpoint tsize (t : tree) : nat :=
  match t with Node _ _ kids => S (list_sum (map tsize kids)) end.

(* ---------- the guard G of the C06 theorems ---------- *)
Definition closed (g : graph) : Prop :=
  forall n nd c, nth_error g n = Some nd -> In (Some c) (causes_of nd) -> c < List.length g.
Definition keys_not_marker (g : graph) : Prop :=
  forall n nd k, nth_error g n = Some nd -> g_key nd = Some k -> k <> marker_key.
Definition keys_injective (g : graph) : Prop :=
  forall n m nd md k, nth_error g n = Some nd -> nth_error g m = Some md ->
    g_key nd = Some k -> g_key md = Some k -> n = m.
(* every cycle passes through a tracked node: untracked nodes point only to tracked
   nodes or to untracked nodes of smaller index *)
Definition untracked_ranked (g : graph) : Prop :=
  forall n nd c cd, nth_error g n = Some nd -> g_key nd = None -> In (Some c) (causes_of nd) ->
    nth_error g c = Some cd -> g_key cd = None -> c < n.
Definition G (g : graph) : Prop :=
  closed g /\ keys_not_marker g /\ keys_injective g /\ untracked_ranked g.
