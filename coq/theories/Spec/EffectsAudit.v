(* The audited effect tables: what srcgen is expected to extract from errdef, resolver and
   unmarshaler (Gen/Effects.v is regenerated from /repo on every run and compared with these
   in C16_effects_audited and C04_writes_audited).  Definitions only. *)
From Coq Require Import List String ZArith Bool.
Import ListNotations.
Open Scope string_scope.

(* Writes that are not to locals or to values allocated in the same function.
   - fields.set: only called from the applyOption methods (below) on d.fields
   - buildNode: the visited map is allocated per call by BuildCauseTree
   - the applyOption methods write the definition handed in: every caller hands in
     a definition it has just allocated (mutator_calls: "fresh def")
   - the four package-variable writes are under their mutexes (pkgvar_accesses)
   - unmarshaler options write the unmarshaler under construction in New *)
Definition audited_write_sites : list (string * string * string) :=
  [("errdef", "(*fields).set", "recv f.data (=)");
   ("errdef", "(*fields).set", "recv f.lastIndex (++)");
   ("errdef", "(*fields).set", "recv f.data[_] (=)");
   ("errdef", "buildNode", "param visited[_] (=)");
   ("errdef", "buildNode", "param visited[_] (=)");
   ("errdef", "buildNode.func1", "param visited[_] (delete)");
   ("errdef", "buildNode.func1", "param visited[_] (delete)");
   ("errdef", "(*noTrace).applyOption", "param d.noTrace (=)");
   ("errdef", "(*stackSkip).applyOption", "param d.stackSkip (=)");
   ("errdef", "(*stackDepth).applyOption", "param d.stackDepth (=)");
   ("errdef", "(*stackSource).applyOption", "param d.stackSourceLines (=)");
   ("errdef", "(*stackSource).applyOption", "param d.stackSourceDepth (=)");
   ("errdef", "(*formatter).applyOption", "param d.formatter (=)");
   ("errdef", "(*jsonMarshaler).applyOption", "param d.jsonMarshaler (=)");
   ("errdef", "(*logValuer).applyOption", "param d.logValuer (=)");
   ("errdef", "markSourceAvailable", "pkgvar sourceAvailable (=)");
   ("errdef", "cacheSourceFile", "pkgvar sourceFileCache[_] (=)");
   ("errdef", "VerifResetSourceState", "pkgvar sourceAvailable (=)");
   ("errdef", "VerifResetSourceState", "pkgvar sourceFileCache (=)");
   ("errdef", "VerifSourceState", "fresh-deep s.CachedFiles[_] (=)");
   ("unmarshaler", "tryConvertViaJSON", "reflect-fresh targetPtr.Interface(...)[_] (json.Unmarshal)");
   ("unmarshaler", "tryConvertPointer", "reflect-fresh ptrVal.Elem(...).Set(...)");
   ("unmarshaler", "WithStrictMode.func1", "param u.strictMode (=)");
   ("unmarshaler", "WithCustomFields.func1", "param u.customFieldKeys (= append)");
   ("unmarshaler", "WithCustomFields.func1", "param u.customFieldKeys[_] (append base)");
   ("unmarshaler", "WithSentinelErrors.func1", "param u.sentinelErrors (=)");
   ("unmarshaler", "WithSentinelErrors.func1", "param u.sentinelErrors[_] (=)")].

(* Every call of something that writes through its receiver or a parameter, with what
   is handed in: a value allocated by the caller ("fresh"), or the caller's own
   receiver / parameter (then the caller is itself in this table or in write_sites). *)
Definition audited_mutator_calls : list (string * string * string * string) :=
  [("errdef", "(*definition).With", "method applyOptions", "fresh def");
   ("errdef", "(*definition).With", "method applyOptions", "fresh def");
   ("errdef", "(*definition).WithOptions", "method applyOptions", "fresh def");
   ("errdef", "(*definition).applyOptions", "method applyOption", "recv d");
   ("errdef", "(*definition).BuildCauseTree", "buildNodes", "fresh visited");
   ("errdef", "Define", "method applyOptions", "fresh def");
   ("errdef", "buildNodes", "buildNode", "param visited");
   ("errdef", "buildNode", "buildNodes", "param visited");
   ("errdef", "(*field).applyOption", "method set", "param d.fields");
   ("errdef", "fieldKeyFromOption", "method applyOption", "fresh def");
   ("errdef", "Details.applyOption", "method set", "param def.fields");
   ("unmarshaler", "New", "dynamic Option", "fresh u.unmarshaler")].

(* the allocating functions the word "fresh" above leans on, verbatim *)
Definition audited_fresh_sources : list (string * string * string) :=
  [("errdef", "(*definition).clone", "{ clone := *d clone.fields = d.fields.clone() if d.isRoot() { clone.rootDef = d } return &clone }");
   ("errdef", "newFields", "{ return &fields{ data: nil, lastIndex: 0, } }");
   ("errdef", "(*fields).clone", "{ return &fields{ data: maps.Clone(f.data), lastIndex: f.lastIndex, } }");
   ("errdef", "buildNodes", "{ if len(causes) == 0 { return nil } nodes := make([]*Node, 0, len(causes)) for _, c := range causes { if c == nil { continue } if node, ok := buildNode(c, visited); ok { nodes = append(nodes, node) } } return nodes }");
   ("errdef", "buildNode", "{ val := reflect.ValueOf(err) if !val.IsValid() { return nil, false } if val.Kind() == reflect.Pointer || val.Kind() == reflect.Interface || val.Kind() == reflect.Map || val.Kind() == reflect.Slice || val.Kind() == reflect.Chan || val.Kind() == reflect.Func { ptr := val.Pointer() if _, ok := visited[ptr]; ok { visited[cycleMarker] = ptr return nil, false } visited[ptr] = ptr defer func() { if cyclePtr, hasCycle := visited[cycleMarker]; hasCycle && cyclePtr == ptr { node.IsCyclic = true delete(visited, cycleMarker) } delete(visited, ptr) }() } var causes []error if unwrapper, ok := err.(interface{ Unwrap() error }); ok { if nested := unwrapper.Unwrap(); nested != nil { causes = []error{nested} } } else if unwrapper, ok := err.(interface{ Unwrap() []error }); ok { causes = unwrapper.Unwrap() } return &Node{ Error: err, Causes: buildNodes(causes, visited), }, true }")].

Definition audited_pkgvar_accesses : list (string * string * string * bool * string) :=
  [("errdef.checkSourceAvailable", "sourceAvailable", "R", true, "sourceAvailableMu");
   ("errdef.getCachedSourceFile", "sourceFileCache", "R", true, "sourceFileCacheMu");
   ("errdef.markSourceAvailable", "sourceAvailable", "R", true, "sourceAvailableMu");
   ("errdef.markSourceAvailable", "sourceAvailable", "W", true, "sourceAvailableMu");
   ("errdef.cacheSourceFile", "sourceFileCache", "W", true, "sourceFileCacheMu");
   ("errdef.VerifResetSourceState", "sourceAvailable", "W", true, "sourceAvailableMu");
   ("errdef.VerifResetSourceState", "sourceFileCache", "W", true, "sourceFileCacheMu");
   ("errdef.VerifSourceState", "sourceAvailable", "R", true, "sourceAvailableMu");
   ("errdef.VerifSourceState", "sourceFileCache", "R", true, "sourceFileCacheMu")].

Definition audited_lock_sites : list (string * string * string * string) :=
  [("errdef.checkSourceAvailable", "sourceAvailableMu", "Lock", "defer");
   ("errdef.getCachedSourceFile", "sourceFileCacheMu", "RLock", "defer");
   ("errdef.markSourceAvailable", "sourceAvailableMu", "Lock", "defer");
   ("errdef.cacheSourceFile", "sourceFileCacheMu", "Lock", "defer");
   ("errdef.VerifResetSourceState", "sourceAvailableMu", "Lock", "explicit");
   ("errdef.VerifResetSourceState", "sourceFileCacheMu", "Lock", "explicit");
   ("errdef.VerifSourceState", "sourceAvailableMu", "Lock", "explicit");
   ("errdef.VerifSourceState", "sourceFileCacheMu", "RLock", "explicit")].

(* package variables nothing writes after initialisation: field constructors and
   extractors, the definitions of package unmarshaler, two constants kept as variables *)
Definition audited_pkgvar_init_only : list (string * string) :=
  [("errdef", "optionsFromContextKey"); ("errdef", "detailsFieldKey");
   ("errdef", "public"); ("errdef", "publicFrom"); ("errdef", "retryable"); ("errdef", "retryableFrom");
   ("errdef", "unreportable"); ("errdef", "unreportableFrom");
   ("errdef", "HTTPStatus"); ("errdef", "HTTPStatusFrom"); ("errdef", "LogLevel"); ("errdef", "LogLevelFrom");
   ("errdef", "TraceID"); ("errdef", "TraceIDFrom"); ("errdef", "Domain"); ("errdef", "DomainFrom");
   ("errdef", "UserHint"); ("errdef", "UserHintFrom"); ("errdef", "Public"); ("errdef", "IsPublic");
   ("errdef", "Retryable"); ("errdef", "IsRetryable"); ("errdef", "RetryAfter"); ("errdef", "RetryAfterFrom");
   ("errdef", "Unreportable"); ("errdef", "IsUnreportable"); ("errdef", "ExitCode"); ("errdef", "ExitCodeFrom");
   ("errdef", "HelpURL"); ("errdef", "HelpURLFrom"); ("errdef", "DetailsFrom");
   ("unmarshaler", "ErrDecodeFailure"); ("unmarshaler", "ErrUnknownKind"); ("unmarshaler", "ErrUnknownField");
   ("unmarshaler", "ErrInternal"); ("unmarshaler", "kindField"); ("unmarshaler", "KindFromError");
   ("unmarshaler", "fieldNameField"); ("unmarshaler", "FieldNameFromError");
   ("unmarshaler", "redactedStr"); ("unmarshaler", "redactedBytes")].

Definition audited_sync_typed : list (string * string) :=
  [("errdef", "var sourceAvailableMu sync.Mutex"); ("errdef", "var sourceFileCacheMu sync.RWMutex")].

