(* Result of a modelled Go entry point: a value, a classified failure, or a Go panic. *)
From Errdef Require Import Base.Str.

Inductive outcome (A : Type) :=
| Ok (a : A)
| Fail (class : string)
| Panic (what : string).
Arguments Ok {A} a.
Arguments Fail {A} class.
Arguments Panic {A} what.

Definition obind {A B} (o : outcome A) (f : A -> outcome B) : outcome B :=
  match o with Ok a => f a | Fail c => Fail c | Panic w => Panic w end.

Definition is_panic {A} (o : outcome A) : bool :=
  match o with Panic _ => true | _ => false end.
