(* Strings as printed by the harness, and small list helpers shared by all models. *)
From Coq Require Export List String Ascii NArith ZArith Bool Arith Lia.
Export ListNotations.
Open Scope string_scope.
Open Scope list_scope.

(* The harness prints every byte outside printable ASCII as [ch n]. *)
Definition ch (n : N) : string := String (ascii_of_N n) EmptyString.
Definition cat (l : list string) : string := String.concat "" l.

Definition nl : string := ch 10.

Fixpoint join (sep : string) (l : list string) : string :=
  match l with
  | [] => ""
  | [x] => x
  | x :: r => x ++ sep ++ join sep r
  end.

Definition str_eqb := String.eqb.

Lemma str_eqb_eq a b : str_eqb a b = true <-> a = b.
Proof. apply String.eqb_eq. Qed.

Lemma str_eqb_refl a : str_eqb a a = true.
Proof. apply String.eqb_refl. Qed.

Fixpoint list_eqb {A} (eqb : A -> A -> bool) (l1 l2 : list A) : bool :=
  match l1, l2 with
  | [], [] => true
  | x :: r1, y :: r2 => eqb x y && list_eqb eqb r1 r2
  | _, _ => false
  end.

Lemma list_eqb_eq {A} (eqb : A -> A -> bool) :
  (forall a b, eqb a b = true <-> a = b) ->
  forall l1 l2, list_eqb eqb l1 l2 = true <-> l1 = l2.
Proof.
  intros H l1. induction l1 as [|x r IH]; intros [|y r2]; simpl; split; intros E;
    try reflexivity; try discriminate.
  - apply andb_true_iff in E as [E1 E2]. apply H in E1. apply IH in E2. now subst.
  - inversion E; subst. apply andb_true_iff. split; [now apply H | now apply IH].
Qed.

Definition option_eqb {A} (eqb : A -> A -> bool) (a b : option A) : bool :=
  match a, b with
  | None, None => true
  | Some x, Some y => eqb x y
  | _, _ => false
  end.

Lemma option_eqb_eq {A} (eqb : A -> A -> bool) :
  (forall a b, eqb a b = true <-> a = b) ->
  forall a b, option_eqb eqb a b = true <-> a = b.
Proof.
  intros H [x|] [y|]; simpl; split; intros E; try reflexivity; try discriminate.
  - apply H in E. now subst.
  - inversion E. now apply H.
Qed.

(* indices of the elements on which [f] is false: used to list failing cases *)
Fixpoint bad_from {A} (f : A -> bool) (i : N) (l : list A) : list N :=
  match l with
  | [] => []
  | x :: r => if f x then bad_from f (N.succ i) r else i :: bad_from f (N.succ i) r
  end.
Definition bad_idx {A} (f : A -> bool) (l : list A) : list N := bad_from f 0%N l.

Lemma bad_from_nil {A} (f : A -> bool) l : forall i, bad_from f i l = [] <-> forallb f l = true.
Proof.
  induction l as [|x r IH]; intros i; simpl; [tauto|].
  destruct (f x); simpl; [apply IH|]. split; discriminate.
Qed.

(* decimal rendering of naturals (strconv.Itoa on non-negative ints) *)
Definition digit (n : N) : string := String (ascii_of_N (48 + n)) EmptyString.
Fixpoint dec_fuel (fuel : nat) (n : N) (acc : string) : string :=
  match fuel with
  | O => acc
  | S f => let acc' := (digit (n mod 10) ++ acc)%string in
           if N.ltb n 10 then acc' else dec_fuel f (n / 10) acc'
  end.
Definition dec (n : N) : string := dec_fuel 40 n "".
Definition dec_nat (n : nat) : string := dec (N.of_nat n).
Definition dec_Z (z : Z) : string := if Z.ltb z 0 then ("-" ++ dec (Z.to_N (- z)))%string else dec (Z.to_N z).
