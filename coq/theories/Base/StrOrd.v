(* String.leb (byte-wise lexicographic order, Go's < on strings) is a total order. *)
From Coq Require Import String Ascii NArith Lia Bool List.

Lemma ascii_cmp_spec a b :
  match Ascii.compare a b with
  | Eq => a = b
  | Lt => (N_of_ascii a < N_of_ascii b)%N
  | Gt => (N_of_ascii b < N_of_ascii a)%N
  end.
Proof.
  unfold Ascii.compare. destruct (N.compare_spec (N_of_ascii a) (N_of_ascii b)) as [E|L|G]; try assumption.
  rewrite <- (ascii_N_embedding a), <- (ascii_N_embedding b), E. reflexivity.
Qed.

Lemma ascii_cmp_refl a : Ascii.compare a a = Eq.
Proof. unfold Ascii.compare. apply N.compare_refl. Qed.

Lemma str_cmp_refl s : String.compare s s = Eq.
Proof. induction s as [|a s IH]; cbn; [reflexivity|]. now rewrite ascii_cmp_refl. Qed.

Lemma str_cmp_trans_le : forall a b c,
  String.compare a b <> Gt -> String.compare b c <> Gt -> String.compare a c <> Gt.
Proof.
  induction a as [|x a IH]; intros [|y b] [|z c]; cbn; try congruence.
  intros H1 H2.
  pose proof (ascii_cmp_spec x y) as S1. pose proof (ascii_cmp_spec y z) as S2. pose proof (ascii_cmp_spec x z) as S3.
  destruct (Ascii.compare x y) eqn:E1; destruct (Ascii.compare y z) eqn:E2; destruct (Ascii.compare x z) eqn:E3;
    subst; try congruence; try lia; try (rewrite ?ascii_cmp_refl in *; congruence); try (now apply (IH b c)).
Qed.

Lemma leb_trans a b c : String.leb a b = true -> String.leb b c = true -> String.leb a c = true.
Proof.
  unfold String.leb. intros H1 H2.
  assert (A : String.compare a b <> Gt) by (destruct (String.compare a b); congruence).
  assert (B : String.compare b c <> Gt) by (destruct (String.compare b c); congruence).
  pose proof (str_cmp_trans_le a b c A B) as C. destruct (String.compare a c); congruence.
Qed.

Lemma leb_refl a : String.leb a a = true.
Proof. unfold String.leb. now rewrite str_cmp_refl. Qed.

(* for distinct strings exactly one direction holds *)
Lemma leb_false_flip a b : String.leb a b = false -> String.leb b a = true.
Proof. intros H. destruct (String.leb_total a b) as [E|E]; congruence. Qed.
