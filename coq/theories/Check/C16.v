(* C16: the race-detector correspondence.  PARTIAL BY NATURE: a data race is an event
   of the Go memory model; no Gallina term exhibits one.  What the harness observes
   is the Go race detector's verdict and a comparison of every concurrent result with
   the sequential result, on a second binary built with -race.

   A case is one child process `vh-race c16stress <descriptor>`: it regenerates
   [c_progs] shared-object programs from [c_seed], and for each of them lets
   [c_goroutines] goroutines, released together by a barrier, run every operation
   [c_rounds] times against the SHARED objects (after VerifResetSourceState when
   [c_fresh_source], so that source reading is used for the first time concurrently).

   The model's prediction does not depend on the descriptor: by C16_no_conflict the
   model has no conflicting pair of accesses under any schedule, and by
   C16_results_schedule_independent / C16_cache_atomic every operation returns what it
   returns alone (a snippet: the true lines; the harness compares snippets of files
   that exist and do not change).  Hence [predicted] = (0 races, 0 mismatches), and
   here [corr] and [ok] coincide. *)
From Errdef Require Import Base.Str.

Record case := {
  c_seed : N;
  c_goroutines : N;
  c_rounds : N;
  c_progs : N;
  c_procs : N;             (* GOMAXPROCS of the child *)
  c_fresh_source : bool;
  c_built : bool;          (* the -race binary was built and the child ran to completion *)
  c_ops : N;               (* operation executions by all goroutines of the child *)
  c_races : N;             (* "WARNING: DATA RACE" reports *)
  c_mismatches : N         (* results differing from the sequential prediction (a crash counts) *)
}.

(* (races, mismatches) the model predicts for any descriptor *)
Definition predicted (c : case) : N * N := (0%N, 0%N).

(* specification on the observation: the run happened, did something, no race, no divergent result *)
Definition ok (c : case) : bool :=
  c_built c && N.ltb 0 (c_ops c) && N.eqb (c_races c) 0 && N.eqb (c_mismatches c) 0.

(* model = observation *)
Definition corr (c : case) : bool :=
  c_built c && N.ltb 0 (c_ops c)
  && N.eqb (c_races c) (fst (predicted c)) && N.eqb (c_mismatches c) (snd (predicted c)).

Definition bad_ok (cs : list case) : list N := bad_idx ok cs.
Definition bad_corr (cs : list case) : list N := bad_idx corr cs.
