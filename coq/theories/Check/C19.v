(* C19: slog values mirror the accessor view. *)
From Errdef Require Import Base.Str Model.Core Model.GoErrors Model.Prog Model.Tree0 Model.Slog Check.Render.

(* observed, fully resolved: LogValue() of the error, of each node of UnwrapTree(), of
   Stack() and of the head frame *)
Record obs1 := { o_subject : subject; o_err : sv; o_nodes : list sv; o_stack : option sv; o_head : option sv }.
Record case := { c_prog : list stmt; c_given : list rlit; c_obs : list obs1 }.

Definition frame_eqb (a b : frame) : bool :=
  str_eqb (fr_func a) (fr_func b) && str_eqb (fr_file a) (fr_file b) && Z.eqb (fr_line a) (fr_line b).

Fixpoint sv_eqb (a b : sv) : bool :=
  match a, b with
  | SVGroup l1, SVGroup l2 | SVMap l1, SVMap l2 =>
      (fix go (l1 l2 : list (string * sv)) : bool :=
         match l1, l2 with
         | [], [] => true
         | (k1, x) :: r1, (k2, y) :: r2 => str_eqb k1 k2 && sv_eqb x y && go r1 r2
         | _, _ => false
         end) l1 l2
  | SVStr x, SVStr y | SVVal x, SVVal y | SVStr x, SVVal y | SVVal x, SVStr y => str_eqb x y   (* slog stores Go strings natively *)
  | SVInt x, SVVal y | SVVal y, SVInt x => str_eqb (dec_Z x) y                                  (* and integers as int64 *)
  | SVInt x, SVInt y => Z.eqb x y
  | SVFrame f, SVFrame g => frame_eqb f g
  | SVFrames f, SVFrames g => list_eqb frame_eqb f g
  | SVList l1, SVList l2 =>
      (fix go (l1 l2 : list sv) : bool :=
         match l1, l2 with [], [] => true | x :: r1, y :: r2 => sv_eqb x y && go r1 r2 | _, _ => false end) l1 l2
  | _, _ => false
  end.

Definition model_obs (e : err) : sv * list sv * option sv * option sv :=
  (log_value e, map node_log_value (unwrap_tree e),
   match e_stack e with [] => None | fs => Some (SVFrames fs) end,
   match e_stack e with [] => None | f :: _ => Some (frame_sv f) end).

Definition corr1 (s : st) (given : list rlit) (o : obs1) : bool :=
  match subject_err s given (o_subject o) with
  | Some e =>
      let '(le, ln, ls, lh) := model_obs e in
      sv_eqb (o_err o) le && list_eqb sv_eqb (o_nodes o) ln &&
      option_eqb sv_eqb (o_stack o) ls && option_eqb sv_eqb (o_head o) lh
  | None => false
  end.
Definition corr (c : case) : bool :=
  let s := run (c_prog c) in prog_ok (c_prog c) && forallb (corr1 s (c_given c)) (c_obs c).

(* ---- specification: stated on the observation and the accessors ---- *)
Definition attr (k : string) (v : sv) : option sv :=
  match v with SVGroup attrs => option_map snd (find (fun a => str_eqb (fst a) k) attrs) | _ => None end.
Definition keys_of (v : sv) : list string := match v with SVGroup attrs => map fst attrs | _ => [] end.

Definition ok1 (s : st) (given : list rlit) (o : obs1) : bool :=
  match subject_err s given (o_subject o) with
  | Some e =>
      match (match e_def e with Some d => d_log d | None => None end) with
      | Some id => sv_eqb (o_err o) (custom_log id (err_msg e))      (* replaced for errors of that definition *)
      | None =>
          (* a group holding exactly: message, kind when non-empty, fields when any, origin when a stack exists *)
          list_eqb str_eqb (keys_of (o_err o))
            (["message"] ++ (if str_eqb (e_kind e) "" then [] else ["kind"])
                         ++ (match e_fields_all e with [] => [] | _ => ["fields"] end)
                         ++ (match e_stack e with [] => [] | _ => ["origin"] end)) &&
          option_eqb sv_eqb (attr "message" (o_err o)) (Some (SVStr (err_msg e))) &&
          (str_eqb (e_kind e) "" || option_eqb sv_eqb (attr "kind" (o_err o)) (Some (SVStr (e_kind e)))) &&
          (* the fields as name/value attributes in iteration order *)
          match e_fields_all e with
          | [] => true
          | all => option_eqb sv_eqb (attr "fields" (o_err o))
                     (Some (SVGroup (map (fun nv => (fst nv, SVVal (fv_plus (snd nv)))) all)))
          end &&
          (* origin = the head frame *)
          match e_stack e with
          | [] => true
          | f :: _ => option_eqb sv_eqb (attr "origin" (o_err o)) (Some (frame_sv f)) &&
                      option_eqb sv_eqb (o_head o) (Some (frame_sv f))
          end
      end &&
      (* stack: all frames; nodes: one per top-level cause *)
      option_eqb sv_eqb (o_stack o) (match e_stack e with [] => None | fs => Some (SVFrames fs) end) &&
      (* every node of the cause tree carries its full subtree *)
      list_eqb sv_eqb (o_nodes o) (map node_log_value (unwrap_tree e))
  | None => false
  end.
Definition ok (c : case) : bool :=
  let s := run (c_prog c) in prog_ok (c_prog c) && forallb (ok1 s (c_given c)) (c_obs c).

Definition bad_ok (cs : list case) : list N := bad_idx ok cs.
Definition bad_corr (cs : list case) : list N := bad_idx corr cs.
