(* C11: case format written by the harness, the oracle [ok] (the property's
   specification evaluated on what the implementation did, with exact integer /
   dyadic arithmetic on the IEEE bit patterns; nothing of Model/Convert.v's
   conversion functions is used) and the correspondence [corr]
   (Model.Convert.try_convert = observed). *)
From Coq Require Import ZArith Bool.
From Errdef Require Import Base.Str Base.Outcome Model.Convert.
Local Open Scope Z_scope.

(* a typed value as seen through the typed extractor / Fields().Get(key).Value():
   a scalar of type t, or a pointer (type id) to a scalar of type t *)
Inductive tval := TV (t : sty) (v : sval) | TP (id : N) (t : sty) (v : sval).

Inductive obs :=
| OBound (v : tval)              (* bound; not among the unknown fields *)
| ODeclined (unk : option dval)  (* not bound; what UnknownFields() holds under the field's name *)
| OFailed                        (* Unmarshal returned an error *)
| OPanicked                      (* Unmarshal panicked *)
| OWeird.                        (* inconsistent views (bound and unknown, extractor differs from Fields().Get ...) *)

Record case := { c_target : fty; c_src : dval; c_obs : obs }.

(* short form used by the harness *)
Definition st (id : N) (k : skind) : sty := {| s_id := id; s_kind := k |}.

(* ---------- equality ---------- *)
Definition sty_eqb (a b : sty) : bool := N.eqb (s_id a) (s_id b) && skind_eqb (s_kind a) (s_kind b).
Definition sval_eqb (a b : sval) : bool :=
  match a, b with
  | SBool x, SBool y => Bool.eqb x y
  | SStr x, SStr y => str_eqb x y
  | SInt x, SInt y => Z.eqb x y
  | SF32 x, SF32 y => Z.eqb x y
  | SF64 x, SF64 y => Z.eqb x y
  | _, _ => false
  end.
Definition tval_eqb (a b : tval) : bool :=
  match a, b with
  | TV t v, TV t' v' => sty_eqb t t' && sval_eqb v v'
  | TP i t v, TP i' t' v' => N.eqb i i' && sty_eqb t t' && sval_eqb v v'
  | _, _ => false
  end.
(* only nil and scalars occur as sources of C11 cases *)
Definition dval_eqb (a b : dval) : bool :=
  match a, b with
  | DNil, DNil => true
  | DS t v, DS t' v' => sty_eqb t t' && sval_eqb v v'
  | _, _ => false
  end.
Definition obs_eqb (a b : obs) : bool :=
  match a, b with
  | OBound x, OBound y => tval_eqb x y
  | ODeclined x, ODeclined y => option_eqb dval_eqb x y
  | OFailed, OFailed | OPanicked, OPanicked => true
  | _, _ => false      (* OWeird equals nothing, not even itself *)
  end.

(* ---------- IEEE-754 bit patterns, decoded with integer arithmetic ---------- *)
Inductive fdec := FNan | FInf (s : bool) | FFin (s : bool) (m e : Z).  (* (-1)^s * m * 2^e, m >= 0 *)

Definition fmt_emin (mw ew : Z) : Z := 3 - 2 ^ (ew - 1) - (mw + 1).

Definition decode (mw ew : Z) (b : Z) : fdec :=
  let mm := 2 ^ mw in let em := 2 ^ ew in
  let s := mm * em <=? b in
  let m := b mod mm in
  let ex := (b / mm) mod em in
  if ex =? 0 then FFin s m (fmt_emin mw ew)
  else if ex =? em - 1 then (if m =? 0 then FInf s else FNan)
  else FFin s (m + mm) (ex + fmt_emin mw ew - 1).
Definition dec64 := decode 52 11.
Definition dec32 := decode 23 8.

Definition is_nan_bits (mw ew : Z) (b : Z) : bool := match decode mw ew b with FNan => true | _ => false end.

(* every NaN is reported as the one quiet NaN *)
Definition canon_sval (v : sval) : sval :=
  match v with
  | SF32 b => if is_nan_bits 23 8 b then SF32 nan32_bits else v
  | SF64 b => if is_nan_bits 52 11 b then SF64 nan64_bits else v
  | _ => v
  end.
Definition canon_tval (v : tval) : tval :=
  match v with TV t x => TV t (canon_sval x) | TP i t x => TP i t (canon_sval x) end.
Definition canon_dval (v : dval) : dval := match v with DS t x => DS t (canon_sval x) | _ => v end.

(* ---------- the specification ---------- *)
Definition sgn (s : bool) (z : Z) : Z := if s then - z else z.

(* exact integer value of the dyadic (-1)^s m 2^e, if it is an integer *)
Definition fin_int (s : bool) (m e : Z) : option Z :=
  if 0 <=? e then Some (sgn s (m * 2 ^ e))
  else if m mod 2 ^ (- e) =? 0 then Some (sgn s (m / 2 ^ (- e))) else None.

Definition is_int_kind (k : skind) : bool := is_signed k || is_unsigned k.
Definition in_range (k : skind) (z : Z) : bool := (int_min k <=? z) && (z <=? int_max k).

(* m 2^e <= m' 2^e' *)
Definition mag_le (m e m' e' : Z) : bool :=
  let E := Z.min e e' in m * 2 ^ (e - E) <=? m' * 2 ^ (e' - E).

(* math.MaxFloat32 = (2^24 - 1) 2^104 *)
Definition max32_m : Z := 16777215.
Definition max32_e : Z := 104.

(* a >= 0 has at most prec significant bits *)
Definition fits (prec a : Z) : bool :=
  if a =? 0 then true else
  let k := Z.log2 a + 1 - prec in if k <=? 0 then true else a mod 2 ^ k =? 0.

(* [m' 2^e'] (canonical in the format with precision prec and minimal exponent emin)
   is the round-to-nearest, ties-to-even, value of [m 2^e]: twice the distance is at
   most the gap to the neighbour on that side, and in a tie m' is even *)
Definition nearest_mag (prec emin m e m' e' : Z) : bool :=
  let E := Z.min e (e' - 1) in
  let X := m * 2 ^ (e - E) in
  let R := m' * 2 ^ (e' - E) in
  let U := 2 ^ (e' - E) in
  let D := if (m' =? 2 ^ (prec - 1)) && (emin <? e') then 2 ^ (e' - 1 - E) else U in
  if R <=? X then (2 * (X - R) <? U) || ((2 * (X - R) =? U) && Z.even m')
  else (2 * (R - X) <? D) || ((2 * (R - X) =? D) && Z.even m').

Definition round_ok (mw ew : Z) (s : bool) (m e : Z) (r : Z) : bool :=
  match decode mw ew r with
  | FFin s' m' e' => Bool.eqb s s' && nearest_mag (mw + 1) (fmt_emin mw ew) m e m' e'
  | _ => false
  end.

Inductive expect :=
| XDecline
| XBind (v : tval)                                 (* exactly this typed value *)
| XRound32 (t : sty) (s : bool) (m e : Z)          (* the binary32 nearest (ties to even) to (-1)^s m 2^e, as type t *)
| XRound64 (t : sty) (s : bool) (m e : Z).

Definition spec_f64 (t : sty) (bits : Z) : expect :=
  let k := s_kind t in
  if is_int_kind k then
    match dec64 bits with
    | FFin s m e =>
        match fin_int s m e with
        | Some z => if in_range k z then XBind (TV t (SInt z)) else XDecline
        | None => XDecline
        end
    | _ => XDecline
    end
  else match k with
  | KFloat32 =>
      match dec64 bits with
      | FNan => XBind (TV t (SF32 nan32_bits))
      | FInf _ => XDecline
      | FFin s m e => if mag_le m e max32_m max32_e then XRound32 t s m e else XDecline
      end
  | KFloat64 => XBind (TV t (SF64 bits))
  | _ => XDecline
  end.

Definition spec_i64 (t : sty) (z : Z) : expect :=
  let k := s_kind t in
  if is_int_kind k then (if in_range k z then XBind (TV t (SInt z)) else XDecline)
  else match k with
  | KFloat32 => if fits 24 (Z.abs z) then XRound32 t (z <? 0) (Z.abs z) 0 else XDecline
  | KFloat64 => XRound64 t (z <? 0) (Z.abs z) 0
  | _ => XDecline
  end.

Definition spec (T : fty) (v : dval) : expect :=
  match T, v with
  | FIface _, DS t sv => XBind (TV t sv)
  | FScalar t, DS vt sv =>
      if N.eqb (s_id t) (s_id vt) then XBind (TV vt sv)
      else match sv with
      | SF64 b => if N.eqb (s_id vt) 13 then spec_f64 t b
                  else if skind_eqb (s_kind t) (s_kind vt) then XBind (TV t sv) else XDecline
      | SInt z => if N.eqb (s_id vt) 6 then spec_i64 t z
                  else if skind_eqb (s_kind t) (s_kind vt) then XBind (TV t sv) else XDecline
      | _ => if skind_eqb (s_kind t) (s_kind vt) then XBind (TV t sv) else XDecline
      end
  | FPtr id elem, DS vt sv =>
      if N.eqb id (s_id vt) then XBind (TV vt sv)     (* cannot happen for well-formed cases *)
      else if skind_eqb (s_kind elem) (s_kind vt) then XBind (TP id elem sv) else XDecline
  | _, _ => XDecline
  end.

(* ---------- well-formed cases ---------- *)
Definition sval_ok (k : skind) (v : sval) : bool :=
  match k, v with
  | KBool, SBool _ | KString, SStr _ => true
  | KFloat32, SF32 b => (0 <=? b) && (b <? two32)
  | KFloat64, SF64 b => (0 <=? b) && (b <? two64)
  | _, SInt z => is_int_kind k && in_range k z
  | _, _ => false
  end.
Definition ids_ok (t : sty) : bool :=
  (* the two ids the converter switches on denote float64 and int64 *)
  (if N.eqb (s_id t) 13 then skind_eqb (s_kind t) KFloat64 else true) &&
  (if N.eqb (s_id t) 6 then skind_eqb (s_kind t) KInt64 else true).
Definition in_domain (c : case) : bool :=
  match c_target c with
  | FScalar t => ids_ok t
  | FPtr id e => ids_ok e && negb (N.eqb id 13) && negb (N.eqb id 6)
  | FIface _ => true
  | _ => false
  end &&
  match c_src c with
  | DNil => true
  | DS t v => ids_ok t && sval_ok (s_kind t) v &&
      (* one type id, one kind *)
      match c_target c with
      | FScalar t' => if N.eqb (s_id t) (s_id t') then skind_eqb (s_kind t) (s_kind t') else true
      | FPtr id e => negb (N.eqb id (s_id t)) && (if N.eqb (s_id t) (s_id e) then skind_eqb (s_kind t) (s_kind e) else true)
      | _ => true
      end
  | _ => false
  end.

Definition check (c : case) : bool :=
  match spec (c_target c) (c_src c), c_obs c with
  | XDecline, ODeclined (Some u) => dval_eqb u (canon_dval (c_src c))
  | XBind v, OBound o => tval_eqb o (canon_tval v)
  | XRound32 t s m e, OBound (TV t' (SF32 r)) => sty_eqb t t' && round_ok 23 8 s m e r
  | XRound64 t s m e, OBound (TV t' (SF64 r)) => sty_eqb t t' && round_ok 52 11 s m e r
  | _, _ => false
  end.

Definition ok (c : case) : bool := in_domain c && check c.

(* ---------- model side ---------- *)
Definition view (b : bval) : option tval :=
  match b with
  | BSame (DS t v) | BScalar t v => Some (TV t v)
  | BPtr id t v => Some (TP id t v)
  | _ => None
  end.

Definition model (c : case) : obs :=
  match try_convert (c_target c) (c_src c) with
  | Ok (Some b) => match view b with Some v => OBound (canon_tval v) | None => OWeird end
  | Ok None => ODeclined (Some (canon_dval (c_src c)))      (* unmarshaler.go: unknownFields[name] = value *)
  | Fail _ => OFailed
  | Panic _ => OPanicked
  end.

Definition corr (c : case) : bool := obs_eqb (c_obs c) (model c).

(* the known defect K6: float64 2^63 to int/int64, 2^64 to uint/uint64 *)
Definition bits_two63 : Z := 4890909195324358656.   (* 0x43E0000000000000 *)
Definition bits_two64 : Z := 4895412794951729152.   (* 0x43F0000000000000 *)
Definition k6_boundary (c : case) : bool :=
  match c_target c, c_src c with
  | FScalar t, DS vt (SF64 b) =>
      N.eqb (s_id vt) 13 && negb (N.eqb (s_id t) 13) &&
      match s_kind t with
      | KInt | KInt64 => b =? bits_two63
      | KUint | KUint64 => b =? bits_two64
      | _ => false
      end
  | _, _ => false
  end.

Definition bad_ok (cs : list case) : list N := bad_idx ok cs.
Definition bad_corr (cs : list case) : list N := bad_idx corr cs.
