(* C14: case format written by the harness, the oracle [ok] (specification
   evaluated on what the implementation returned) and the correspondence
   [corr] (model evaluated on the same input). *)
From Errdef Require Import Base.Str Base.Outcome Model.Value Model.Resolver Model.ResolverGen Proofs.ResolverProofs.

Inductive pred := PTrue | PFalse | PIntGt (z : Z) | PStrEq (s : string).
Inductive lookup :=
| LKind (k : string)
| LKindOrDefault (k : string)
| LField (key : N) (want : rv)
| LFieldOrDefault (key : N) (want : rv)
| LFieldFunc (key : N) (p : pred)
| LFieldFuncOrDefault (key : N) (p : pred).

(* observation: identity of the definition returned, not-found, or a Go panic *)
Inductive res := RNotFound | RFound (id : N) | RPanic.

Record case := { c_defs : list rdef; c_default : rdef; c_lookup : lookup; c_obs : res }.

Definition res_eqb (a b : res) : bool :=
  match a, b with
  | RNotFound, RNotFound | RPanic, RPanic => true
  | RFound x, RFound y => N.eqb x y
  | _, _ => false
  end.

Definition res_of (o : option rdef) : res :=
  match o with Some d => RFound (rd_id d) | None => RNotFound end.
Definition res_of_out (o : outcome (option rdef)) : res :=
  match o with Ok x => res_of x | _ => RPanic end.
Definition res_dflt (dflt : rdef) (r : res) : res :=
  match r with RNotFound => RFound (rd_id dflt) | _ => r end.

Definition eval_pred (p : pred) (v : rv) : bool :=
  match p, v with
  | PTrue, _ => true
  | PFalse, _ => false
  | PIntGt z, RInt _ x => Z.ltb z x
  | PStrEq s, RStr _ x => str_eqb s x
  | _, _ => false
  end.

(* ---- model side ---- *)
(* the functions evaluated here are the interpreters of Gen/ResolverSrc.v (Model/ResolverGen.v) *)
Definition res_of_rdef (o : outcome rdef) : res := match o with Ok d => RFound (rd_id d) | _ => RPanic end.
Definition model (c : case) : res :=
  let r := g_new_resolver (c_defs c) in
  match c_lookup c with
  | LKind k => res_of (g_resolve_kind r k)
  | LKindOrDefault k => RFound (rd_id (g_resolve_kind_or_default r (c_default c) k))
  | LField key w => res_of_out (g_resolve_field r key w)
  | LFieldOrDefault key w => res_of_rdef (g_resolve_field_or_default r (c_default c) key w)
  | LFieldFunc key p => res_of_out (g_resolve_field_func r key (fun _ v => Ok (eval_pred p v)))
  | LFieldFuncOrDefault key p =>
      res_of_rdef (g_resolve_field_func_or_default r (c_default c) key (fun _ v => Ok (eval_pred p v)))
  end.

(* ---- specification side: "first in registration order", nothing else ---- *)
Definition spec_func (defs : list rdef) (key : N) (p : pred) : option rdef :=
  find (fun d => match rd_get d key with Some (_, v) => eval_pred p v | None => false end) defs.

Definition spec (c : case) : res :=
  match c_lookup c with
  | LKind k => res_of (spec_kind (c_defs c) k)
  | LKindOrDefault k => res_dflt (c_default c) (res_of (spec_kind (c_defs c) k))
  | LField key w => res_of (spec_field (c_defs c) key w)
  | LFieldOrDefault key w => res_dflt (c_default c) (res_of (spec_field (c_defs c) key w))
  | LFieldFunc key p => res_of (spec_func (c_defs c) key p)
  | LFieldFuncOrDefault key p => res_dflt (c_default c) (res_of (spec_func (c_defs c) key p))
  end.

(* boolean versions of the guards of the theorems *)
Definition fields_okb (d : rdef) : bool :=
  forallb (fun kv => stored_ok (fst (snd kv)) (snd (snd kv))) (rd_fields d).
Definition lookup_okb (l : lookup) : bool :=
  match l with
  | LField _ w | LFieldOrDefault _ w => want_ok w
  | _ => true
  end.
Definition in_domain (c : case) : bool :=
  forallb fields_okb (c_defs c) && lookup_okb (c_lookup c).

Definition ok (c : case) : bool := negb (in_domain c) || res_eqb (c_obs c) (spec c).
Definition corr (c : case) : bool := res_eqb (c_obs c) (model c).

Definition bad_ok (cs : list case) : list N := bad_idx ok cs.
Definition bad_corr (cs : list case) : list N := bad_idx corr cs.
