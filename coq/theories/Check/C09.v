(* C09: JSON round trip restores identity, data and structure. *)
From Errdef Require Import Base.Str Base.Outcome Model.Core Model.GoErrors Model.Prog Model.Tree0 Model.Json
  Model.Convert Model.Unmarshal Model.Decode Check.UM.

(* the shape of a cause tree with messages; foreign nodes carry their type name *)
Inductive shape := Sh (msg : string) (ty : string) (kids : list shape).

(* a snapshot of what the property compares *)
Record snap := {
  sn_msg : string; sn_kind : string;
  sn_is : list bool;                  (* errors.Is against every registered definition *)
  sn_sent : list bool;                (* errors.Is against every registered sentinel *)
  sn_ext : list (bool * string);      (* the original typed extractors: found, value *)
  sn_frames : list frame;
  sn_tree : list shape
}.

Record obs1 := {
  o_subject : nat;                    (* pool index of the error that was marshaled *)
  o_class : string;                   (* "ok", "marshal-error", or the Unmarshal failure class / "panic" *)
  o_orig : snap;
  o_rest : option snap;
  o_orerr : option orerr              (* the restored error in the format of the unmarshaler checks *)
}.
Record case := { c_prog : list stmt; c_cfg : ucfg; c_vtab : vtab; c_obs : list (obs1 * list string);
                 c_options : bool
                   (* two fixed round trips on the real library, compared by the harness alone: an error carrying
                      EVERY built-in field except LogLevel (K2) through strict mode + WithBuiltinFields (all built-in
                      extractors and Details give the original values), and D.Join(io.EOF, a, b) through
                      WithStandardSentinelErrors + WithSentinelErrors(a) + WithSentinelErrors(b) (errors.Is keeps
                      all three) *) }.

Fixpoint shape_eqb (a b : shape) : bool :=
  match a, b with
  | Sh m t ks, Sh m' t' ks' =>
      str_eqb m m' && str_eqb t t' &&
      (fix go (l1 l2 : list shape) : bool :=
         match l1, l2 with [], [] => true | x :: r1, y :: r2 => shape_eqb x y && go r1 r2 | _, _ => false end) ks ks'
  end.
Definition frame_eqb (a b : frame) : bool :=
  str_eqb (fr_func a) (fr_func b) && str_eqb (fr_file a) (fr_file b) && Z.eqb (fr_line a) (fr_line b).
Definition bs_eqb (a b : bool * string) : bool := Bool.eqb (fst a) (fst b) && str_eqb (snd a) (snd b).
Definition snap_eqb (a b : snap) : bool :=
  str_eqb (sn_msg a) (sn_msg b) && str_eqb (sn_kind a) (sn_kind b) &&
  list_eqb Bool.eqb (sn_is a) (sn_is b) &&
  (* every registered sentinel that was reachable stays reachable *)
  Nat.eqb (List.length (sn_sent a)) (List.length (sn_sent b)) &&
  forallb (fun p => implb (fst p) (snd p)) (combine (sn_sent a) (sn_sent b)) &&
  list_eqb bs_eqb (sn_ext a) (sn_ext b) && list_eqb frame_eqb (sn_frames a) (sn_frames b) &&
  list_eqb shape_eqb (sn_tree a) (sn_tree b).

(* ---- specification: the round trip succeeds and the two snapshots are equal ---- *)
Definition ok1 (ou : obs1 * list string) : bool :=
  let o := fst ou in
  str_eqb (o_class o) "ok" && match o_rest o with Some r => snap_eqb (o_orig o) r | None => false end.
Definition ok (c : case) : bool := forallb ok1 (c_obs c) && c_options c.

(* ---- model: marshal, decode, unmarshal ---- *)
Definition model_roundtrip (cfg : ucfg) (t : vtab) (unks : list string) (e : err) : option (ures rerr) :=
  match marshal_error e with
  | Ok doc => Some (unmarshal cfg (fst (decode t doc unks)))
  | _ => None
  end.

Definition corr1 (s : st) (cfg : ucfg) (t : vtab) (ou : obs1 * list string) : bool :=
  let o := fst ou in
  match nth (o_subject o) (s_errs s) None with
  | None => false
  | Some e =>
      match model_roundtrip cfg t (snd ou) e with
      | None => str_eqb (o_class o) "marshal-error"
      | Some (UOk r) => str_eqb (o_class o) "ok" &&
                        match o_orerr o with Some oe => orerr_eqb oe (orerr_of r) | None => false end
      | Some (UFail fs) => existsb (fun f => str_eqb (o_class o) (fl_class f)) fs
      | Some (UPanic _) => str_eqb (o_class o) "panic"
      end
  end.
Definition corr (c : case) : bool :=
  let s := run (c_prog c) in prog_ok (c_prog c) && forallb (corr1 s (c_cfg c) (c_vtab c)) (c_obs c).

Definition bad_ok (cs : list case) : list N := bad_idx ok cs.
Definition bad_corr (cs : list case) : list N := bad_idx corr cs.
