(* C17: Recover converts exactly the panics of its callback. *)
From Errdef Require Import Base.Str Model.Core Model.GoErrors Model.Prog Check.C02.

(* observation for one top-level Recover statement *)
Record obs1 := {
  o_escaped : bool;      (* a panic left Recover *)
  o_res : Z;             (* -2 nil; index of an EARLIER pool error when the result is that very value; -1 fresh error *)
  o_kind : string;       (* Kind() of a fresh result *)
  o_msg : string;
  o_pv : Z * Z;          (* PanicError found by errors.As: (0,_) none, (1,pool index of the error value), (2,id of the other value) *)
  o_is_v : bool          (* errors.Is(result, v) when v is an error in the pool, else false *)
}.
Record case := { c_prog : list stmt; c_obs : list obs1 }.

Definition pv_of (pool : list (option err)) (r : err) : Z * Z :=
  match as_first is_panic_error r with
  | Some (EPanic _ _ id (Some x)) => (1, idx_of pool x)%Z
  | Some (EPanic _ _ id None) => (2, Z.of_N id)%Z
  | _ => (0, 0)%Z
  end.

Definition is_v pool (r : err) : bool :=
  match as_first is_panic_error r with
  | Some (EPanic _ _ _ (Some x)) => Z.leb 0 (idx_of pool x) && errors_is r x
  | _ => false
  end.

(* [before]: pool before the statement; [r]: what Recover returned *)
Definition describe (before : list (option err)) (r : option err) : obs1 :=
  match r with
  | None => {| o_escaped := false; o_res := (-2)%Z; o_kind := ""; o_msg := ""; o_pv := (0, 0)%Z; o_is_v := false |}
  | Some e =>
      let i := idx_of before e in
      {| o_escaped := false; o_res := i;
         o_kind := match e with EDef _ d _ _ _ _ => if Z.ltb i 0 then d_kind d else "" | _ => "" end;
         o_msg := err_msg e; o_pv := pv_of before e; o_is_v := is_v before e |}
  end.

Definition obs_eqb (a b : obs1) : bool :=
  Bool.eqb (o_escaped a) (o_escaped b) && Z.eqb (o_res a) (o_res b) && str_eqb (o_kind a) (o_kind b) &&
  str_eqb (o_msg a) (o_msg b) && Z.eqb (fst (o_pv a)) (fst (o_pv b)) && Z.eqb (snd (o_pv a)) (snd (o_pv b)) &&
  Bool.eqb (o_is_v a) (o_is_v b).

Definition is_recover (x : stmt) : bool := match x with SRecover _ _ _ => true | _ => false end.
Definition recover_trace (p : list stmt) : list (st * stmt) :=
  filter (fun sx => is_recover (snd sx)) (trace_from st0 p).

(* ---- model: what the statement appended ---- *)
Definition model1 (sx : st * stmt) : obs1 :=
  describe (s_errs (fst sx)) (last (s_errs (step (fst sx) (snd sx))) None).

(* ---- specification: the big-step meaning of the callback decides ---- *)
Definition spec1 (sx : st * stmt) : obs1 :=
  let s := fst sx in
  match snd sx with
  | SRecover f c stk =>
      match eval_cb s c (s_next s) with
      | (Normal r, _) => describe (s_errs s) r                 (* the callback's own result, unchanged *)
      | (Panicking v, n) =>                                    (* a fresh error of the receiver wrapping v *)
          {| o_escaped := false; o_res := (-1)%Z; o_kind := d_kind (get_def s f);
             o_msg := ("panic: " ++ pv_msg v)%string;
             o_pv := match v with PVErr x => (1, idx_of (s_errs s) x)%Z | PVOther id _ => (2, Z.of_N id)%Z end;
             o_is_v := match v with PVErr x => Z.leb 0 (idx_of (s_errs s) x) | PVOther _ _ => false end |}
      end
  | _ => describe [] None
  end.

Definition ok (c : case) : bool :=
  prog_ok (c_prog c) && list_eqb obs_eqb (c_obs c) (map spec1 (recover_trace (c_prog c))).
Definition corr (c : case) : bool :=
  prog_ok (c_prog c) && list_eqb obs_eqb (c_obs c) (map model1 (recover_trace (c_prog c))).

Definition bad_ok (cs : list case) : list N := bad_idx ok cs.
Definition bad_corr (cs : list case) : list N := bad_idx corr cs.
