(* C15: case format written by the harness, the oracle [ok] (specification evaluated
   on what the implementation printed) and the correspondence [corr] (the model's
   rendering against the observed text).

   One case = one rendering.  The harness builds the same error twice, with two
   different random markers as the secret, runs one sink on both, and records the
   two outputs after (i) replacing every address it knows (in every base) by "PTR"
   and every remaining 0x... number by "0xPTR", (ii) replacing a marker by "<MARK>"
   wherever it occurs.  An output without "<MARK>" is therefore an output without
   the secret.

   Boundary cases that the statement of C15 does not cover; [inside] is false for
   them, [ok] does not judge them (the model still has to predict their text):
     - a Redacted value in an UNEXPORTED struct field: fmt prints it by reflection;
     - a pointer to a composite BELOW depth 0 under a verb that is invalid for
       pointers: fmt's bad-verb path re-prints the pointee with methods disabled.
   Never generated (same bad-verb mechanism, recorded in DESIGN.md): formatting a
   FieldValue wrapper itself instead of its Value(); a verb that is invalid for
   pointers applied to the fields collection. *)
From Errdef Require Import Base.Str Model.Redact.

Inductive ftarget := FErr | FTree | FNode | FValue | FFields.
Inductive otarget := OErr | OFields | ONode | OTreeNode | OStack | OValue.

Inductive sink :=
| SFmt (t : ftarget) (sp : fspec)     (* fmt.Sprintf(directive, target) *)
| SJson (t : otarget)                 (* json.Marshal(target) *)
| SXml (t : otarget)
| SGob (t : otarget)
| SText | SBinary                     (* MarshalText / MarshalBinary of the wrapper *)
| SLogText (t : otarget)              (* slog.TextHandler *)
| SLogJson (t : otarget)              (* slog.JSONHandler *)
| SRestored (s : sink)                (* the sink on the error restored by unmarshaler.NewJSON *)
| SRtSlots                            (* name=T (typed) or name=U:<json> (unknown) per field of the restored carrier *)
| SRtError                            (* text of the error returned by Unmarshal *)
| SValueStill                         (* "true" iff Value() of the original wrapper is still the secret *)
| SUnenc (t : otarget).               (* json.Marshal(target) when the harness has put a value that encoding/json
                                         rejects (NaN, +Inf, a func, a chan) BESIDE the described value, in the same
                                         field: {"v": <value>, "zz": <rejected>} under the key "v" / one more entry
                                         of the Details map.  The text (encoding/json's error on the unchanged
                                         tree) is not modelled; the outputs must be free of the secret. *)

Record case := {
  c_fields : fields;      (* fields of the carrying error, All() order, secrets as marker ids *)
  c_last : Z;             (* its lastIndex *)
  c_sec : nat;            (* which field is under study (FValue / OValue / SText / SBinary) *)
  c_pos : nat;            (* the carrier is 0: the receiver, 1: its wrapped cause, 2: a joined cause *)
  c_trace : bool;         (* the errors carry a stack trace *)
  c_sink : sink;
  c_out1 : string;        (* output of the run with marker 1 *)
  c_out2 : string         (* output of the run with marker 2 *)
}.

Definition the_val (c : case) : val :=
  match nth_error (c_fields c) (c_sec c) with Some kv => snd kv | None => VBool false end.
Definition carrier (c : case) : err := EDef "m" "d" (c_fields c) (c_last c) [].
Definition top_err (c : case) : err :=
  match c_pos c with
  | 0%nat => carrier c
  | 1%nat => EDef "m" "e" [] 0 [carrier c]
  | _ => EDef (cat ["plain"; nl; "m"]) "e" [] 0 [EOther "plain" "*errors.errorString" []; carrier c]
  end.

(* ------------------------------------------------------------------ *)
(* which cases the statement covers                                    *)

(* a Redacted value at a position that fmt reaches without methods (below an
   unexported struct field) *)
Fixpoint hidden_redacted (meth : bool) (v : val) : bool :=
  match v with
  | VRedacted _ => negb meth
  | VStruct _ fs =>
      (fix go (fs : list (string * bool * val)) : bool :=
         match fs with [] => false | (_, ex, x) :: r => hidden_redacted (meth && ex) x || go r end) fs
  | VMap _ kvs =>
      (fix go (kvs : list (string * val)) : bool :=
         match kvs with [] => false | (_, x) :: r => hidden_redacted meth x || go r end) kvs
  | VSlice l =>
      (fix go (l : list val) : bool :=
         match l with [] => false | x :: r => hidden_redacted meth x || go r end) l
  | VPtr x | VIface x => hidden_redacted meth x
  | VFields fs _ _ =>
      (fix go (fs : list (fkey * val)) : bool :=
         match fs with [] => false | (_, x) :: r => hidden_redacted true x || go r end) fs
  | _ => false
  end.

(* no pointer to a composite below depth 0 (a pointer to a Redacted value is
   handled by the pointer's own Format method and is fine) *)
Fixpoint ptrs_guarded (top : bool) (v : val) : bool :=
  match v with
  | VStruct _ fs =>
      (fix go (fs : list (string * bool * val)) : bool :=
         match fs with [] => true | (_, ex, x) :: r => (negb ex || ptrs_guarded false x) && go r end) fs
  | VMap _ kvs =>
      (fix go (kvs : list (string * val)) : bool :=
         match kvs with [] => true | (_, x) :: r => ptrs_guarded false x && go r end) kvs
  | VSlice l =>
      (fix go (l : list val) : bool :=
         match l with [] => true | x :: r => ptrs_guarded false x && go r end) l
  | VPtr x =>
      if is_redacted x then true
      else if composite x then top && ptrs_guarded false x
      else true
  | VIface x => ptrs_guarded false x
  | VFields _ _ _ => false
  | _ => true
  end.

Definition fields_hidden (fs : fields) : bool := existsb (fun kv => hidden_redacted true (snd kv)) fs.

Fixpoint sink_outside (c : case) (s : sink) : bool :=
  match s with
  | SFmt FValue sp => negb (ptr_valid (f_verb sp)) && negb (ptrs_guarded true (the_val c))
  | SFmt FFields sp => negb (ptr_valid (f_verb sp))
  | SRestored s' => sink_outside c s'
  | _ => false
  end.

Definition inside (c : case) : bool :=
  negb (fields_hidden (c_fields c)) && negb (sink_outside c (c_sink c)).

(* ------------------------------------------------------------------ *)
(* specification                                                       *)

(* number of Redacted values that a sink reaches through their methods.
   [deref]: the sink follows pointers (json); otherwise only a pointer at depth 0 (fmt) *)
Fixpoint n_shown (deref meth top : bool) (v : val) : nat :=
  match v with
  | VRedacted _ => if meth then 1%nat else 0%nat
  | VStruct _ fs =>
      (fix go (fs : list (string * bool * val)) : nat :=
         match fs with
         | [] => 0%nat
         | (_, ex, x) :: r =>
             ((if deref && negb ex then 0 else n_shown deref (meth && ex) false x) + go r)%nat
         end) fs
  | VMap _ kvs =>
      (fix go (kvs : list (string * val)) : nat :=
         match kvs with [] => 0%nat | (_, x) :: r => (n_shown deref meth false x + go r)%nat end) kvs
  | VSlice l =>
      (fix go (l : list val) : nat :=
         match l with [] => 0%nat | x :: r => (n_shown deref meth false x + go r)%nat end) l
  | VPtr x =>
      if meth && is_redacted x then 1%nat
      else if deref || (top && composite x) then n_shown deref meth false x
      else 0%nat
  | VIface x => n_shown deref meth false x
  | _ => 0%nat
  end.

Definition shown_text (v : val) : nat := n_shown false true true v.
Definition shown_json (v : val) : nat := n_shown true true true v.
Definition sum_fields (f : val -> nat) (fs : fields) : nat :=
  fold_right (fun kv acc => (f (snd kv) + acc)%nat) 0%nat fs.

Definition is_plusv (sp : fspec) : bool := is_v (f_verb sp) && f_plus sp.

(* how many placeholders the output must show; None: the statement does not say *)
Definition expected (c : case) : option nat :=
  let fs := c_fields c in
  let top := Nat.eqb (c_pos c) 0 in
  match c_sink c with
  | SFmt FValue _ => Some (shown_text (the_val c))
  | SFmt FErr sp => if is_plusv sp then Some (sum_fields shown_text fs) else None
  | SFmt _ _ => None
  | SJson OErr | SJson ONode | SJson OTreeNode | SJson OFields => Some (sum_fields shown_json fs)
  | SJson OValue => Some (shown_json (the_val c))
  | SJson OStack => Some 0%nat
  | SText | SBinary => Some 1%nat
  | SLogText OErr => Some (if top then sum_fields shown_text fs else 0%nat)
  | SLogJson OErr => Some (if top then sum_fields shown_json fs else 0%nat)
  | SLogText OFields | SLogText OTreeNode => Some (sum_fields shown_text fs)
  | SLogJson OFields | SLogJson OTreeNode => Some (sum_fields shown_json fs)
  | SLogText ONode => Some (if top then sum_fields shown_text fs else 0%nat)   (* causes: addresses only *)
  | SLogJson ONode => Some (sum_fields shown_json fs)
  | SLogText OValue => Some (shown_text (the_val c))
  | SLogJson OValue => Some (shown_json (the_val c))
  | SLogText OStack | SLogJson OStack => Some 0%nat
  | SRestored (SFmt FErr sp) => if is_plusv sp then Some (sum_fields shown_json fs) else None
  | SRestored (SJson OErr) => Some (sum_fields shown_json fs)
  | _ => None
  end.

Definition direct (v : val) : bool :=
  match v with VRedacted _ | VPtr (VRedacted _) => true | _ => false end.

Definition sec_name (c : case) : string :=
  match nth_error (c_fields c) (c_sec c) with Some kv => k_name (fst kv) | None => "" end.

(* no secret: neither marker occurs, and the two runs cannot be told apart *)
Definition ok_secret (c : case) : bool :=
  negb (contains mark (c_out1 c)) && negb (contains mark (c_out2 c)) && str_eqb (c_out1 c) (c_out2 c).

(* the placeholder is there instead *)
Definition ok_shown (c : case) : bool :=
  match c_sink c with
  | SValueStill => str_eqb (c_out1 c) "true" && str_eqb (c_out2 c) "true"
  | SRtSlots =>
      if direct (the_val c) then
        contains (";" ++ sec_name c ++ "=U:" ++ json_string true placeholder ++ ";") (c_out1 c) &&
        negb (contains (";" ++ sec_name c ++ "=T;") (c_out1 c))
      else true
  | _ =>
      match expected c with
      | Some n => Nat.eqb (count placeholder (c_out1 c)) n
      | None => true
      end
  end.

Definition ok (c : case) : bool := negb (inside c) || (ok_secret c && ok_shown c).

(* ------------------------------------------------------------------ *)
(* well-formed cases: what the harness promises about its own inputs   *)

(* "<" (the first character of the marker token) does not occur *)
Fixpoint clean (s : string) : bool :=
  match s with
  | EmptyString => true
  | String a r => negb (N.eqb (N_of_ascii a) 60) && clean r
  end.

(* no public text of the value contains "<" *)
Fixpoint pclean (v : val) : bool :=
  match v with
  | VStr s => clean s
  | VInt z => clean (go_quote_rune (Z.to_N z))
  | VBool _ | VSecret _ _ => true
  | VRedacted p => pclean p
  | VStruct n fs => clean n && forallb (fun f => clean (fst (fst f)) && pclean (snd f)) fs
  | VMap tn kvs => clean tn && forallb (fun kv => clean (fst kv) && pclean (snd kv)) kvs
  | VSlice l => forallb pclean l
  | VPtr x | VIface x => pclean x
  | VFields fs last _ =>
      clean (go_quote_rune (Z.to_N last)) &&
      forallb (fun kv => clean (k_name (fst kv)) && clean (k_ty (fst kv)) &&
                         clean (go_quote_rune (Z.to_N (k_idx (fst kv)))) && pclean (snd kv)) fs
  end.

(* every secret is below a Redacted value that a sink reaches through its methods *)
Fixpoint wrapped (m : bool) (v : val) : bool :=
  match v with
  | VSecret _ _ => false
  | VRedacted p => m || wrapped false p
  | VStruct _ fs => forallb (fun f => wrapped (m && snd (fst f)) (snd f)) fs
  | VMap _ kvs => forallb (fun kv => wrapped m (snd kv)) kvs
  | VSlice l => forallb (wrapped m) l
  | VPtr x => (m && is_redacted x) || wrapped m x
  | VIface x => wrapped m x
  | VFields fs _ _ => m && forallb (fun kv => wrapped true (snd kv)) fs
  | _ => true
  end.

(* the fields of a case: public text without "<" (the insertion indices too: %q prints an
   int as a quoted character), every secret wrapped *)
Definition wf_fields (fs : fields) (last : Z) : bool :=
  pclean (VFields fs last []) && forallb (fun kv => wrapped true (snd kv)) fs.
(* a case of the stream outside the statement shows its secret on purpose (unexported field) *)
Definition wf (c : case) : bool :=
  pclean (VFields (c_fields c) (c_last c) []) &&
  (fields_hidden (c_fields c) || forallb (fun kv => wrapped true (snd kv)) (c_fields c)).

(* ------------------------------------------------------------------ *)
(* correspondence                                                      *)

Definition plain (sp : fspec) : bool :=
  negb (f_minus sp) && negb (f_zero sp) && negb (f_space sp) && N.eqb (f_width sp) 0 &&
  match f_verb sp with
  | Vv => negb (f_plus sp && f_sharp sp)
  | Vs | Vq | Vd | Vx => negb (f_plus sp) && negb (f_sharp sp)
  | _ => false
  end.

(* every public int can be printed by [std_int] under %q *)
Fixpoint q_dom (v : val) : bool :=
  match v with
  | VInt z => Z.leb 0 z && Z.ltb z 128
  | VRedacted p => q_dom p
  | VStruct _ fs =>
      (fix go (fs : list (string * bool * val)) : bool :=
         match fs with [] => true | (_, _, x) :: r => q_dom x && go r end) fs
  | VMap _ kvs =>
      (fix go (kvs : list (string * val)) : bool :=
         match kvs with [] => true | (_, x) :: r => q_dom x && go r end) kvs
  | VSlice l =>
      (fix go (l : list val) : bool := match l with [] => true | x :: r => q_dom x && go r end) l
  | VPtr x | VIface x => q_dom x
  | VFields fs _ _ =>
      (fix go (fs : list (fkey * val)) : bool :=
         match fs with [] => true | (_, x) :: r => q_dom x && go r end) fs
  | _ => true
  end.

Definition slot_text (kv : string * slot) : string :=
  match snd kv with
  | Typed _ => (fst kv ++ "=T;")%string
  | Unknown j => (fst kv ++ "=U:" ++ json_render true j ++ ";")%string
  end.

(* tryConvertFieldValue in the harness's setup: every field that is not kept as a
   placeholder binds to a key of the definition *)
Definition conv_all (name : string) (j : json) : option val := Some (VBool true).

(* the model's text for the sinks that are modelled literally *)
Definition model (c : case) : option string :=
  let fs := c_fields c in
  let v := the_val c in
  let e := top_err c in
  let nt := negb (c_trace c) in
  match c_sink c with
  | SFmt FValue sp =>
      if plain sp && (negb (match f_verb sp with Vq => true | _ => false end) || q_dom v)
      then Some (fmt_value std sp v) else None
  | SFmt FErr sp => if nt && plain sp && is_plusv sp then Some (err_plusv e) else None
  | SJson OErr | SJson ONode => if nt then Some (json_render true (err_json e)) else None
  | SJson OTreeNode => if nt then Some (json_render true (err_json (carrier c))) else None
  | SJson OFields => Some (json_value (fields_obj fs (c_last c)))
  | SJson OValue => Some (json_value v)
  | SText => marshal_text v
  | SBinary => marshal_binary v
  | SLogText OErr => if nt then Some (log_line_text "err" (err_log e)) else None
  | SLogJson OErr => if nt then Some (log_line_json "err" (err_log e)) else None
  | SLogText OFields => Some (log_line_text "fields" (fields_log fs))
  | SLogJson OFields => Some (log_line_json "fields" (fields_log fs))
  | SLogText ONode => if nt then Some (log_line_text "node" (node_log e)) else None
  | SLogJson ONode => if nt then Some (log_line_json "node" (node_log e)) else None
  | SLogText OTreeNode => if nt then Some (log_line_text "node" (node_log (carrier c))) else None
  | SLogJson OTreeNode => if nt then Some (log_line_json "node" (node_log (carrier c))) else None
  | SLogText OValue => Some (log_line_text "k" (log_value v))
  | SLogJson OValue => Some (log_line_json "k" (log_value v))
  | SRtSlots =>
      Some (";" ++ String.concat "" (map slot_text (restore_fields conv_all fs (c_last c))))%string
  | SValueStill => Some "true"
  | _ => None
  end.

(* with a stack trace the text around the fields is not modelled; the block of the
   fields still has to be there literally *)
Definition model_part (c : case) : option string :=
  if c_trace c then
    match c_sink c with
    | SFmt FErr sp =>
        if plain sp && is_plusv sp
        then Some (details_fields (if Nat.eqb (c_pos c) 0 then "" else "      ") (c_fields c)) else None
    | SJson OErr | SJson ONode | SJson OTreeNode =>
        match c_fields c with
        | [] => None
        | _ => Some ("""fields"":" ++ json_value (fields_obj (c_fields c) (c_last c)))%string
        end
    | _ => None
    end
  else None.

(* [wf]: a case that is not well formed is a defect of the harness, reported as a broken
   correspondence *)
Definition corr (c : case) : bool :=
  wf c &&
  match model c with
  | Some m => str_eqb (c_out1 c) m && str_eqb (c_out2 c) m
  | None =>
      match model_part c with
      | Some m => contains m (c_out1 c) && contains m (c_out2 c)
      | None => true
      end
  end.

Definition bad_ok (cs : list case) : list N := bad_idx ok cs.
Definition bad_corr (cs : list case) : list N := bad_idx corr cs.
