(* C10: Unmarshal is total - a result or a classified error, never a panic. *)
From Errdef Require Import Base.Str Base.Outcome Model.Core Model.Convert Model.Unmarshal Check.UM.

Definition case := UM.case.

Definition count_true (l : list bool) : nat := List.length (filter (fun b => b) l).

(* the specification, on the observation alone: exactly one of a usable value or a
   failure; a failure is classified under exactly one of the four definitions; a
   decoder error is ErrDecodeFailure; the input is not modified *)
Definition ok (c : case) : bool :=
  let o := c_obs c in
  uo_unchanged o &&
  (if str_eqb (uo_class o) "ok"
   then match uo_res o with Some _ => Nat.eqb (count_true (uo_is o)) 0 | None => false end
   else existsb (str_eqb (uo_class o)) classes &&
        Nat.eqb (count_true (uo_is o)) 1 &&
        match uo_res o with None => true | Some _ => false end &&
        (* the class name is the one errors.Is reports *)
        list_eqb Bool.eqb (uo_is o) (map (str_eqb (uo_class o)) classes)) &&
  (if c_decerr c then str_eqb (uo_class o) cls_decode else negb (str_eqb (uo_class o) cls_decode)).

Definition corr := UM.corr.
Definition bad_ok (cs : list case) : list N := bad_idx ok cs.
(* the correspondence of a run: model = observed, and the source as translated in this run = model *)
Definition bad_corr (cs : list case) : list N := bad_idx (fun c => corr c && UM.src_agrees c) cs.
