(* C01: errors.Is matches by definition identity. *)
From Errdef Require Import Base.Str Model.Core Model.GoErrors Model.Prog.

(* observed: is[i][j] = errors.Is(errs[i], defs[j]); rev[j][i] = errors.Is(defs[j], errs[i]) *)
Record case := { c_prog : list stmt; c_is : list (list bool); c_rev : list (list bool) }.

Definition bool_mat_eqb := list_eqb (list_eqb Bool.eqb).

(* ---- model ---- *)
Definition model_is (s : st) : list (list bool) :=
  map (fun oe => map (fun d => errors_is_opt oe (Some (EDefn d))) (s_defs s)) (s_errs s).
Definition model_rev (s : st) : list (list bool) :=
  map (fun d => map (fun oe => errors_is_opt (Some (EDefn d)) oe) (s_errs s)) (s_defs s).

(* ---- specification: origins only (ghost d_org), never roots, kinds or options ---- *)
Definition node_org (n : err) : option nat :=
  match n with
  | EDef _ d _ _ _ _ | EDefn d | ERest _ d _ _ _ _ => Some (d_org d)
  | _ => None
  end.
Definition has_org (o : nat) (n : err) : bool :=
  match node_org n with Some x => Nat.eqb x o | None => false end.

(* some error of the cause tree was created from the family of D, or is a member of it used as a cause *)
Definition spec_is (e : err) (D : defn) : bool := existsb (has_org (d_org D)) (reach e).

(* errors.Is(D, e): e is D itself, or the first errdef error / first definition
   errors.As finds in e belongs to D's family *)
Definition spec_rev (D : defn) (e : err) : bool :=
  match e with EDefn td => N.eqb (d_addr D) (d_addr td) | _ => false end
  || match find is_defined_error (reach e) with Some n => has_org (d_org D) n | None => false end
  || match find is_definition (reach e) with Some n => has_org (d_org D) n | None => false end.

Definition spec_is_mat (s : st) : list (list bool) :=
  map (fun oe => map (fun d => match oe with Some e => spec_is e d | None => false end) (s_defs s)) (s_errs s).
Definition spec_rev_mat (s : st) : list (list bool) :=
  map (fun d => map (fun oe => match oe with Some e => spec_rev d e | None => false end) (s_errs s)) (s_defs s).

Definition ok (c : case) : bool :=
  let s := run (c_prog c) in
  prog_ok (c_prog c) &&
  bool_mat_eqb (c_is c) (spec_is_mat s) && bool_mat_eqb (c_rev c) (spec_rev_mat s).
Definition corr (c : case) : bool :=
  let s := run (c_prog c) in
  prog_ok (c_prog c) &&
  bool_mat_eqb (c_is c) (model_is s) && bool_mat_eqb (c_rev c) (model_rev s).

Definition bad_ok (cs : list case) : list N := bad_idx ok cs.
Definition bad_corr (cs : list case) : list N := bad_idx corr cs.
