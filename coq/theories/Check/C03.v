(* C03: fields - last writer wins, identity by constructor, outermost layer answers. *)
From Errdef Require Import Base.Str Model.Core Model.GoErrors Model.Prog.

(* per extractor: found, value, OrZero, OrDefault, OrFallback (canonical reprs), With* forms agree with Or* *)
Definition ext_obs := (bool * string * string * string * string * bool)%type.
Record obs1 := {
  o_ext : list ext_obs;
  o_kind : option string;                    (* KindFrom *)
  o_fields : option (list (N * string));     (* FieldsFrom: All() as (key id, value) *)
  o_stack : option nat;                      (* StackFrom: Len *)
  o_tree : option nat                        (* UnwrapTreeFrom: number of top-level nodes *)
}.
(* extractor pool: key, repr of the zero value, repr of the default/fallback value used *)
Record case := { c_prog : list stmt; c_keys : list (key * string * string); c_obs : list (option obs1) }.

(* ---- which nodes satisfy the getter interfaces ---- *)
Definition has_fields (e : err) : bool :=
  match e with EDef _ _ _ _ _ _ | EDefn _ | ERest _ _ _ _ _ _ => true | _ => false end.
Definition has_stack (e : err) : bool :=
  match e with EDef _ _ _ _ _ _ | ERest _ _ _ _ _ _ => true | _ => false end.

Definition node_fields (n : err) : fields :=
  match n with EDef _ d _ _ _ _ | EDefn d => d_fields d | _ => fields_empty end.
Definition node_kind (n : err) : string :=
  match n with EDef _ d _ _ _ _ | EDefn d | ERest _ d _ _ _ _ => d_kind d | _ => "" end.
Definition node_stack_len (n : err) : nat :=
  match n with EDef _ _ _ _ _ stk | ERest _ _ _ _ stk _ => List.length stk | _ => 0 end.

(* fieldValueFrom: errors.As to the first fields carrier, then Get on it only *)
Definition extract (k : key) (e : err) : option fval :=
  match as_first has_fields e with
  | Some n => f_get (node_fields n) k
  | None => None
  end.

Definition helper (found : option string) (alt : string) : string :=
  match found with Some v => v | None => alt end.

Definition ext_of (e : err) (kz : key * string * string) : ext_obs :=
  let '(k, zero, dflt) := kz in
  let r := option_map fv_repr (extract k e) in
  (match r with Some _ => true | None => false end, helper r zero, helper r zero, helper r dflt, helper r dflt, true).

Definition model_obs (keys : list (key * string * string)) (e : err) : obs1 :=
  {| o_ext := map (ext_of e) keys;
     o_kind := option_map node_kind (as_first has_fields e);
     o_fields := match as_first has_fields e with
                 | Some n => if f_is_zero (node_fields n) then None
                             else Some (map (fun kv => (k_id (fst kv), fv_repr (snd kv))) (f_all (node_fields n)))
                 | None => None
                 end;
     o_stack := match as_first has_stack e with
                | Some n => match node_stack_len n with O => None | l => Some l end
                | None => None
                end;
     o_tree := match as_first has_stack e with
               | Some n => match List.length (unwrap_std n) with O => None | l => Some l end
               | None => None
               end |}.

Definition ext_eqb (a b : ext_obs) : bool :=
  let '(f1, v1, z1, d1, b1, g1) := a in
  let '(f2, v2, z2, d2, b2, g2) := b in
  Bool.eqb f1 f2 && str_eqb v1 v2 && str_eqb z1 z2 && str_eqb d1 d2 && str_eqb b1 b2 && Bool.eqb g1 g2.
Definition nstr_eqb (a b : N * string) : bool := N.eqb (fst a) (fst b) && str_eqb (snd a) (snd b).
Definition obs_eqb (a b : obs1) : bool :=
  list_eqb ext_eqb (o_ext a) (o_ext b) && option_eqb str_eqb (o_kind a) (o_kind b) &&
  option_eqb (list_eqb nstr_eqb) (o_fields a) (o_fields b) &&
  option_eqb Nat.eqb (o_stack a) (o_stack b) && option_eqb Nat.eqb (o_tree a) (o_tree b).

Definition corr (c : case) : bool :=
  let s := run (c_prog c) in
  prog_ok (c_prog c) &&
  list_eqb (option_eqb obs_eqb) (c_obs c) (map (option_map (model_obs (c_keys c))) (s_errs s)).

(* ---- specification: computed from the program text, not from the model's fields ---- *)
(* the flattened option sequence of every factory and context *)
Record seqs := { q_defs : list (list opt); q_ctxs : list (list opt) }.
Definition q_ctx (q : seqs) (o : option nat) : list opt :=
  match o with None => [] | Some i => nth i (q_ctxs q) [] end.
Definition seq_step (q : seqs) (x : stmt) : seqs :=
  match x with
  | SDefine _ os => {| q_defs := q_defs q ++ [os]; q_ctxs := q_ctxs q |}
  | SCtx parent os => {| q_defs := q_defs q; q_ctxs := q_ctxs q ++ [q_ctx q parent ++ os] |}   (* outer before inner *)
  | SWith d ctx os => {| q_defs := q_defs q ++ [nth d (q_defs q) [] ++ q_ctx q ctx ++ os]; q_ctxs := q_ctxs q |}  (* context before call site *)
  | SWithOptions d os => {| q_defs := q_defs q ++ [nth d (q_defs q) [] ++ os]; q_ctxs := q_ctxs q |}
  | _ => q
  end.
Definition seqs_of (p : list stmt) : seqs := fold_left seq_step p {| q_defs := []; q_ctxs := [] |}.

(* the last value set through the constructor of k *)
Fixpoint last_field (k : key) (os : list opt) : option fval :=
  match os with
  | [] => None
  | OField k' v :: r => match last_field k r with Some x => Some x | None => if key_eqb k' k then Some v else None end
  | _ :: r => last_field k r
  end.

(* position of a factory in the pool, by pointer identity *)
Fixpoint index_of_addr (ds : list defn) (a : N) (i : nat) : option nat :=
  match ds with
  | [] => None
  | d :: r => if N.eqb (d_addr d) a then Some i else index_of_addr r a (S i)
  end.

Definition spec_extract (s : st) (q : seqs) (k : key) (e : err) : option fval :=
  match find has_fields (reach e) with           (* the first errdef layer in errors.As order, and only it *)
  | Some (EDef _ d _ _ _ _) | Some (EDefn d) =>
      match index_of_addr (s_defs s) (d_addr d) 0 with
      | Some i => last_field k (nth i (q_defs q) [])
      | None => None
      end
  | _ => None
  end.

Definition spec_ext (s : st) (q : seqs) (e : err) (kz : key * string * string) : ext_obs :=
  let '(k, zero, dflt) := kz in
  let r := option_map fv_repr (spec_extract s q k e) in
  (match r with Some _ => true | None => false end, helper r zero, helper r zero, helper r dflt, helper r dflt, true).

Definition ok1 (s : st) (q : seqs) (keys : list (key * string * string)) (oe : option err) (oo : option obs1) : bool :=
  match oe, oo with
  | None, None => true
  | Some e, Some o => list_eqb ext_eqb (o_ext o) (map (spec_ext s q e) keys)
  | _, _ => false
  end.

Fixpoint forallb2 {A B} (f : A -> B -> bool) (l1 : list A) (l2 : list B) : bool :=
  match l1, l2 with
  | [], [] => true
  | a :: r1, b :: r2 => f a b && forallb2 f r1 r2
  | _, _ => false
  end.

Definition ok (c : case) : bool :=
  let s := run (c_prog c) in
  prog_ok (c_prog c) && forallb2 (ok1 s (seqs_of (c_prog c)) (c_keys c)) (s_errs s) (c_obs c).

Definition bad_ok (cs : list case) : list N := bad_idx ok cs.
Definition bad_corr (cs : list case) : list N := bad_idx corr cs.
