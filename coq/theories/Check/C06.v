(* C06: case format written by the harness, the oracle [ok] (the path-unfolding
   specification decided on the OBSERVED tree) and the correspondence [corr]
   (model output = observed). *)
From Errdef Require Import Base.Str Model.Tree Spec.Unfold.

Record case := {
  c_graph : graph;
  c_recv : nat;                          (* the receiver e (an errdef node of the graph); the tree starts at its causes *)
  c_panic : bool;                        (* a library call panicked, or an observer hit its node cap *)
  c_tree : list tree;                    (* e.UnwrapTree(): node ids and IsCyclic *)
  c_has_cycle : bool;                    (* e.UnwrapTree().HasCycle() *)
  c_walk : list (nat * nat);             (* full Walk(): (depth, node id) *)
  c_break : nat;                         (* k >= 1 *)
  c_walk_break : list (nat * nat);       (* Walk() with break after the k-th element *)
  c_utf : option (list tree)             (* errdef.UnwrapTreeFrom(e): None = (nil, false) *)
}.

(* ---------- boolean checker of the relation Unf ---------- *)
Definition memn (n : nat) (l : list nat) : bool := existsb (Nat.eqb n) l.
Definition is_tracked (g : graph) (n : nat) : bool :=
  match nth_error g n with
  | Some nd => match g_key nd with Some _ => true | None => false end
  | None => false
  end.
Definition droppedb (g : graph) (path : list nat) (c : nat) : bool := is_tracked g c && memn c path.

(* leading causes that yield no subtree (nil entries, dropped occurrences), and the rest *)
Fixpoint skip (g : graph) (path : list nat) (cs : list (option nat)) : list nat * list (option nat) :=
  match cs with
  | [] => ([], [])
  | None :: r => skip g path r
  | Some c :: r =>
      if droppedb g path c then let (d, rest) := skip g path r in (c :: d, rest) else ([], cs)
  end.

Fixpoint chk (g : graph) (path : list nat) (n : nat) (s : shape) {struct s} : option (list nat) :=
  match s with
  | SNode m kids =>
      if negb (Nat.eqb n m) then None else
      match nth_error g n with
      | None => None
      | Some nd =>
          if droppedb g path n then None else
          let path' := match g_key nd with Some _ => n :: path | None => path end in
          (fix chkl (cs : list (option nat)) (kids : list shape) {struct kids} : option (list nat) :=
             let (d0, rest) := skip g path' cs in
             match kids with
             | [] => match rest with [] => Some d0 | _ => None end
             | t :: kr =>
                 match rest with
                 | Some c :: r =>
                     match chk g path' c t with
                     | None => None
                     | Some d1 => match chkl r kr with
                                  | None => None
                                  | Some d2 => Some (d0 ++ d1 ++ d2)
                                  end
                     end
                 | _ => None
                 end
             end) (causes_of nd) kids
      end
  end.

Fixpoint chk_list (g : graph) (path : list nat) (cs : list (option nat)) (kids : list shape) {struct kids}
  : option (list nat) :=
  let (d0, rest) := skip g path cs in
  match kids with
  | [] => match rest with [] => Some d0 | _ => None end
  | t :: kr =>
      match rest with
      | Some c :: r =>
          match chk g path c t with
          | None => None
          | Some d1 => match chk_list g path r kr with
                       | None => None
                       | Some d2 => Some (d0 ++ d1 ++ d2)
                       end
          end
      | _ => None
      end
  end.

(* flags: a flagged node must be dropped in the unfolding of its own subtree *)
Fixpoint flags_soundb (g : graph) (path : list nat) (t : tree) {struct t} : bool :=
  match t with
  | Node n cyc kids =>
      (negb cyc || match chk g path n (SNode n (map erase kids)) with
                   | Some ds => memn n ds
                   | None => false
                   end)
      && forallb (flags_soundb g (path_ext g path n)) kids
  end.

Definition pair_eqb (a b : nat * nat) : bool := Nat.eqb (fst a) (fst b) && Nat.eqb (snd a) (snd b).
Fixpoint tree_eqb (a b : tree) {struct a} : bool :=
  match a, b with
  | Node n c ks, Node m d ls =>
      Nat.eqb n m && Bool.eqb c d &&
      (fix go (l1 l2 : list tree) {struct l1} : bool :=
         match l1, l2 with
         | [], [] => true
         | x :: r1, y :: r2 => tree_eqb x y && go r1 r2
         | _, _ => false
         end) ks ls
  end.
Definition trees_eqb := list_eqb tree_eqb.

Definition is_nil {A} (l : list A) : bool := match l with [] => true | _ => false end.

(* what a consumer that breaks after the k-th element sees; k = 0 never breaks *)
Definition firstn_or_all {A} (k : nat) (l : list A) : list A := match k with O => l | _ => firstn k l end.

(* ---------- specification evaluated on the observed behaviour ---------- *)
Definition ok (c : case) : bool :=
  match nth_error (c_graph c) (c_recv c) with
  | None => false
  | Some nd =>
      negb (c_panic c) &&
      match chk_list (c_graph c) [] (causes_of nd) (map erase (c_tree c)) with
      | None => false                                                   (* not the path-unfolding *)
      | Some ds =>
          Bool.eqb (c_has_cycle c) (negb (is_nil ds))                   (* HasCycle <-> something dropped *)
          && forallb (flags_soundb (c_graph c) []) (c_tree c)           (* flagged => re-occurs beneath itself *)
          && list_eqb pair_eqb (c_walk c) (preorder_all (c_tree c))     (* Walk = pre-order with depths *)
          && list_eqb pair_eqb (c_walk_break c) (firstn_or_all (c_break c) (preorder_all (c_tree c)))
          && option_eqb trees_eqb (c_utf c)                             (* UnwrapTreeFrom: same tree, absent iff empty *)
               (if is_nil (c_tree c) then None else Some (c_tree c))
      end
  end.

(* ---------- model = observed ---------- *)
Definition corr (c : case) : bool :=
  match unwrap_tree (c_graph c) (c_recv c) with
  | None => false
  | Some ts =>
      negb (c_panic c)
      && trees_eqb ts (c_tree c)
      && Bool.eqb (has_cycle ts) (c_has_cycle c)
      && list_eqb pair_eqb (walk ts) (c_walk c)
      && list_eqb pair_eqb (walk_break (c_break c) ts) (c_walk_break c)
      && match unwrap_tree_from (c_graph c) (c_recv c) with
         | Some u => option_eqb trees_eqb u (c_utf c)
         | None => false
         end
  end.

Definition bad_ok (cs : list case) : list N := bad_idx ok cs.
Definition bad_corr (cs : list case) : list N := bad_idx corr cs.
