(* Shared case format of the unmarshaler checks (C10, C13, C20 restored part). *)
From Errdef Require Import Base.Str Base.Outcome Model.Core Model.Convert Model.Unmarshal Model.UnmarshalGL.

(* observed values: what the harness can see of a bound or unknown field value *)
Inductive oval :=
| OVNil
| OVS (ty : N) (v : sval)
| OVBytes (s : string)
| OVPtr (pty ety : N) (v : sval)
| OVRepr (ty : N) (r : string).

Inductive orerr :=
| ORErr (def : nat) (msg : string) (typed : list (N * oval)) (unknown : list (string * oval))
        (all : list (string * bool)) (stack : list frame) (causes : list ocause)
with ocause :=
| OCErr (e : orerr)
| OCDef (i : nat)
| OCSentinel (id : N)
| OCUnknown (msg ty : string) (causes : list ocause).

Record uobs := {
  uo_class : string;          (* "ok", a failure class, "panic", "none" (no class matched), "multi" *)
  uo_is : list bool;          (* errors.Is against ErrDecodeFailure, ErrUnknownKind, ErrUnknownField, ErrInternal *)
  uo_kind : string;           (* KindFromError *)
  uo_field : string;          (* FieldNameFromError *)
  uo_unchanged : bool;        (* the input compares equal to a deep copy taken before the call *)
  uo_stable : bool;           (* six more unmarshalings of the same input gave the same outcome and observable state *)
  uo_stable_m : bool;         (* the same with heap addresses inside messages masked (a degraded cause with an empty
                                 message prints one: finding K4, which belongs to C09 / C12) *)
  uo_res : option orerr
}.

Record case := { c_cfg : ucfg; c_in : option dd; c_decerr : bool; c_obs : uobs }.

(* ---- model -> observation ---- *)
Definition sval_eqb (a b : sval) : bool :=
  match a, b with
  | SBool x, SBool y => Bool.eqb x y
  | SStr x, SStr y => str_eqb x y
  | SInt x, SInt y | SF32 x, SF32 y | SF64 x, SF64 y => Z.eqb x y
  | _, _ => false
  end.

Definition oval_eqb (a b : oval) : bool :=
  match a, b with
  | OVNil, OVNil => true
  | OVS t v, OVS t' v' => N.eqb t t' && sval_eqb v v'
  | OVBytes s, OVBytes s' => str_eqb s s'
  | OVPtr p e v, OVPtr p' e' v' => N.eqb p p' && N.eqb e e' && sval_eqb v v'
  | OVRepr t r, OVRepr t' r' => N.eqb t t' && (str_eqb r r' || str_eqb r' "")   (* second argument = model: opaque values carry no form *)
  | OVPtr p _ _, OVRepr t r | OVRepr t r, OVPtr p _ _ => N.eqb p t && str_eqb r ""   (* pointer values handed through as they are *)
  | _, _ => false
  end.

Definition oval_of_dval (v : dval) : oval :=
  match v with
  | DNil => OVNil
  | DS t sv => OVS (s_id t) sv
  | DJ id tbl => OVRepr id (match find (fun e => N.eqb (fst e) 0) tbl with Some (_, Some r) => r | _ => "" end)
  | DBytes s => OVBytes s
  | DO id _ _ => OVRepr id ""
  end.
Definition oval_of_bval (b : bval) : oval :=
  match b with
  | BSame v => oval_of_dval v
  | BScalar t sv => OVS (s_id t) sv
  | BPtr id t sv => OVPtr id (s_id t) sv
  | BJson id form => OVRepr id form
  | BPtrO id => OVRepr id ""
  end.

(* insertion sorts used to canonicalise (the harness sorts the same way) *)
Fixpoint ins_N {A} (x : N * A) (l : list (N * A)) :=
  match l with [] => [x] | y :: r => if N.leb (fst x) (fst y) then x :: l else y :: ins_N x r end.
Fixpoint ins_S {A} (x : string * A) (l : list (string * A)) :=
  match l with [] => [x] | y :: r => if String.leb (fst x) (fst y) then x :: l else y :: ins_S x r end.

Fixpoint orerr_of (e : rerr) : orerr :=
  match e with
  | RErr d msg typed unknown stack causes =>
      ORErr (d_org (ud_def d)) msg
        (fold_right ins_N [] (map (fun kv => (k_id (uk_key (fst kv)), oval_of_bval (snd kv))) typed))
        (fold_right ins_S [] (map (fun nv => (fst nv, oval_of_dval (snd nv))) unknown))
        (map (fun kv => (ak_name (fst kv), match fst kv with AKTyped _ => true | AKName _ => false end)) (rf_all e))
        stack
        ((fix go (l : list rcause) : list ocause :=
            match l with [] => [] | c :: r => ocause_of c :: go r end) causes)
  end
with ocause_of (c : rcause) : ocause :=
  match c with
  | RCErr e => OCErr (orerr_of e)
  | RCDef d => OCDef (d_org (ud_def d))
  | RCSentinel id => OCSentinel id
  | RCUnknown m t cs =>
      OCUnknown m t ((fix go (l : list rcause) : list ocause :=
                        match l with [] => [] | c :: r => ocause_of c :: go r end) cs)
  end.

Fixpoint orerr_eqb (a b : orerr) : bool :=
  match a, b with
  | ORErr d m ty un al st cs, ORErr d' m' ty' un' al' st' cs' =>
      Nat.eqb d d' && str_eqb m m' &&
      list_eqb (fun x y => N.eqb (fst x) (fst y) && oval_eqb (snd x) (snd y)) ty ty' &&
      list_eqb (fun x y => str_eqb (fst x) (fst y) && oval_eqb (snd x) (snd y)) un un' &&
      list_eqb (fun x y => str_eqb (fst x) (fst y) && Bool.eqb (snd x) (snd y)) al al' &&
      list_eqb (fun x y => str_eqb (fr_func x) (fr_func y) && str_eqb (fr_file x) (fr_file y) && Z.eqb (fr_line x) (fr_line y)) st st' &&
      ((fix go (l1 l2 : list ocause) : bool :=
          match l1, l2 with
          | [], [] => true
          | x :: r1, y :: r2 => ocause_eqb x y && go r1 r2
          | _, _ => false
          end) cs cs')
  end
with ocause_eqb (a b : ocause) : bool :=
  match a, b with
  | OCErr e, OCErr e' => orerr_eqb e e'
  | OCDef i, OCDef j => Nat.eqb i j
  | OCSentinel i, OCSentinel j => N.eqb i j
  | OCUnknown m t cs, OCUnknown m' t' cs' =>
      str_eqb m m' && str_eqb t t' &&
      ((fix go (l1 l2 : list ocause) : bool :=
          match l1, l2 with
          | [], [] => true
          | x :: r1, y :: r2 => ocause_eqb x y && go r1 r2
          | _, _ => false
          end) cs cs')
  | _, _ => false
  end.

(* the model's verdict for a case *)
Definition model_res (c : case) : ures rerr :=
  if c_decerr c then UFail [{| fl_class := cls_decode; fl_kind := ""; fl_field := "" |}]
  else unmarshal_top (c_cfg c) (c_in c).

Definition failure_matches (o : uobs) (f : failure) : bool :=
  str_eqb (uo_class o) (fl_class f) && str_eqb (uo_kind o) (fl_kind f) && str_eqb (uo_field o) (fl_field f).

Definition classes : list string := [cls_decode; cls_kind; cls_field; cls_internal].

Definition corr (c : case) : bool :=
  let o := c_obs c in
  (* the model is a pure function of its input; the four failure definitions are four
     distinct Define calls, so errors.Is answers exactly the class (C01) *)
  (* ... and so is everything observable of the result: repeated unmarshalings and typed lookups through every
     key leave it as it was *)
  uo_unchanged o && uo_stable_m o && list_eqb Bool.eqb (uo_is o) (map (str_eqb (uo_class o)) classes) &&
  match model_res c with
  | UOk e => str_eqb (uo_class o) "ok" &&
             match uo_res o with Some oe => orerr_eqb oe (orerr_of e) | None => false end
  | UFail fs => existsb (failure_matches o) fs && match uo_res o with None => true | Some _ => false end
  | UPanic _ => str_eqb (uo_class o) "panic"
  end.

(* ---- the unmarshaler as srcgen translated it from the source in this run (Gen/GoLiteSrc.v, interpreted by
   Model/GoLite.v with the primitives of Model/UnmarshalGL.v) returns what the hand-written model returns.
   Proofs/UnmarshalSrc.v proves this for every input; evaluating it on the cases as well tells, when an edit of
   unmarshaler/unmarshaler.go breaks that proof, whether the translated code still agrees with the model and the
   implementation on the inputs of the run. ---- *)
Definition fail_eqb (a b : failure) : bool :=
  str_eqb (fl_class a) (fl_class b) && str_eqb (fl_kind a) (fl_kind b) && str_eqb (fl_field a) (fl_field b).
Definition ures_eqb (a b : ures rerr) : bool :=
  match a, b with
  | UOk x, UOk y => orerr_eqb (orerr_of x) (orerr_of y)
  | UFail f, UFail g => list_eqb fail_eqb f g
  | UPanic _, UPanic _ => true
  | _, _ => false
  end.
Definition src_agrees (c : case) : bool :=
  match src_unmarshal_top (fuel_for (c_in c)) (c_cfg c) (c_in c) (c_decerr c) with
  | Some r => ures_eqb r (model_res c)
  | None => false
  end.
Definition corr_src (c : case) : bool := corr c && src_agrees c.
