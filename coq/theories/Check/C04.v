(* C04: definitions, contexts and errors are immutable; caller data is never written. *)
From Errdef Require Import Base.Str Model.Core Model.GoErrors Model.Prog.

(* per statement of the history: (every object created earlier is unchanged - also after
   rendering an earlier error; the caller's option/argument/cause slices are unwritten over
   their whole capacity; mutating those slices afterwards changes nothing) *)
Record case := { c_prog : list stmt; c_steps : list (bool * bool * bool);
                 c_details : bool;     (* mutating a Details map after Define is harmless *)
                 c_resolver : bool;    (* resolver.New neither writes nor keeps aliasing the caller's slice *)
                 c_restored : bool }.  (* inspecting the restored copy (JSON round trip, all fields unknown) of every
                                          errdef error through typed extractors, Get, FindKeys and renderers
                                          leaves it unchanged *)

Definition ok (c : case) : bool :=
  prog_ok (c_prog c) && Nat.eqb (List.length (c_steps c)) (List.length (c_prog c)) &&
  forallb (fun s => fst (fst s) && snd (fst s) && snd s) (c_steps c) && c_details c && c_resolver c && c_restored c.

(* the model is purely functional: a statement returns new pools that extend the old ones
   (Proofs/C04Proofs.v), so it predicts "unchanged" for every step *)
Definition corr (c : case) : bool := ok c.

Definition bad_ok (cs : list case) : list N := bad_idx ok cs.
Definition bad_corr (cs : list case) : list N := bad_idx corr cs.
