(* C05: case format written by the harness, the oracle [ok] (specification
   evaluated on what the implementation returned) and the correspondence [corr]
   (model evaluated on the same input).

   PARTIAL BY NATURE: runtime.Callers, the inliner and the symbolisation of pcs
   are observed, not proved.  The harness supplies
     - the reference capture: its own runtime.Callers / CallersFrames at the very
       call instruction of the site (the five plain constructors: the site is run
       twice, once with a reference Factory whose methods only call
       runtime.Callers, once with the real factory) or on the line before the
       panic inside the panicking function (Recover), and for panics raised by
       the runtime the runtime's own frames between gopanic and that function,
       taken from a separate defer/recover of the harness;
     - every stack view of the error, each read through its own API;
     - what runtime.FuncForPC / Func.FileLine say about the error's pcs (the
       second symboliser; DebugStack used it before F8's fix, the model reads
       from Gen/Chain.v which one DebugStack uses now).
   Frames are interned per case: [c_tab] lists the distinct frames, everything
   else refers to them by index. *)
From Errdef Require Import Base.Str Model.Core Model.Stack.

Record case := {
  c_tab : list frame;
  c_ctor : ctor;
  c_dopts : list opt;          (* options given to Define *)
  c_path : path;               (* none / With(ctx, opts) / WithOptions(opts) *)
  c_rt : list N;               (* Recover, runtime panics: frames between runtime.gopanic and the faulting function *)
  c_ref : list N;              (* reference capture, innermost first *)
  c_adj : Z;                   (* lines from the reference capture to the call / panic statement (0 or 1) *)
  (* observed *)
  o_from : bool;               (* StackFrom(err) reports a stack *)
  o_frames : list N;           (* Stack().Frames() *)
  o_head : option N;           (* Stack().HeadFrame() *)
  o_len : Z;                   (* Stack().Len() *)
  o_fas : list N;              (* frames yielded by Stack().FramesAndSource() *)
  o_trace : list N;            (* StackTrace() symbolised with runtime.CallersFrames *)
  o_json : option (list N);    (* "stack" member of json.Marshal(err) *)
  o_slog : list N;             (* slog.Any("stack", err.Stack()) through a JSON handler *)
  o_origin : option N;         (* "origin" group of the error's slog value *)
  o_debug : list N;            (* parsed DebugStack() text *)
  o_sym2 : list (option N)     (* FuncForPC/FileLine on every pc of StackTrace() *)
}.

(* ---------- decoding ---------- *)
Definition bad_frame : frame := {| fr_func := "<index out of table>"; fr_file := ""; fr_line := (-1)%Z |}.
Definition fr (c : case) (i : N) : frame := nth (N.to_nat i) (c_tab c) bad_frame.
Definition frs (c : case) (l : list N) : list frame := map (fr c) l.

Definition frame_eqb (a b : frame) : bool :=
  str_eqb (fr_func a) (fr_func b) && str_eqb (fr_file a) (fr_file b) && Z.eqb (fr_line a) (fr_line b).
Definition frames_eqb := list_eqb frame_eqb.
Definition oframe_eqb := option_eqb frame_eqb.
Definition oframes_eqb := option_eqb frames_eqb.

(* the creating call (the panic) is [adj] lines below the reference capture *)
Definition bump (adj : Z) (l : list frame) : list frame :=
  match l with
  | [] => []
  | f :: r => {| fr_func := fr_func f; fr_file := fr_file f; fr_line := fr_line f + adj |} :: r
  end.

(* frames above the library's own chain at capture time, innermost first *)
Definition user (c : case) : list frame := frs c (c_rt c) ++ bump (c_adj c) (frs c (c_ref c)).

Definition opts_of (c : case) : list opt := all_opts (c_dopts c) (c_path c).

(* ---------- specification side: the property text, nothing else ---------- *)
Fixpoint sum_skips (os : list opt) : Z :=
  match os with
  | [] => 0
  | OSkip n :: r => n + sum_skips r
  | _ :: r => sum_skips r
  end.
Fixpoint last_depth (os : list opt) (cur : Z) : Z :=
  match os with
  | [] => cur
  | ODepth n :: r => last_depth r n
  | _ :: r => last_depth r cur
  end.
Definition is_notrace (o : opt) : bool := match o with ONoTrace => true | _ => false end.
Definition has_notrace (os : list opt) : bool := existsb is_notrace os.
Definition default_depth : Z := 32.
(* StackDepth(n) with n > 0 keeps n frames; 32 by default *)
Definition spec_depth (os : list opt) : Z :=
  let n := last_depth os 0 in if Z.ltb 0 n then n else default_depth.

(* Reading: "StackSkip values add up and remove that many innermost frames" is meaningful when the
   SUM is non-negative (single values may be negative, e.g. StackSkip(-1) in a context compensated
   by StackSkip(1) at the call site); a negative total would ask for frames of the library itself *)
Definition in_domain (c : case) : bool := Z.leb 0 (sum_skips (opts_of c)).

(* the frames the error must show: drop the summed skips from the creation site
   (for Recover: from the function that called panic), keep the depth *)
Definition spec_frames (c : case) : list frame :=
  if has_notrace (opts_of c) then []
  else zfirstn (spec_depth (opts_of c)) (zskipn (sum_skips (opts_of c)) (user c)).

Definition nilb {A} (l : list A) : bool := match l with [] => true | _ => false end.

(* every view describes the same frames in the same order *)
Definition views_core (c : case) : bool :=
  let F := frs c (o_frames c) in
  oframe_eqb (option_map (fr c) (o_head c)) (hd_error F)
  && Z.eqb (o_len c) (Z.of_nat (List.length F))
  && frames_eqb (frs c (o_fas c)) F
  && frames_eqb (frs c (o_trace c)) F
  && oframes_eqb (option_map (frs c) (o_json c)) (if nilb F then None else Some F)
  && frames_eqb (frs c (o_slog c)) F
  && oframe_eqb (option_map (fr c) (o_origin c)) (hd_error F).
Definition view_debug (c : case) : bool := frames_eqb (frs c (o_debug c)) (frs c (o_frames c)).

(* first frame = the creation site, when nothing is skipped *)
Definition head_is_site (c : case) : bool :=
  if has_notrace (opts_of c) || negb (Z.eqb (sum_skips (opts_of c)) 0) then true
  else oframe_eqb (option_map (fr c) (o_head c)) (hd_error (user c)).

Definition arith_ok (c : case) : bool :=
  frames_eqb (frs c (o_frames c)) (spec_frames c)
  && Bool.eqb (o_from c) (negb (nilb (spec_frames c))).

Definition ok (c : case) : bool :=
  negb (in_domain c) || (head_is_site c && arith_ok c && views_core c && view_debug c).

(* ---------- model side ---------- *)
(* pcs are represented by the frame CallersFrames gives for them (sym = id); the
   library's own chain is known by function name only *)
Definition chain_frames (k : ctor) : list frame :=
  map (fun n => {| fr_func := n; fr_file := ""; fr_line := 0 |}) (chain_of k).

Definition model_defn (c : case) : defn := factory 1%N 2%N 0%nat "k" (c_dopts c) (c_path c).
Definition model_stack (c : case) : option (list frame) :=
  ctor_stack (c_ctor c) (model_defn c) (chain_frames (c_ctor c)) (user c).

Definition idf (f : frame) : frame := f.

(* DebugStack: pcs paired with what the runtime's second symboliser says about them *)
Definition model_debug (c : case) : list frame :=
  let s2 := map (option_map (fr c)) (o_sym2 c) in
  debug_stack (@fst frame (option frame)) (@snd frame (option frame))
    (option_map (fun l => combine l s2) (model_stack c)).

Definition corr_strict (c : case) : bool :=
  let s := model_stack c in
  frames_eqb (frs c (o_frames c)) (frames idf s)
  && oframe_eqb (option_map (fr c) (o_head c)) (head_frame idf s)
  && Z.eqb (o_len c) (len s)
  && frames_eqb (frs c (o_fas c)) (frames_and_source idf s)
  && frames_eqb (frs c (o_trace c)) (map idf (stack_trace s))
  && oframes_eqb (option_map (frs c) (o_json c)) (json_stack idf s)
  && frames_eqb (frs c (o_slog c)) (slog_stack idf s)
  && oframe_eqb (option_map (fr c) (o_origin c)) (slog_origin idf s)
  && Bool.eqb (o_from c) (match stack_from s with Some _ => true | None => false end)
  && Nat.eqb (List.length (o_sym2 c)) (List.length (pcs_of s))
  && frames_eqb (frs c (o_debug c)) (model_debug c).

(* outside the Reading's domain (a negative total; used to look at the library's
   own chain): function names and the count only *)
Definition corr_names (c : case) : bool :=
  let s := model_stack c in
  list_eqb str_eqb (map fr_func (frs c (o_frames c))) (map fr_func (frames idf s))
  && Z.eqb (o_len c) (len s).

Definition corr (c : case) : bool := if in_domain c then corr_strict c else corr_names c.

(* DebugStack leaves out frames whose function name is empty (unknown pcs); the
   frames of Go code the reference capture sees all have names *)
Definition user_named (c : case) : bool := forallb named (user c).

Definition bad_ok (cs : list case) : list N := bad_idx ok cs.
Definition bad_corr (cs : list case) : list N := bad_idx corr cs.
