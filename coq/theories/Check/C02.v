(* C02: wrapping keeps every cause reachable; nil in, nil out; messages compose. *)
From Errdef Require Import Base.Str Model.Core Model.GoErrors Model.Prog.

(* what the harness observes for the error produced by one statement *)
Record obs1 := {
  o_nil : bool;
  o_msg : string;             (* Error() *)
  o_unwrap : list Z;          (* Unwrap() of an errdef error as pool indexes (-1: not in the pool) *)
  o_cause : Z;                (* Cause() *)
  o_is : list bool;           (* errors.Is(this, errs[j]) for every pool entry j *)
  o_as : list Z               (* errors.As into *singleErr, *multiErr, *leafErr, PanicError: pool index found *)
}.
Record case := { c_prog : list stmt; c_obs : list obs1 }.

(* first pool index holding the same error value *)
Fixpoint idx_from (pool : list (option err)) (e : err) (i : Z) : Z :=
  match pool with
  | [] => (-1)%Z
  | Some x :: r => if same x e then i else idx_from r e (i + 1)%Z
  | None :: r => idx_from r e (i + 1)%Z
  end.
Definition idx_of (pool : list (option err)) (e : err) : Z := idx_from pool e 0%Z.
Definition idx_opt pool (o : option err) : Z := match o with Some e => idx_of pool e | None => (-1)%Z end.

Definition is_single (e : err) := match e with ESingle _ _ _ => true | _ => false end.
Definition is_multi_custom (e : err) := match e with EMulti _ _ _ => true | _ => false end.
Definition is_leaf (e : err) := match e with ELeaf _ _ t => str_eqb t "*main.leafErr" | _ => false end.
Definition is_panic_error (e : err) := match e with EPanic _ _ _ _ => true | _ => false end.

Definition is_errdef (e : err) : bool := match e with EDef _ _ _ _ _ _ => true | _ => false end.

(* ---- model: observation of pool entry [oe] in final pool [pool] ---- *)
Definition model_obs (pool : list (option err)) (oe : option err) : obs1 :=
  match oe with
  | None => {| o_nil := true; o_msg := ""; o_unwrap := []; o_cause := (-1)%Z; o_is := []; o_as := [] |}
  | Some e =>
      {| o_nil := false; o_msg := err_msg e;
         o_unwrap := if is_errdef e then map (idx_of pool) (def_unwrap e) else [];
         o_cause := if is_errdef e then idx_opt pool (def_cause e) else (-1)%Z;
         o_is := map (fun t => errors_is_opt (Some e) t) pool;
         o_as := map (fun p => idx_opt pool (as_first p e)) [is_single; is_multi_custom; is_leaf; is_panic_error] |}
  end.

Definition obs_eqb (a b : obs1) : bool :=
  Bool.eqb (o_nil a) (o_nil b) && str_eqb (o_msg a) (o_msg b) &&
  list_eqb Z.eqb (o_unwrap a) (o_unwrap b) && Z.eqb (o_cause a) (o_cause b) &&
  list_eqb Bool.eqb (o_is a) (o_is b) && list_eqb Z.eqb (o_as a) (o_as b).

Definition corr (c : case) : bool :=
  let s := run (c_prog c) in
  prog_ok (c_prog c) && list_eqb obs_eqb (c_obs c) (map (model_obs (s_errs s)) (s_errs s)).

(* ---- specification: the constructor contracts of the statement that made the error ---- *)
(* states before each statement *)
Fixpoint trace_from (s : st) (p : list stmt) : list (st * stmt) :=
  match p with [] => [] | x :: r => (s, x) :: trace_from (step s x) r end.
Definition makes_err (x : stmt) : bool :=
  match x with SDefine _ _ | SCtx _ _ | SWith _ _ _ | SWithOptions _ _ => false | _ => true end.
Definition err_trace (p : list stmt) : list (st * stmt) :=
  filter (fun sx => makes_err (snd sx)) (trace_from st0 p).

Definition is_none {A} (o : option A) : bool := match o with None => true | Some _ => false end.

(* the contract for an errdef constructor: (nil?, message, causes given) *)
Definition contract (s : st) (x : stmt) : option (bool * string * list err) :=
  match x with
  | SNew _ msg _ => Some (false, msg, [])
  | SErrorf _ format nargs ref _ => Some (false, match nargs with O => format | _ => ref end, [])
  | SWrap _ c _ =>
      match get_err s c with None => Some (true, "", []) | Some e => Some (false, err_msg e, [e]) end
  | SWrapf _ c ref _ =>
      match get_err s c with None => Some (true, "", []) | Some e => Some (false, (ref ++ ": " ++ err_msg e)%string, [e]) end
  | SJoin _ cs _ =>
      let es := somes (map (get_err s) cs) in
      match es with [] => Some (true, "", []) | _ => Some (false, join nl (map err_msg es), es) end
  | _ => None
  end.

(* the oracle for one pool entry, given the final pool and the whole observation list *)
Definition row_implies (given me : list bool) : bool :=
  (* every target the given cause matches, the result matches too *)
  forallb (fun p => implb (fst p) (snd p)) (combine given me).

Definition ok1 (pool : list (option err)) (all : list obs1) (sx : st * stmt) (o : obs1) : bool :=
  match contract (fst sx) (snd sx) with
  | None => true
  | Some (isnil, msg, causes) =>
      Bool.eqb (o_nil o) isnil &&
      (isnil ||
       (str_eqb (o_msg o) msg &&
        list_eqb Z.eqb (o_unwrap o) (map (idx_of pool) causes) &&
        forallb (fun c =>
                   let j := idx_of pool c in
                   (* errors.Is(result, cause) and everything the cause matches *)
                   nth (Z.to_nat j) (o_is o) false &&
                   row_implies (o_is (nth (Z.to_nat j) all o)) (o_is o)) causes))
  end.

Fixpoint forallb2 {A B} (f : A -> B -> bool) (l1 : list A) (l2 : list B) : bool :=
  match l1, l2 with
  | [], [] => true
  | a :: r1, b :: r2 => f a b && forallb2 f r1 r2
  | _, _ => false
  end.

Definition ok (c : case) : bool :=
  let s := run (c_prog c) in
  prog_ok (c_prog c) && forallb2 (ok1 (s_errs s) (c_obs c)) (err_trace (c_prog c)) (c_obs c).

Definition bad_ok (cs : list case) : list N := bad_idx ok cs.
Definition bad_corr (cs : list case) : list N := bad_idx corr cs.
