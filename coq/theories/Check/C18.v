(* C18: text formatting shows the whole tree, in order. *)
From Errdef Require Import Base.Str Model.Core Model.GoErrors Model.Prog Model.Tree0 Model.Fmt Check.Render.
Local Open Scope string_scope.

Record obs1 := { o_subject : subject; o_s : string; o_v : string; o_q : string; o_plus : string }.
Record case := { c_prog : list stmt; c_given : list rlit; c_src : srcmap; c_obs : list obs1 }.

(* ---- model: string equality ---- *)
Definition corr1 (s : st) (given : list rlit) (m : srcmap) (o : obs1) : bool :=
  match subject_err s given (o_subject o) with
  | Some e => str_eqb (o_s o) (format_error m "s" e) && str_eqb (o_v o) (format_error m "v" e) &&
              str_eqb (o_q o) (format_error m "q" e) && str_eqb (o_plus o) (format_error m "+v" e)
  | None => false
  end.
Definition corr (c : case) : bool :=
  let s := run (c_prog c) in prog_ok (c_prog c) && forallb (corr1 s (c_given c) (c_src c)) (c_obs c).

(* ---- specification on the observed text ---- *)
(* remainder of [hay] after the first occurrence of [needle] *)
Fixpoint prefix_rest (p s : string) : option string :=
  match p, s with
  | EmptyString, _ => Some s
  | String a p', String b s' => if Ascii.eqb a b then prefix_rest p' s' else None
  | _, EmptyString => None
  end.
Fixpoint after (needle hay : string) : option string :=
  match prefix_rest needle hay with
  | Some r => Some r
  | None => match hay with EmptyString => None | String _ r => after needle r end
  end.
(* all tokens occur, in this order, without overlap *)
Fixpoint in_order (tokens : list string) (hay : string) : bool :=
  match tokens with
  | [] => true
  | t :: r => match after t hay with Some rest => in_order r rest | None => false end
  end.
Fixpoint count_occ_s (needle hay : string) : nat :=
  match hay with
  | EmptyString => 0
  | String _ r => (match prefix_rest needle hay with Some _ => 1 | None => 0 end) + count_occ_s needle r
  end.

(* ---- specification v2: tokens carry their line start (newline + indentation), field values,
   node labels and the marked snippet line ---- *)
Definition field_toks (ind : string) (nv : string * fval) : list string :=
  let v := fv_plus (snd nv) in
  if has_nl v
  then (nl ++ ind ++ "  " ++ fst nv ++ ": |") :: map (fun l => nl ++ ind ++ "    " ++ l) (split_nl v)
  else [nl ++ ind ++ "  " ++ fst nv ++ ": " ++ v].

(* the harness reads source files line by line: no line contains a newline *)
Definition srcmap_wf (m : srcmap) : bool :=
  forallb (fun e => forallb (fun l => negb (has_nl l)) (w_lines (snd e))) m.

(* the snippet line of the frame's own line: marked, numbered with the frame's line (numbers
   right-aligned to the width of the window's last number), showing that line's text *)
Definition marked_line (w : window) (line : Z) : option string :=
  let k := (line - w_start w)%Z in
  if Z.ltb k 0 then None
  else match nth_error (w_lines w) (Z.to_nat k) with
       | Some text =>
           let last := (w_start w + Z.of_nat (List.length (w_lines w)) - 1)%Z in
           Some ("> " ++ pad_left (String.length (dec_Z last)) (dec_Z line) ++ ": " ++ text)
       | None => None
       end.

Definition frame_toks (m : srcmap) (sl sd : Z) (ind : string) (il : nat * frame) : list string :=
  let f := snd il in
  if str_eqb (fr_file f) "" then []
  else List.app [nl ++ ind ++ "  " ++ fr_func f; nl ++ ind ++ "    " ++ fr_file f ++ ":" ++ dec_Z (fr_line f)]
       (if want_source sl sd (fst il) f
        then match lookup_src m (fr_file f) (fr_line f) with
             | Some w => match marked_line w (fr_line f) with
                         | Some t => [nl ++ ind ++ "    " ++ t]
                         | None => []
                         end
             | None => []
             end
        else []).

(* what the detail block of an errdef node must show, each item at the start of a line
   indented by [ind] *)
Definition detail_toks (m : srcmap) (e : err) (ind : string) : list string :=
  List.app (if str_eqb (e_kind e) "" then [] else [nl ++ ind ++ "kind: " ++ e_kind e])
  (List.app (match e_fields_all e with
    | [] => []
    | all => (nl ++ ind ++ "fields:") :: flat_map (field_toks ind) all
    end)
   (match e_stack e with
    | [] => []
    | fs => (nl ++ ind ++ "stack:") ::
            flat_map (frame_toks m (fst (src_settings e)) (snd (src_settings e)) ind)
                     (combine (seq 0 (List.length fs)) fs)
    end)).

Definition header_tok (ind : string) (n : nat) : list string :=
  match n with
  | O => []
  | 1 => [nl ++ ind ++ "causes: (1 error)"]
  | _ => [nl ++ ind ++ "causes: (" ++ dec_nat n ++ " errors)"]
  end.

(* node number i (from 0) of a causes list printed at indentation [ind]: its label line
   "[i+1] message", then its details, header and children four columns deeper *)
Fixpoint node_toks (m : srcmap) (ind : string) (i : nat) (t : tree) : list string :=
  match t with
  | T e kids =>
      let ind' := ind ++ "    " in
      (nl ++ ind ++ "[" ++ dec_nat (S i) ++ "] " ++ err_msg e) ::
      List.app (if is_errdef_error e then detail_toks m e ind' else [])
      (List.app (header_tok ind' (List.length kids))
       (List.concat ((fix go (j : nat) (l : list tree) : list (list string) :=
                        match l with [] => [] | k :: r => node_toks m ind' j k :: go (S j) r end) 0 kids)))
  end.

Definition nodes_toks (m : srcmap) (ind : string) (ts : list tree) : list string :=
  List.concat ((fix go (j : nat) (l : list tree) : list (list string) :=
                  match l with [] => [] | k :: r => node_toks m ind j k :: go (S j) r end) 0 ts).

(* everything %+v must show after the top-level message *)
Definition plus_toks (m : srcmap) (e : err) : list string :=
  let kids := unwrap_tree e in
  List.app (detail_toks m e "") (List.app (header_tok "" (List.length kids)) (nodes_toks m "  " kids)).

(* the text starts with the message and then shows the tokens in order *)
Definition shows_after_msg (msg : string) (toks : list string) (out : string) : bool :=
  match prefix_rest msg out with Some rest => in_order toks rest | None => false end.

(* number of frames (over the whole output) that must show a snippet *)
Definition snippets_expected (m : srcmap) (e : err) : nat :=
  let '(sl, sd) := src_settings e in
  List.length (filter (fun il => want_source sl sd (fst il) (snd il) &&
                                 match lookup_src m (fr_file (snd il)) (fr_line (snd il)) with
                                 | Some w => negb (Nat.eqb (List.length (w_lines w)) 0) | None => false end)
                      (combine (seq 0 (List.length (e_stack e))) (e_stack e))).
Fixpoint tree_snippets (m : srcmap) (t : tree) : nat :=
  match t with T e kids => snippets_expected m e + fold_right (fun k acc => tree_snippets m k + acc) 0 kids end.

Definition ok1 (s : st) (given : list rlit) (m : srcmap) (o : obs1) : bool :=
  match subject_err s given (o_subject o) with
  | Some e =>
      match (match e_def e with Some d => d_fmt d | None => None end) with
      | Some id =>      (* a Formatter option replaces everything for errors of that definition *)
          str_eqb (o_s o) (custom_fmt id "s" (err_msg e)) && str_eqb (o_v o) (custom_fmt id "v" (err_msg e)) &&
          str_eqb (o_q o) (custom_fmt id "q" (err_msg e)) && str_eqb (o_plus o) (custom_fmt id "v" (err_msg e))
      | None =>
          str_eqb (o_s o) (err_msg e) && str_eqb (o_v o) (err_msg e) && str_eqb (o_q o) (go_quote (err_msg e)) &&
          (* the message, then the whole tree in depth-first order, every item at the start of a line
             with the indentation of its depth (nested custom formatters are NOT invoked) *)
          shows_after_msg (err_msg e) (plus_toks m e) (o_plus o) &&
          (* snippets: exactly the frames configured, each marking one line *)
          Nat.eqb (count_occ_s "> " (o_plus o)) (tree_snippets m (tree_of e))
      end
  | None => false
  end.
Definition ok (c : case) : bool :=
  let s := run (c_prog c) in prog_ok (c_prog c) && srcmap_wf (c_src c) && forallb (ok1 s (c_given c) (c_src c)) (c_obs c).

Definition bad_ok (cs : list case) : list N := bad_idx ok cs.
Definition bad_corr (cs : list case) : list N := bad_idx corr cs.
