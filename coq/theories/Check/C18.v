(* C18: text formatting shows the whole tree, in order. *)
From Errdef Require Import Base.Str Model.Core Model.GoErrors Model.Prog Model.Tree0 Model.Fmt Check.Render.
Local Open Scope string_scope.

Record obs1 := { o_subject : subject; o_s : string; o_v : string; o_q : string; o_plus : string }.
Record case := { c_prog : list stmt; c_given : list rlit; c_src : srcmap; c_obs : list obs1 }.

(* ---- model: string equality ---- *)
Definition corr1 (s : st) (given : list rlit) (m : srcmap) (o : obs1) : bool :=
  match subject_err s given (o_subject o) with
  | Some e => str_eqb (o_s o) (format_error m "s" e) && str_eqb (o_v o) (format_error m "v" e) &&
              str_eqb (o_q o) (format_error m "q" e) && str_eqb (o_plus o) (format_error m "+v" e)
  | None => false
  end.
Definition corr (c : case) : bool :=
  let s := run (c_prog c) in prog_ok (c_prog c) && forallb (corr1 s (c_given c) (c_src c)) (c_obs c).

(* ---- specification on the observed text ---- *)
(* remainder of [hay] after the first occurrence of [needle] *)
Fixpoint prefix_rest (p s : string) : option string :=
  match p, s with
  | EmptyString, _ => Some s
  | String a p', String b s' => if Ascii.eqb a b then prefix_rest p' s' else None
  | _, EmptyString => None
  end.
Fixpoint after (needle hay : string) : option string :=
  match prefix_rest needle hay with
  | Some r => Some r
  | None => match hay with EmptyString => None | String _ r => after needle r end
  end.
(* all tokens occur, in this order, without overlap *)
Fixpoint in_order (tokens : list string) (hay : string) : bool :=
  match tokens with
  | [] => true
  | t :: r => match after t hay with Some rest => in_order r rest | None => false end
  end.
Fixpoint count_occ_s (needle hay : string) : nat :=
  match hay with
  | EmptyString => 0
  | String _ r => (match prefix_rest needle hay with Some _ => 1 | None => 0 end) + count_occ_s needle r
  end.

(* what a node must show: message, kind, every field name, every frame's function and file:line *)
Definition node_tokens (e : err) : list string :=
  if is_errdef_error e then
    ([err_msg e] ++ (if str_eqb (e_kind e) "" then [] else [("kind: " ++ e_kind e)%string])
    ++ (match e_fields_all e with [] => [] | all => "fields:" :: map (fun nv => (fst nv ++ ": ")%string) all end)
    ++ (match e_stack e with [] => []
        | fs => "stack:" :: flat_map (fun f => if str_eqb (fr_file f) "" then [] else [fr_func f; (fr_file f ++ ":" ++ dec_Z (fr_line f))%string]) fs end))%list
  else [err_msg e].
Definition header_token (n : nat) : list string :=
  match n with O => [] | 1 => ["causes: (1 error)"] | _ => ["causes: (" ++ dec_nat n ++ " errors)"] end.

(* depth-first pre-order over the cause tree, each node followed by its causes header *)
Fixpoint tree_tokens (t : tree) : list string :=
  match t with
  | T e kids => (node_tokens e ++ header_token (List.length kids) ++ flat_map tree_tokens kids)%list
  end.

(* number of frames (over the whole output) that must show a snippet *)
Definition snippets_expected (m : srcmap) (e : err) : nat :=
  let '(sl, sd) := src_settings e in
  List.length (filter (fun il => want_source sl sd (fst il) (snd il) &&
                                 match lookup_src m (fr_file (snd il)) (fr_line (snd il)) with
                                 | Some w => negb (Nat.eqb (List.length (w_lines w)) 0) | None => false end)
                      (combine (seq 0 (List.length (e_stack e))) (e_stack e))).
Fixpoint tree_snippets (m : srcmap) (t : tree) : nat :=
  match t with T e kids => snippets_expected m e + fold_right (fun k acc => tree_snippets m k + acc) 0 kids end.

Definition ok1 (s : st) (given : list rlit) (m : srcmap) (o : obs1) : bool :=
  match subject_err s given (o_subject o) with
  | Some e =>
      match (match e_def e with Some d => d_fmt d | None => None end) with
      | Some id =>      (* a Formatter option replaces everything for errors of that definition *)
          str_eqb (o_s o) (custom_fmt id "s" (err_msg e)) && str_eqb (o_v o) (custom_fmt id "v" (err_msg e)) &&
          str_eqb (o_q o) (custom_fmt id "q" (err_msg e)) && str_eqb (o_plus o) (custom_fmt id "v" (err_msg e))
      | None =>
          str_eqb (o_s o) (err_msg e) && str_eqb (o_v o) (err_msg e) && str_eqb (o_q o) (go_quote (err_msg e)) &&
          (* the whole tree, in depth-first order (nested custom formatters are NOT invoked) *)
          in_order (tree_tokens (tree_of e)) (o_plus o) &&
          (* snippets: exactly the frames configured, each marking one line *)
          Nat.eqb (count_occ_s "> " (o_plus o)) (tree_snippets m (tree_of e))
      end
  | None => false
  end.
Definition ok (c : case) : bool :=
  let s := run (c_prog c) in prog_ok (c_prog c) && forallb (ok1 s (c_given c) (c_src c)) (c_obs c).

Definition bad_ok (cs : list case) : list N := bad_idx ok cs.
Definition bad_corr (cs : list case) : list N := bad_idx corr cs.
