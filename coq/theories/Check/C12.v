(* C12: Unmarshal then Marshal is idempotent and deterministic. *)
From Errdef Require Import Base.Str Base.Outcome Model.Core Model.Convert Model.Unmarshal Model.JsonVal Check.UM.
From Flocq Require Import IEEE754.BinarySingleNaN.

(* one unmarshaling (compared with the model as in C10) plus what the harness saw of
   x -> r -> n -> r' -> n' *)
Record case := {
  c_um : UM.case;
  c_native : bool;       (* every field value of x is a JSON-native Go value (what a JSON document decodes to) *)
  c_marshals : bool;     (* Marshal(Unmarshal(x)) produced a document n *)
  c_fix : bool;          (* Unmarshal(n) succeeded and Marshal of it is JSON-equal to n *)
  c_lib : option bool;   (* x was produced by marshaling a library error: n is JSON-equal to x *)
  c_redec : list (sval * option dval)
     (* the JSON step observed on typed scalar values: json.Marshal(v), then decoding into `any`
        as jsonToDecodedData does (None: json.Marshal failed) *)
}.

(* validation of Model/JsonVal.redecode - and of the strconv contract the theorems
   C09_scalar_values_roundtrip / C12_binding_fixpoint assume for float32 - against encoding/json:
   every clause but float32 must agree exactly; for a float32 the decoded float64 must be finite
   and round back to it (that IS the hypothesis reparse32_ok, checked on this value) *)
Definition ds_eqb (a b : dval) : bool :=
  match a, b with
  | DS t v, DS t' v' => N.eqb (s_id t) (s_id t') && skind_eqb (s_kind t) (s_kind t') && sval_eqb v v'
  | _, _ => false
  end.
Definition redec_ok (p : sval * option dval) : bool :=
  match p with
  | (SF32 b, Some (DS t (SF64 g))) =>
      N.eqb (s_id t) 13 && is_finite (f32_of_bits b) && is_finite (f64_of_bits g) &&
      (bits_of_f32 (f64_to_f32 (f64_of_bits g)) =? b)%Z
  | (SF32 b, None) => negb (is_finite (f32_of_bits b))
  | (v, od) =>
      match redecode (fun x => x) v, od with
      | Some d, Some d' => ds_eqb d d'
      | None, None => true
      | _, _ => false
      end
  end.

Definition ok (c : case) : bool :=
  let o := c_obs (c_um c) in
  (* the same input unmarshals alike every time, with identical observable state *)
  uo_stable o &&
  (* n is a fixpoint whenever it exists *)
  (negb (str_eqb (uo_class o) "ok") || negb (c_native c) || negb (c_marshals c) || c_fix c) &&
  match c_lib c with Some b => b | None => true end.

Definition corr (c : case) : bool := UM.corr (c_um c) && forallb redec_ok (c_redec c).

Definition bad_ok (cs : list case) : list N := bad_idx ok cs.
Definition bad_corr (cs : list case) : list N := bad_idx corr cs.
