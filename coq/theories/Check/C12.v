(* C12: Unmarshal then Marshal is idempotent and deterministic. *)
From Errdef Require Import Base.Str Base.Outcome Model.Core Model.Convert Model.Unmarshal Model.JsonVal Model.Redoc Check.UM.
From Flocq Require Import IEEE754.BinarySingleNaN.

(* one unmarshaling (compared with the model as in C10) plus what the harness saw of
   x -> r -> n -> r' -> n' *)
Record case := {
  c_um : UM.case;
  c_native : bool;       (* every field value of x is a JSON-native Go value (what a JSON document decodes to) *)
  c_marshals : bool;     (* Marshal(Unmarshal(x)) produced a document n *)
  c_fix : bool;          (* Unmarshal(n) succeeded and Marshal of it is JSON-equal to n *)
  c_lib : option bool;   (* x was produced by marshaling a library error: n is JSON-equal to x *)
  c_redec : list (sval * option dval);
     (* the JSON step observed on typed scalar values: json.Marshal(v), then decoding into `any`
        as jsonToDecodedData does (None: json.Marshal failed) *)
  c_ndd : option dd;     (* the document n as the JSON decoder hands it to unmarshal (jsonToDecodedData n) *)
  c_rp : list (Z * Z)    (* strconv on the float32 values bound in the restored error: (float32 bits, bits of
                            the float64 its JSON text parses to) *)
}.

(* validation of Model/JsonVal.redecode - and of the strconv contract the theorems
   C09_scalar_values_roundtrip / C12_binding_fixpoint assume for float32 - against encoding/json:
   every clause but float32 must agree exactly; for a float32 the decoded float64 must be finite
   and round back to it (that IS the hypothesis reparse32_ok, checked on this value) *)
Definition ds_eqb (a b : dval) : bool :=
  match a, b with
  | DS t v, DS t' v' => N.eqb (s_id t) (s_id t') && skind_eqb (s_kind t) (s_kind t') && sval_eqb v v'
  | _, _ => false
  end.
Definition redec_ok (p : sval * option dval) : bool :=
  match p with
  | (SF32 b, Some (DS t (SF64 g))) =>
      N.eqb (s_id t) 13 && is_finite (f32_of_bits b) && is_finite (f64_of_bits g) &&
      (bits_of_f32 (f64_to_f32 (f64_of_bits g)) =? b)%Z
  | (SF32 b, None) => negb (is_finite (f32_of_bits b))
  | (v, od) =>
      match redecode (fun x => x) v, od with
      | Some d, Some d' => ds_eqb d d'
      | None, None => true
      | _, _ => false
      end
  end.

(* validation of Model/Redoc.redoc (the function C12_document_fixpoint is stated with): whenever the model
   restores an error r from a JSON-native x and redoc r is defined, the document n = Marshal(r) that the
   implementation produced decodes to exactly redoc r - kind, message, type, the fields object in name
   order with every typed value re-encoded and every unknown value verbatim, stack, causes recursively.
   reparse32 is the observed strconv table of the case, each entry checked against the contract the
   theorem assumes. *)
Definition reparse_of (l : list (Z * Z)) (b : Z) : Z :=
  match find (fun p => Z.eqb (fst p) b) l with Some p => snd p | None => 0%Z end.
Definition rp_ok (p : Z * Z) : bool :=
  is_finite (f32_of_bits (fst p)) && is_finite (f64_of_bits (snd p)) &&
  (bits_of_f32 (f64_to_f32 (f64_of_bits (snd p))) =? fst p)%Z.
Definition dv_sim (a b : dval) : bool :=
  match a, b with
  | DNil, DNil => true
  | DS _ _, DS _ _ => ds_eqb a b
  | DJ i _, DJ j _ => N.eqb i j
  | DBytes s, DBytes s' => str_eqb s s'
  | DO i _ _, DO j _ _ => N.eqb i j
  | _, _ => false
  end.
Definition frame_eqb (x y : frame) : bool :=
  str_eqb (fr_func x) (fr_func y) && str_eqb (fr_file x) (fr_file y) && Z.eqb (fr_line x) (fr_line y).
Fixpoint dd_sim (a b : dd) : bool :=
  match a, b with
  | DD m k t f s c _, DD m' k' t' f' s' c' _ =>
      str_eqb m m' && str_eqb k k' && str_eqb t t' &&
      list_eqb (fun x y => str_eqb (fst x) (fst y) && dv_sim (snd x) (snd y)) f f' &&
      list_eqb frame_eqb s s' &&
      (fix go (l1 l2 : list (option dd)) : bool :=
         match l1, l2 with
         | [], [] => true
         | Some x :: r1, Some y :: r2 => dd_sim x y && go r1 r2
         | None :: r1, None :: r2 => go r1 r2
         | _, _ => false
         end) c c'
  end.
Definition ndd_ok (c : case) : bool :=
  forallb rp_ok (c_rp c) &&
  match c_ndd c with
  | None => true
  | Some nd =>
      if c_native c then
        match model_res (c_um c) with
        | UOk r => match redoc (reparse_of (c_rp c)) r with Some y => dd_sim y nd | None => true end
        | _ => true
        end
      else true
  end.

Definition ok (c : case) : bool :=
  let o := c_obs (c_um c) in
  (* the same input unmarshals alike every time, with identical observable state *)
  uo_stable o &&
  (* n is a fixpoint whenever it exists *)
  (negb (str_eqb (uo_class o) "ok") || negb (c_native c) || negb (c_marshals c) || c_fix c) &&
  match c_lib c with Some b => b | None => true end.

Definition corr (c : case) : bool := UM.corr (c_um c) && forallb redec_ok (c_redec c) && ndd_ok c.

Definition bad_ok (cs : list case) : list N := bad_idx ok cs.
Definition bad_corr (cs : list case) : list N := bad_idx corr cs.
