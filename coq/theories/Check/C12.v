(* C12: Unmarshal then Marshal is idempotent and deterministic. *)
From Errdef Require Import Base.Str Base.Outcome Model.Core Model.Convert Model.Unmarshal Check.UM.

(* one unmarshaling (compared with the model as in C10) plus what the harness saw of
   x -> r -> n -> r' -> n' *)
Record case := {
  c_um : UM.case;
  c_native : bool;       (* every field value of x is a JSON-native Go value (what a JSON document decodes to) *)
  c_marshals : bool;     (* Marshal(Unmarshal(x)) produced a document n *)
  c_fix : bool;          (* Unmarshal(n) succeeded and Marshal of it is JSON-equal to n *)
  c_lib : option bool    (* x was produced by marshaling a library error: n is JSON-equal to x *)
}.

Definition ok (c : case) : bool :=
  let o := c_obs (c_um c) in
  (* the same input unmarshals alike every time, with identical observable state *)
  uo_stable o &&
  (* n is a fixpoint whenever it exists *)
  (negb (str_eqb (uo_class o) "ok") || negb (c_native c) || negb (c_marshals c) || c_fix c) &&
  match c_lib c with Some b => b | None => true end.

Definition corr (c : case) : bool := UM.corr (c_um c).

Definition bad_ok (cs : list case) : list N := bad_idx ok cs.
Definition bad_corr (cs : list case) : list N := bad_idx corr cs.
