(* C07: case formats written by the harness, the oracle [ok] (the property evaluated on the
   OBSERVED behaviour of the real library) and the correspondence [corr] (model = observed).
   Two streams:
   (A) [CR]: one (cause graph, renderer, native | restored) pair, run in a child process (or in
       process for acyclic graphs): outcome class, shape of what was rendered, json.Valid.
   (B) [CS]: one sequence of renders of errors whose frames point into scratch source files whose
       availability the harness changes between the renders; memo reset before the sequence. *)
From Errdef Require Import Base.Str Base.Outcome Model.Tree Model.Render07.

(* ====================================================================== *)
(* (A) graphs x renderers                                                  *)
(* ====================================================================== *)
Inductive rk := RTree (k : rkind) | RJson.

Inductive outc :=
| OOk          (* the renderer returned (json: with a nil error) *)
| OJsonErr     (* json.Marshal returned an error *)
| OPanic       (* a recoverable panic *)
| OCrash       (* the child died: fatal "stack overflow" / non-zero exit without a result line *)
| OTimeout.    (* no result within the time limit *)

Record rcase := {
  c_graph : graph;
  c_attrs : attrs;
  c_recv : nat;              (* the rendered error: an errdef node of the graph *)
  c_direct : list nat;       (* the causes the receiver's struct holds inline (for %#v) *)
  c_rk : rk;
  c_restored : bool;         (* render Unmarshal(Marshal(recv)) instead of recv *)
  c_out : outc;
  c_shape : list nat;        (* %+v, Node.LogValue, json: depth of every rendered cause, pre-order;
                                %#v: one entry per printed map-kinded error value; else [] *)
  c_valid : bool             (* json: json.Valid(bytes) ; other renderers: true *)
}.

Definition is_nil {A} (l : list A) : bool := match l with [] => true | _ => false end.
Definition is_json (r : rk) : bool := match r with RJson => true | _ => false end.

(* ---------- specification on the observed behaviour ---------- *)
(* every renderer returns; json.Marshal returns valid JSON or an error - an error only when some
   field value cannot be encoded *)
Definition ok_render (c : rcase) : bool :=
  match c_out c with
  | OOk => c_valid c
  | OJsonErr => is_json (c_rk c) && negb (is_nil (a_bad (c_attrs c)))
  | OPanic | OCrash | OTimeout => false
  end.

(* ---------- model ---------- *)
Inductive mres := MTotal (sh : list nat) | MFail | MDiverge.
Definition of_jres (r : jres) : mres :=
  match r with JOk s => MTotal s | JFail => MFail | JOut => MDiverge end.

Definition model_native (c : rcase) : mres :=
  let g := c_graph c in
  match c_rk c with
  | RJson => of_jres (marshal_g (json_fuel g) g (a_bad (c_attrs c)) (c_recv c))
  | RTree KSharp => of_jres (gostring_g (gs_fuel g) g (a_inline (c_attrs c)) (c_direct c))
  | RTree k =>
      if walks k then
        match unwrap_tree g (c_recv c) with
        | None => MDiverge
        | Some ts => match render_tree g (c_attrs c) k (c_recv c) ts with
                     | Some toks => MTotal (map fst toks)
                     | None => MDiverge
                     end
        end
      else MTotal []
  end.

(* A restored error is the finite tree that the JSON document of the native error spells out:
   every renderer follows exactly that tree; it carries no unencodable field (the document
   exists) and all its nodes are pointers.  None: there is no document to restore from. *)
Definition model_restored (c : rcase) : option mres :=
  let g := c_graph c in
  match marshal_g (json_fuel g) g (a_bad (c_attrs c)) (c_recv c) with
  | JOk sh => Some (MTotal (match c_rk c with
                            | RJson => sh
                            | RTree k => if walks k then sh else []
                            end))
  | _ => None
  end.

Definition shape_eqb (r : rk) (m o : list nat) : bool :=
  match r with
  | RTree KSharp => Nat.eqb (List.length m) (List.length o)
  | _ => list_eqb Nat.eqb m o
  end.

Definition agrees (m : mres) (c : rcase) : bool :=
  match m, c_out c with
  | MTotal sh, OOk => shape_eqb (c_rk c) sh (c_shape c) && c_valid c     (* a returned document is valid JSON *)
  | MFail, OJsonErr => true
  | MDiverge, OCrash => true
  | MDiverge, OTimeout => true
  | _, _ => false
  end.

Definition corr_render (c : rcase) : bool :=
  if c_restored c then match model_restored c with Some m => agrees m c | None => false end
  else agrees (model_native c) c.

(* ====================================================================== *)
(* (B) source availability sequences                                       *)
(* ====================================================================== *)
Definition sline := (Z * bool * string)%type.     (* number, marked with "> ", text *)

Record sstep := {
  s_files : list (string * fres);      (* the scratch files at this render; a path not listed is Missing *)
  s_frames : list (string * Z);        (* (file, line) of the error's first frames, innermost first *)
  s_around : Z;                        (* StackSource(around, depth) *)
  s_depth : Z;
  s_panic : bool;                      (* the render panicked *)
  s_snips : list string;               (* per frame: the snippet text in the %+v output ("" = none) *)
  s_parsed : list (list sline);        (* per frame: the same, parsed *)
  s_avail : option bool;               (* VerifSourceState() after the render *)
  s_cached : list (string * nat)       (* cached paths with their line counts *)
}.

Definition fs_of (l : list (string * fres)) : fsys :=
  fun p => match find (fun e => str_eqb p (fst e)) l with Some e => snd e | None => Missing end.

Definition sline_eqb (a b : sline) : bool :=
  Z.eqb (fst (fst a)) (fst (fst b)) && Bool.eqb (snd (fst a)) (snd (fst b)) && str_eqb (snd a) (snd b).

(* ---------- specification ---------- *)
(* the lines [line-around, line+around] clipped to the file, numbered, exactly [line] marked;
   nothing when [line] is not a line of the file *)
Definition expected_window (L : list string) (line around : Z) : list sline :=
  let len := Z.of_nat (List.length L) in
  if Z.leb 1 line && Z.leb line len then
    let lo := Z.max 1 (line - around) in
    let hi := Z.min len (line + around) in
    map (fun i => let num := (lo + Z.of_nat i)%Z in (num, Z.eqb num line, nth (Z.to_nat (num - 1)) L ""))
        (seq 0 (Z.to_nat (hi - lo + 1)))
  else [].

(* a non-empty snippet shows the true lines of the file as it is now or as it was at an earlier
   render of the sequence (cached) *)
Definition snippet_ok (hist : list (list (string * fres))) (around : Z) (fr : string * Z) (sl : list sline) : bool :=
  is_nil sl ||
  existsb (fun files => match fs_of files (fst fr) with
                        | Present L => negb (is_nil (expected_window L (snd fr) around))
                                       && list_eqb sline_eqb sl (expected_window L (snd fr) around)
                        | _ => false
                        end) hist.

Fixpoint forallb2 {A B} (f : A -> B -> bool) (l1 : list A) (l2 : list B) : bool :=
  match l1, l2 with
  | [], [] => true
  | a :: r1, b :: r2 => f a b && forallb2 f r1 r2
  | _, _ => false
  end.

(* the memo is written at most once *)
Definition avail_mono (prev next : option bool) : bool :=
  match prev with None => true | Some b => option_eqb Bool.eqb next (Some b) end.

Fixpoint ok_steps (hist : list (list (string * fres))) (prev : option bool) (steps : list sstep) : bool :=
  match steps with
  | [] => true
  | s :: r =>
      let hist' := s_files s :: hist in
      negb (s_panic s)
      && forallb2 (snippet_ok hist' (s_around s)) (s_frames s) (s_parsed s)
      && avail_mono prev (s_avail s)
      && (match prev with Some false => forallb is_nil (s_parsed s) | _ => true end)
      && ok_steps hist' (s_avail s) r
  end.
Definition ok_source (steps : list sstep) : bool := ok_steps [] None steps.

(* ---------- model ---------- *)
(* the structured form of what frameSource prints *)
Definition model_parsed (st : sstate) (fs : fsys) (p : string) (line around : Z) : list sline :=
  match get_source_lines st fs p line around with
  | (_, Ok lines, _) => map (fun e => (fst e, Z.eqb (fst e) line, snd e)) (number_from (Z.max 1 (line - around)) lines)
  | _ => []
  end.

Fixpoint model_parsed_frames (st : sstate) (fs : fsys) (around depth : Z) (i : nat) (frames : list (string * Z))
  : list (list sline) :=
  match frames with
  | [] => []
  | (file, line) :: r =>
      if want_source around depth i file then
        let '(st1, _, _) := frame_source st fs file line around in
        model_parsed st fs file line around :: model_parsed_frames st1 fs around depth (S i) r
      else [] :: model_parsed_frames st fs around depth (S i) r
  end.

Definition out_eqb (o : outcome string) (s : string) : bool :=
  match o with Ok t => str_eqb t s | _ => false end.

Definition cached_eqb (c : list (string * list string)) (obs : list (string * nat)) : bool :=
  Nat.eqb (List.length c) (List.length obs)
  && forallb (fun e => existsb (fun o => str_eqb (fst e) (fst o) && Nat.eqb (List.length (snd e)) (snd o)) obs) c.

Fixpoint corr_steps (st : sstate) (steps : list sstep) : bool :=
  match steps with
  | [] => true
  | s :: r =>
      let fs := fs_of (s_files s) in
      let (st1, outs) := frames_and_source st fs (s_around s) (s_depth s) 0 (s_frames s) in
      negb (s_panic s)
      && forallb2 out_eqb outs (s_snips s)
      && list_eqb (list_eqb sline_eqb) (model_parsed_frames st fs (s_around s) (s_depth s) 0 (s_frames s)) (s_parsed s)
      && option_eqb Bool.eqb (available st1) (s_avail s)
      && cached_eqb (cache st1) (s_cached s)
      && corr_steps st1 r
  end.
Definition corr_source (steps : list sstep) : bool := corr_steps s_init steps.

(* ====================================================================== *)
Inductive case := CR (c : rcase) | CS (steps : list sstep).

Definition ok (c : case) : bool := match c with CR r => ok_render r | CS s => ok_source s end.
Definition corr (c : case) : bool := match c with CR r => corr_render r | CS s => corr_source s end.

Definition bad_ok (cs : list case) : list N := bad_idx ok cs.
Definition bad_corr (cs : list case) : list N := bad_idx corr cs.
