(* Shared by the renderer checks C08 (JSON), C18 (text), C19 (slog): restored errors
   handed in as literals (the harness obtains them from a real round trip). *)
From Errdef Require Import Base.Str Model.Core Model.GoErrors Model.Prog.

Inductive rlit :=
| RLRest (d : nat) (msg : string) (rf : rfields) (stk : list frame) (causes : list rlit)
| RLUnk (msg tyname : string) (causes : list rlit)
| RLDef (d : nat)
| RLLeaf (msg tyname : string).

(* addresses of literals are irrelevant to rendering: 0 *)
Fixpoint err_of_rlit (s : st) (r : rlit) : err :=
  match r with
  | RLRest d msg rf stk cs => ERest 0 (get_def s d) msg rf stk (map (err_of_rlit s) cs)
  | RLUnk msg ty cs => EUnk 0 msg ty (map (err_of_rlit s) cs)
  | RLDef d => EDefn (get_def s d)
  | RLLeaf msg ty => ELeaf 0 msg ty
  end.

(* the errors a case renders: pool entry i, or given literal i *)
Inductive subject := SPool (i : nat) | SGiven (i : nat).
Definition subject_err (s : st) (given : list rlit) (sb : subject) : option err :=
  match sb with
  | SPool i => nth i (s_errs s) None
  | SGiven i => option_map (err_of_rlit s) (nth_error given i)
  end.
