(* C20 (native part): fields collections are self-consistent. *)
From Errdef Require Import Base.Str Base.Outcome Model.Core Model.GoErrors Model.Prog Model.Convert Model.Unmarshal Check.C03 Check.UM.

(* what the harness observes of one Fields() collection *)
Record fobs := {
  fo_len : nat;
  fo_zero : bool;
  fo_all : list (N * string);               (* All(): key id (or 999 for a key outside the pool), value repr *)
  fo_all2 : list (N * string);              (* a second iteration *)
  fo_get : list (bool * string);            (* Get for every key of nc_keys *)
  fo_find : list (list N)                   (* FindKeys for every name of nc_names, ids sorted ascending *)
}.
Inductive subject := OfDef (i : nat) | OfErr (i : nat).
Record ncase := { nc_prog : list stmt; nc_keys : list key; nc_names : list string;
                  nc_obs : list (subject * fobs) }.

(* restored fields: what the accessors of a restored error's Fields() returned *)
Record robs := {
  ro_len : nat; ro_zero : bool;
  ro_all : list (string * bool);            (* All(): name, typed? *)
  ro_all2 : list (string * bool);           (* a second iteration *)
  ro_get_same : bool;                       (* every key All yields is found by Get with the same value *)
  ro_find : list (string * list (string * bool));   (* FindKeys(n) for every decoded name and one absent name *)
  ro_get_absent : bool;                     (* Get reports absence for a key whose name does not occur *)
  ro_unknown : list string;                 (* names UnknownFields lists, sorted *)
  ro_decoded : list string                  (* the decoded top-level field names, sorted *)
}.
Inductive case := CNative (n : ncase) | CRestored (u : UM.case) (r : robs).

Definition nstr_eqb (a b : N * string) : bool := N.eqb (fst a) (fst b) && str_eqb (snd a) (snd b).
Definition bstr_eqb (a b : bool * string) : bool := Bool.eqb (fst a) (fst b) && str_eqb (snd a) (snd b).

(* insertion sort on N, for comparing FindKeys results as sets *)
Fixpoint insN (x : N) (l : list N) : list N :=
  match l with [] => [x] | y :: r => if N.leb x y then x :: l else y :: insN x r end.
Definition sortN (l : list N) : list N := fold_right insN [] l.

(* ---- model ---- *)
Definition model_fobs (keys : list key) (names : list string) (f : fields) : fobs :=
  let all := map (fun kv => (k_id (fst kv), fv_repr (snd kv))) (f_all f) in
  {| fo_len := f_len f; fo_zero := f_is_zero f; fo_all := all; fo_all2 := all;
     fo_get := map (fun k => match f_get f k with Some v => (true, fv_repr v) | None => (false, "") end) keys;
     fo_find := map (fun n => sortN (map k_id (f_find_keys f n))) names |}.

Definition subject_fields (s : st) (sb : subject) : option fields :=
  match sb with
  | OfDef i => option_map d_fields (nth_error (s_defs s) i)
  | OfErr i => match nth_error (s_errs s) i with
               | Some (Some (EDef _ d _ _ _ _)) | Some (Some (EDefn d)) => Some (d_fields d)
               | _ => None
               end
  end.

Definition fobs_eqb (a b : fobs) : bool :=
  Nat.eqb (fo_len a) (fo_len b) && Bool.eqb (fo_zero a) (fo_zero b) &&
  list_eqb nstr_eqb (fo_all a) (fo_all b) && list_eqb nstr_eqb (fo_all2 a) (fo_all2 b) &&
  list_eqb bstr_eqb (fo_get a) (fo_get b) && list_eqb (list_eqb N.eqb) (fo_find a) (fo_find b).

Definition ncorr (c : ncase) : bool :=
  let s := run (nc_prog c) in
  prog_ok (nc_prog c) &&
  forallb (fun so => match subject_fields s (fst so) with
                     | Some f => fobs_eqb (snd so) (model_fobs (nc_keys c) (nc_names c) f)
                     | None => false end) (nc_obs c).

(* ---- specification: the coherence equations, evaluated on the observation alone,
        plus the order of last writes computed from the program text ---- *)
Definition key_name (keys : list key) (id : N) : option string :=
  option_map k_name (find (fun k => N.eqb (k_id k) id) keys).

Fixpoint zip {A B} (l1 : list A) (l2 : list B) : list (A * B) :=
  match l1, l2 with a :: r1, b :: r2 => (a, b) :: zip r1 r2 | _, _ => [] end.

Definition coherent (keys : list key) (names : list string) (o : fobs) : bool :=
  Nat.eqb (fo_len o) (List.length (fo_all o)) &&
  Bool.eqb (fo_zero o) (Nat.eqb (fo_len o) 0) &&
  list_eqb nstr_eqb (fo_all o) (fo_all2 o) &&
  Nat.eqb (List.length (fo_get o)) (List.length keys) && Nat.eqb (List.length (fo_find o)) (List.length names) &&
  (* every pair of All is found by Get with the same value, and by FindKeys under its name *)
  forallb (fun kv =>
     existsb (fun kg => N.eqb (k_id (fst kg)) (fst kv) && fst (snd kg) && str_eqb (snd (snd kg)) (snd kv)) (zip keys (fo_get o)) &&
     match key_name keys (fst kv) with
     | Some n => existsb (fun nf => str_eqb (fst nf) n && existsb (N.eqb (fst kv)) (snd nf)) (zip names (fo_find o))
     | None => false end) (fo_all o) &&
  (* FindKeys returns only keys of that name *)
  forallb (fun nf => forallb (fun id => match key_name keys id with Some n => str_eqb n (fst nf) | None => false end) (snd nf))
          (zip names (fo_find o)) &&
  (* Get reports absence exactly for keys All does not yield *)
  forallb (fun kg => Bool.eqb (fst (snd kg)) (existsb (fun kv => N.eqb (fst kv) (k_id (fst kg))) (fo_all o))) (zip keys (fo_get o)).

(* keys in the order of their LAST write in an option sequence, with the value written:
   a write is kept iff no later write goes through the same constructor *)
Definition writes_key (id : N) (o : opt) : bool :=
  match o with OField k _ => N.eqb (k_id k) id | _ => false end.
Fixpoint write_order (os : list opt) : list (N * string) :=
  match os with
  | [] => []
  | OField k v :: r =>
      if existsb (writes_key (k_id k)) r then write_order r else (k_id k, fv_repr v) :: write_order r
  | _ :: r => write_order r
  end.

Definition ok1 (p : list stmt) (keys : list key) (names : list string) (so : subject * fobs) : bool :=
  coherent keys names (snd so) &&
  match fst so with
  | OfDef i => list_eqb nstr_eqb (fo_all (snd so)) (write_order (nth i (q_defs (seqs_of p)) []))
  | OfErr _ => true
  end.

Definition nok (c : ncase) : bool :=
  prog_ok (nc_prog c) && forallb (ok1 (nc_prog c) (nc_keys c) (nc_names c)) (nc_obs c).

(* ---- restored: the equations on the observation alone ---- *)
Definition sb_eqb (a b : string * bool) : bool := str_eqb (fst a) (fst b) && Bool.eqb (snd a) (snd b).
Fixpoint strictly_sorted (l : list string) : bool :=
  match l with
  | a :: ((b :: _) as r) => String.ltb a b && strictly_sorted r
  | _ => true
  end.
Definition rok (r : robs) : bool :=
  Nat.eqb (ro_len r) (List.length (ro_all r)) &&
  Bool.eqb (ro_zero r) (Nat.eqb (ro_len r) 0) &&
  list_eqb sb_eqb (ro_all r) (ro_all2 r) &&
  (* one fixed order: strictly sorted by name, hence no name twice *)
  strictly_sorted (map fst (ro_all r)) &&
  (* every decoded field exactly once, typed or unknown *)
  list_eqb str_eqb (map fst (ro_all r)) (ro_decoded r) &&
  ro_get_same r && ro_get_absent r &&
  (* FindKeys(n): exactly the entries of that name *)
  forallb (fun nf => list_eqb sb_eqb (snd nf) (filter (fun e => str_eqb (fst e) (fst nf)) (ro_all r))) (ro_find r) &&
  (* UnknownFields lists exactly the unknown ones *)
  list_eqb str_eqb (ro_unknown r) (map fst (filter (fun e => negb (snd e)) (ro_all r))).

(* model side for a restored error: Len and All (names, typed?) *)
Definition rcorr (u : UM.case) (r : robs) : bool :=
  UM.corr u &&
  match model_res u with
  | UOk e => Nat.eqb (ro_len r) (rf_len e) &&
             list_eqb sb_eqb (ro_all r) (map (fun kv => (ak_name (fst kv), match fst kv with AKTyped _ => true | AKName _ => false end)) (rf_all e))
  | _ => false
  end.

Definition ok (c : case) : bool := match c with CNative n => nok n | CRestored _ r => rok r end.
Definition corr (c : case) : bool := match c with CNative n => ncorr n | CRestored u r => rcorr u r end.

Definition bad_ok (cs : list case) : list N := bad_idx ok cs.
Definition bad_corr (cs : list case) : list N := bad_idx corr cs.
