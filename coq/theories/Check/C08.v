(* C08: the JSON document mirrors the accessor view of the error. *)
From Errdef Require Import Base.Str Base.Outcome Model.Core Model.GoErrors Model.Prog Model.Tree0 Model.Json Check.Render.

(* observed: the parsed document (None: json.Marshal returned an error), and whether three
   marshalings gave identical bytes *)
Record obs1 := { o_subject : subject; o_doc : option json; o_same3 : bool }.
Record case := { c_prog : list stmt; c_given : list rlit; c_obs : list obs1 }.

Fixpoint json_eqb (a b : json) : bool :=
  match a, b with
  | JStr x, JStr y | JRaw x, JRaw y => str_eqb x y
  | JNum x, JNum y => Z.eqb x y
  | JArr l1, JArr l2 =>
      (fix go (l1 l2 : list json) : bool :=
         match l1, l2 with [], [] => true | x :: r1, y :: r2 => json_eqb x y && go r1 r2 | _, _ => false end) l1 l2
  | JObj l1, JObj l2 =>
      (fix go (l1 l2 : list (string * json)) : bool :=
         match l1, l2 with
         | [], [] => true
         | (k1, x) :: r1, (k2, y) :: r2 => str_eqb k1 k2 && json_eqb x y && go r1 r2
         | _, _ => false
         end) l1 l2
  | _, _ => false
  end.

Definition out_doc (o : outcome json) : option json := match o with Ok j => Some j | _ => None end.

(* ---- model ---- *)
Definition corr1 (s : st) (given : list rlit) (o : obs1) : bool :=
  match subject_err s given (o_subject o) with
  | Some e => option_eqb json_eqb (o_doc o) (out_doc (marshal_error e))
  | None => false
  end.
Definition corr (c : case) : bool :=
  let s := run (c_prog c) in prog_ok (c_prog c) && forallb (corr1 s (c_given c)) (c_obs c).

(* ---- specification: the document written from the accessors, by structural
        recursion on the cause tree ---- *)
(* name -> value with the later-inserted value winning; encoding/json then emits the
   members of a map sorted by name (sort_names, the stdlib rule shared with the model) *)
Fixpoint last_named (n : string) (all : list (string * fval)) : option fval :=
  match all with
  | [] => None
  | (n', v) :: r => match last_named n r with Some x => Some x | None => if str_eqb n' n then Some v else None end
  end.
(* the distinct names, in order of first occurrence *)
Definition first_names (all : list (string * fval)) : list string :=
  fold_left (fun acc nv => if existsb (str_eqb (fst nv)) acc then acc else acc ++ [fst nv]) all [].
Definition dummy_fval : fval := {| fv_repr := ""; fv_plus := ""; fv_json := "!err" |}.
Definition name_map (all : list (string * fval)) : list (string * fval) :=
  map (fun n => (n, match last_named n all with Some v => v | None => dummy_fval end)) (first_names all).

Definition spec_fields (all : list (string * fval)) : option (list (string * json)) :=
  let m := sort_names (name_map all) in
  if forallb (fun nv => json_ok (snd nv)) m
  then Some (map (fun nv => (fst nv, JRaw (fv_json (snd nv)))) m)
  else None.

Fixpoint spec_doc (t : tree) : option json :=
  match t with
  | T e kids =>
      let cs := (fix go (l : list tree) : option (list json) :=
                   match l with
                   | [] => Some []
                   | k :: r => match spec_doc k, go r with Some j, Some js => Some (j :: js) | _, _ => None end
                   end) kids in
      if is_errdef_error e then
        match (match e_def e with Some d => d_json d | None => None end) with
        | Some id => Some (custom_json id (err_msg e))        (* replaced for errors of that definition only *)
        | None =>
            let all := e_fields_all e in
            match (match all with [] => Some [] | _ => spec_fields all end), cs with
            | Some fl, Some cj =>
                Some (JObj ([("message", JStr (err_msg e))]
                            ++ (if str_eqb (e_kind e) "" then [] else [("kind", JStr (e_kind e))])
                            ++ (match all with [] => [] | _ => [("fields", JObj fl)] end)
                            ++ (match e_stack e with [] => [] | fs => [("stack", JArr (map frame_json fs))] end)
                            ++ (match cj with [] => [] | _ => [("causes", JArr cj)] end)))
            | _, _ => None
            end
        end
      else
        match cs with
        | Some cj => Some (JObj ([("message", JStr (err_msg e)); ("type", JStr (type_name e))]
                                 ++ (match cj with [] => [] | _ => [("causes", JArr cj)] end)))
        | None => None
        end
  end.

Definition ok1 (s : st) (given : list rlit) (o : obs1) : bool :=
  o_same3 o &&
  match subject_err s given (o_subject o) with
  | Some e => option_eqb json_eqb (o_doc o) (spec_doc (tree_of e))
  | None => false
  end.
Definition ok (c : case) : bool :=
  let s := run (c_prog c) in prog_ok (c_prog c) && forallb (ok1 s (c_given c)) (c_obs c).

Definition bad_ok (cs : list case) : list N := bad_idx ok cs.
Definition bad_corr (cs : list case) : list N := bad_idx corr cs.
