(* C13: strict and lenient unmarshaling honour their contracts. *)
From Errdef Require Import Base.Str Base.Outcome Model.Core Model.Convert Model.Unmarshal Check.UM.

Definition case := UM.case.

(* ---- the decision table, from the configuration and the top-level document only ---- *)
Definition kind_known (c : ucfg) (k : string) : bool :=
  existsb (fun d => str_eqb (d_kind (ud_def d)) k) (u_defs c).

(* the definition a known kind resolves to: the first registered one *)
Definition expected_def (c : ucfg) (k : string) : option udef :=
  match find (fun d => str_eqb (d_kind (ud_def d)) k) (u_defs c) with
  | Some d => Some d
  | None => if u_strict c then None else u_default c
  end.

(* a field name the resolved definition or the registered custom keys know *)
Definition registered (c : ucfg) (d : udef) (n : string) : bool :=
  existsb (fun k => str_eqb (k_name (uk_key k)) n) (ud_keys d) ||
  existsb (fun k => str_eqb (k_name (uk_key k)) n) (u_custom c).

Definition is_placeholder_oval (v : oval) : bool :=
  match v with OVS 1%N (SStr s) => str_eqb s redacted_str | _ => false end.

Definition unknown_of (o : uobs) : list (string * oval) :=
  match uo_res o with Some (ORErr _ _ _ un _ _ _) => un | None => [] end.
Definition def_of (o : uobs) : option nat :=
  match uo_res o with Some (ORErr d _ _ _ _ _ _) => Some d | None => None end.

Definition ok (c : case) : bool :=
  let o := c_obs c in
  let cfg := c_cfg c in
  (* unknown fields STAY retrievable: reading the restored error (typed extractors through every key, FindKeys,
     renderers) and unmarshaling the input again leave its observable state as it was *)
  uo_stable_m o &&
  match c_in c, c_decerr c with
  | Some (DD msg kind ty fields stack causes unk), false =>
      let known := kind_known cfg kind in
      let is_ok := str_eqb (uo_class o) "ok" in
      if u_strict cfg then
        (* unknown kind: ErrUnknownKind carrying it, even with a default *)
        (known || (str_eqb (uo_class o) cls_kind && str_eqb (uo_kind o) kind)) &&
        match expected_def cfg kind with
        | Some d =>
            (* a field neither defined on the resolved definition nor registered fails the call;
               when the failure is ErrUnknownField it carries a field of the document and the kind *)
            (negb (existsb (fun nv => negb (registered cfg d (fst nv)) && negb (is_placeholder (snd nv))) fields) || negb is_ok) &&
            (negb (str_eqb (uo_class o) cls_field) ||
             (existsb (fun nv => str_eqb (fst nv) (uo_field o)) fields && str_eqb (uo_kind o) kind)) &&
            (* success: no unknown fields other than redaction placeholders *)
            (negb is_ok || forallb (fun nv => is_placeholder_oval (snd nv)) (unknown_of o))
        | None => true
        end
      else
        (* lenient: unknown kind fails with ErrUnknownKind carrying it, or resolves to the default *)
        (known ||
         match u_default cfg with
         | None => str_eqb (uo_class o) cls_kind && str_eqb (uo_kind o) kind
         | Some dflt => negb is_ok || option_eqb Nat.eqb (def_of o) (Some (d_org (ud_def dflt)))
         end) &&
        (* unknown fields never cause a failure ... *)
        negb (str_eqb (uo_class o) cls_field) &&
        (* ... and stay retrievable by name with their decoded value *)
        match expected_def cfg kind with
        | Some d =>
            negb is_ok ||
            forallb (fun nv =>
                       registered cfg d (fst nv) || is_placeholder (snd nv) ||
                       existsb (fun ov => str_eqb (fst ov) (fst nv) && oval_eqb (snd ov) (oval_of_dval (snd nv))) (unknown_of o))
                    fields
        | None => true
        end
  | _, _ => true
  end.

Definition corr := UM.corr.
Definition bad_ok (cs : list case) : list N := bad_idx ok cs.
(* the correspondence of a run: model = observed, and the source as translated in this run = model *)
Definition bad_corr (cs : list case) : list N := bad_idx (fun c => corr c && UM.src_agrees c) cs.
